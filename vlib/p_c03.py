"""C03 — block and flow structure parses to the node tree the document denotes.

(a) random abstract node trees -> YAML text through an independent renderer that follows the YAML 1.2.2 productions
    (the production numbers are quoted at each function) under random legal layout choices; the expected event list
    is computed from the tree, never from the text;
(b) the yaml-test-suite: events of the implementation in the suite's `tree` notation against the recorded tree, error
    cases must be rejected, layout-preserving variants (trailing comment lines, blank lines between top-level block
    entries, CRLF) must not change anything;
(c) the parser half in Coq (coq/Spec/TokenGrammar.v): random layout trees, parse_tokens (wrap (tokens_of t)) =
    wrap_events (events_of t) evaluated by the extracted model (tests the statement proved in Properties/C03.v on
    constructors beyond the proved ones as well), and events_of of the Coq spec against events_of of this file;
(d) the scanner half in Coq (coq/Spec/FlowText.v): random nodes of the text sub-language of C03_flow_text_tokens /
    C03_flow_text_events; the real scanner's tokens and the real events against the extracted specification."""
import json
import os
import re

from . import core, gen
from .core import Result, enc, ev_nospan, prepare, run_hx, run_mx, split_line

PID = "C03"
YAML_PREFIX = "tag:yaml.org,2002:"


def cps(s):
    return ".".join(str(ord(c)) for c in s)


# ------------------------------------------------------------------------------------------------
# abstract trees
# ------------------------------------------------------------------------------------------------
class Node:
    """kind: 'S' scalar, 'A' alias, 'N' node left out (possibly with properties), 'Q' sequence, 'M' mapping.
    style (scalars): P S D L F.  text: the denoted text (aliases: the anchor name).  lines/chomp: block scalars.
    items: children (sequence) or (key, value) pairs (mapping).  flow: flow style for collections."""
    __slots__ = ("kind", "anchor", "tag", "style", "text", "items", "flow", "lines", "chomp", "tag_first")

    def __init__(self, kind, anchor=None, tag=None, style=None, text=None, items=None, flow=False, lines=None, chomp="",
                 tag_first=False):
        self.kind, self.anchor, self.tag, self.style, self.text = kind, anchor, tag, style, text
        self.items, self.flow, self.lines, self.chomp, self.tag_first = items, flow, lines, chomp, tag_first

    def props(self):
        return self.anchor is not None or self.tag is not None

    def empty(self):
        return self.kind == "N" and not self.props()

    def children(self):
        if self.kind == "Q":
            return list(self.items)
        if self.kind == "M":
            return [x for kv in self.items for x in kv]
        return []

    def dump(self):
        """compact, readable form for replays"""
        p = ("&%s " % self.anchor if self.anchor else "") + ("%s " % self.tag if self.tag else "")
        if self.kind == "S":
            return "%s%s%s" % (p, self.style, json.dumps(self.text, ensure_ascii=True))
        if self.kind == "A":
            return "*" + self.text
        if self.kind == "N":
            return p + "~"
        if self.kind == "Q":
            return "%s%s(%s)" % (p, "fseq" if self.flow else "bseq", ", ".join(x.dump() for x in self.items))
        return "%s%s(%s)" % (p, "fmap" if self.flow else "bmap", ", ".join("%s => %s" % (k.dump(), v.dump()) for k, v in self.items))


def split_tag(tag):
    """(handle, suffix) as the scanner delivers a tag: '!' -> ('', '!'), '!!s' -> ('!!', 's'), '!e!s' -> ('!e!', 's'),
    '!s' -> ('!', 's')"""
    if tag == "!":
        return "", "!"
    if tag.startswith("!!"):
        return "!!", tag[2:]
    j = tag.find("!", 1)
    if j > 0:
        return tag[:j + 1], tag[j + 1:]
    return "!", tag[1:]


def tag_ev(tag, table=None):
    """the resolved tag of an event; table: handle -> prefix declared by %TAG directives ([88]-[93]: a declared handle is
    replaced by its prefix, '!!' defaults to the YAML prefix, '!' to itself)"""
    if tag is None:
        return "-"
    table = table or {}
    h, suf = split_tag(tag)
    if h == "":
        return "h=%s/s=33" % cps(table.get("", ""))
    if h == "!!":
        return "h=%s/s=%s" % (cps(table.get("!!", YAML_PREFIX)), cps(suf))
    return "h=%s/s=%s" % (cps(table[h] if h in table or len(h) > 1 else "!"), cps(suf))


def events_of(docs, explicit, tables=None):
    """the event list the stream denotes, in the notation of `hx events` without spans.
    docs: root nodes; explicit[i]: document i starts with '---'.  Anchor ids: 1, 2, ... in order of appearance in the
    stream; an alias carries the id of the latest anchor of that name in the same document.  tables[i]: the %TAG
    handles in force in document i."""
    out = ["SS"]
    counter = [0]
    table = [None]

    def tag_ev_(tag):
        return tag_ev(tag, table[0])

    def emit(n, names):
        aid = 0
        if n.anchor is not None:
            counter[0] += 1
            aid = counter[0]
            names[n.anchor] = aid
        if n.kind == "S":
            out.append("SC%s,%d,%s,%s" % (n.style, aid, tag_ev_(n.tag), cps(n.text)))
        elif n.kind == "N":
            out.append("SCP,%d,%s,%s" % (aid, tag_ev_(n.tag), "" if n.props() else "126"))
        elif n.kind == "A":
            out.append("AL%d" % names[n.text])
        elif n.kind == "Q":
            out.append("QS%d,%s" % (aid, tag_ev_(n.tag)))
            for x in n.items:
                emit(x, names)
            out.append("QE")
        else:
            out.append("MS%d,%s" % (aid, tag_ev_(n.tag)))
            for k, v in n.items:
                emit(k, names)
                emit(v, names)
            out.append("ME")

    for i, (root, ex) in enumerate(zip(docs, explicit)):
        table[0] = tables[i] if tables is not None else None
        out.append("DS1" if ex else "DS0")
        emit(root, {})
        out.append("DE")
    out.append("SE")
    return out


# ------------------------------------------------------------------------------------------------
# random trees
# ------------------------------------------------------------------------------------------------
PL_FIRST = "abcxyzKV0179_~.=/\\$^()+\u00e9\u4e2d"
PL_INNER = PL_FIRST + "-?:!&*#|>%@`;<"
PL_INNER_BLOCK = PL_INNER + ",[]{}"
Q_CHARS = "abxyz 019-?:,[]{}#&*!|>%@`~=/\\$'\"\u00e9\u4e2d\U0001f600"
D_EXTRA = "\n\t\x07\x00\x1b\u2028\xa0"
TAGS = ["!t", "!!str", "!u-1", "!!map", "!"]
ANCHOR_NAMES = ["a", "b", "c1", "d-e", "x_y", "a"]
LINE_WORDS = ["text", "two words", "k: v", "- item", "# not a comment", "a #b", "x:y", "\u00e9t\u00e9", "1", "*s &t !u", "%d", "..", "--"]


def plain_text(rng, inflow):
    """a single-line plain scalar text that is legal in the given context:
    [126] ns-plain-first(c), [130] ns-plain-char(c), [127] ns-plain-safe(c), [131] ns-plain(n,c) / single line"""
    inner = PL_INNER if inflow else PL_INNER_BLOCK
    while True:
        n = rng.choice([1, 1, 2, 3, 4, 6, 9])
        r = rng.random()
        if r < 0.12 and n >= 2:
            s = rng.choice("-?:") + rng.choice(PL_FIRST)        # indicator followed by a "safe" character
        else:
            s = rng.choice(PL_FIRST)
        while len(s) < n:
            c = rng.choice(inner) if rng.random() < 0.7 else rng.choice(" ab")
            if c in "'\"" and s.endswith(" "):
                continue
            s += c
        if s.endswith((" ", ":")) or ": " in s or " #" in s or s.startswith(("---", "...")) or "  " in s and rng.random() < 0.7:
            continue
        if inflow and re.search(r":[,\[\]{}]", s):
            continue      # [130] in flow context ':' before a flow indicator is the value indicator, not text
        return s


def quoted_text(rng, double):
    n = rng.choice([0, 1, 2, 3, 5, 8])
    alpha = Q_CHARS + (D_EXTRA if double else "")
    return "".join(rng.choice(alpha) if rng.random() < 0.6 else rng.choice("ab ") for _ in range(n))


def block_lines(rng):
    """content lines of a block scalar: text lines, empty lines (not first / last), more-indented lines (literal only
    decides that at rendering time)"""
    n = rng.choice([1, 1, 2, 3, 4])
    lines = []
    for i in range(n):
        if 0 < i < n - 1 and rng.random() < 0.2:
            lines.append("")
        else:
            lines.append(rng.choice(LINE_WORDS))
    return lines


def fold_text(lines):
    """[175]-[182] folded content of text lines that are not more-indented: a single break between two text lines is a
    space, k empty lines between them are k line feeds"""
    out = ""
    pending = 0
    first = True
    for l in lines:
        if l == "":
            pending += 1
            continue
        if not first:
            out += "\n" * pending if pending else " "
        out += l
        pending = 0
        first = False
    return out


class TreeGen:
    def __init__(self, rng, max_depth=4, cov=None):
        self.rng = rng
        self.max_depth = max_depth
        self.cov = cov if cov is not None else {}

    def count(self, k):
        self.cov[k] = self.cov.get(k, 0) + 1

    def props(self, n, defined, p_anchor=0.18, p_tag=0.15):
        rng = self.rng
        if rng.random() < p_anchor:
            n.anchor = rng.choice(ANCHOR_NAMES)
            defined.append(n.anchor)
            self.count("anchor")
        if rng.random() < p_tag:
            n.tag = rng.choice(TAGS)
            self.count("tag")
        n.tag_first = rng.random() < 0.5
        return n

    def scalar(self, inflow, defined, key=False):
        rng = self.rng
        styles = "PPPPSDD" if (inflow or key) else "PPPPSDDLF"
        st = rng.choice(styles)
        n = Node("S", style=st)
        if st == "P":
            n.text = plain_text(rng, inflow)
        elif st in "SD":
            n.text = quoted_text(rng, st == "D")
        else:
            n.lines = block_lines(rng)
            n.chomp = rng.choice(["", "", "-", "+"])
            body = "\n".join(n.lines) if st == "L" else fold_text(n.lines)
            n.text = body + ("" if n.chomp == "-" else "\n")
        self.count("scalar-" + st)
        return self.props(n, defined)

    def key(self, depth, flow, defined):
        kr = self.rng.random()
        if kr < 0.62:
            return self.scalar(flow, defined, key=True)
        if kr < 0.74:
            self.count("null-key")
            return self.props(Node("N"), defined, 0.1, 0.1)
        self.count("complex-key")
        return self.node(depth, flow, defined)

    def value(self, depth, flow, defined):
        if self.rng.random() < 0.15:
            self.count("null-value")
            return self.props(Node("N"), defined, 0.1, 0.1)
        return self.node(depth, flow, defined)

    def single_pair(self, depth, defined):
        """a flow mapping with one pair and no properties: as a flow sequence entry it may be written without braces"""
        self.count("single-pair")
        k = self.key(depth + 1, True, defined)
        return Node("M", flow=True, items=[(k, self.value(depth + 1, True, defined))])

    def node(self, depth, inflow, defined):
        """a node; defined: anchor names defined so far in this document (in order of appearance)"""
        rng = self.rng
        r = rng.random()
        leaf = depth >= self.max_depth or r < 0.45
        if leaf:
            r2 = rng.random()
            if r2 < 0.12 and defined:
                self.count("alias")
                return Node("A", text=rng.choice(defined))
            if r2 < 0.24:
                self.count("null")
                return self.props(Node("N"), defined, 0.12, 0.12)
            return self.scalar(inflow, defined)
        flow = inflow or rng.random() < 0.35
        if rng.random() < 0.5:
            n = self.props(Node("Q", flow=flow, items=[]), defined, 0.12, 0.1)
            k = rng.choice([0, 1, 1, 2, 2, 3, 4]) if flow else rng.choice([1, 1, 2, 2, 3, 4])
            for _ in range(k):
                if flow and rng.random() < 0.28:
                    x = self.single_pair(depth + 1, defined)
                else:
                    x = self.node(depth + 1, flow, defined)
                if flow and x.empty():          # [150] a flow sequence entry cannot be left out altogether
                    x = self.scalar(True, defined)
                n.items.append(x)
            self.count("flow-seq" if flow else "block-seq")
        else:
            n = self.props(Node("M", flow=flow, items=[]), defined, 0.12, 0.1)
            k = rng.choice([0, 1, 1, 2, 2, 3]) if flow else rng.choice([1, 1, 2, 2, 3])
            for _ in range(k):
                key = self.key(depth + 1, flow, defined)
                n.items.append((key, self.value(depth + 1, flow, defined)))
            self.count("flow-map" if flow else "block-map")
        return n

    def stream(self):
        rng = self.rng
        ndocs = rng.choice([1, 1, 1, 1, 2, 2, 3])
        docs = []
        for _ in range(ndocs):
            docs.append(self.node(0 if rng.random() < 0.85 else self.max_depth, False, []))
        return docs


# ------------------------------------------------------------------------------------------------
# the renderer (YAML 1.2.2 productions)
# ------------------------------------------------------------------------------------------------
class Renderer:
    """Writes a list of root nodes as a YAML stream.  All layout choices come from self.rng.  Text is produced strictly
    left to right.
    opts (used by the dedicated regression stream to force a layout the main stream only chooses at random):
          emptykey='force': a single pair with a left-out key in a flow sequence is always written `: v`;
          qmark_empty=True: ... always `? ` / `? : v`;  explicit_pairs=True: single pairs always as `? k : v`;
          force_zero_root=True: a root block scalar gets content indentation 0 and the next document follows with '---';
          calm=True: fewer comments / blank lines (also used when shrinking)."""

    def __init__(self, rng, emptykey="random", qmark_empty=False, explicit_pairs=False, force_zero_root=False, calm=False):
        self.rng = rng
        self.emptykey = emptykey
        self.qmark_empty = qmark_empty
        self.explicit_pairs = explicit_pairs      # single pairs in flow sequences always as '? k : v'
        self.calm = calm          # fewer comments / blank lines (used when shrinking)
        self.zero_root = False    # the current document's root is a block scalar with content at indentation 0
        self.force_zero_root = force_zero_root
        self.cov = {}

    def count(self, k):
        self.cov[k] = self.cov.get(k, 0) + 1

    # ---- separation ----
    def sp(self):
        """[66] s-separate-in-line (inside a line)"""
        return " " * self.rng.choice([1, 1, 1, 1, 2, 3])

    def comment(self):
        """[75] c-nb-comment-text"""
        return "#" + self.rng.choice(["", " c", " : - [ {", "x ] } ,", " 'q", " \"d", " \u00e9", " ? k", "# &a *a !t |"])

    def eol(self, cmax=None, blanks=True):
        """[79] s-l-comments: optional comment, the line break, then l-comment lines (blank lines / comment lines).
        cmax: comment lines must be indented less than cmax (after block scalars: [170] l-trail-comments)"""
        rng = self.rng
        p = 0.04 if self.calm else 0.13
        out = ""
        if rng.random() < p and cmax is None:
            out += self.sp() + self.comment()
            self.count("comment-after-token")
        out += "\n"
        while rng.random() < p:
            if rng.random() < 0.5:
                if not blanks:
                    break
                out += (rng.choice(["", "", " ", "   "]) if cmax is None else " " * rng.randrange(0, max(cmax, 0) + 1)) + "\n"
                self.count("blank-line")
            else:
                ind = rng.randrange(0, 7)
                if cmax is not None:
                    if cmax <= 0:
                        break
                    ind = rng.randrange(0, cmax)
                out += " " * ind + self.comment() + "\n"
                self.count("comment-line")
        return out

    def props(self, n):
        """[96] c-ns-properties(n,c): tag and anchor in either order"""
        a = "&" + n.anchor if n.anchor is not None else ""
        t = n.tag if n.tag is not None else ""
        if a and t:
            self.count("props-tag-first" if n.tag_first else "props-anchor-first")
            return (t + self.sp() + a) if n.tag_first else (a + self.sp() + t)
        return a or t

    # ---- flow scalars ----
    def double_quoted(self, text):
        """[107]-[116] double-quoted, single line: every character either literally (if nb-json and not '"' / '\\') or by
        one of its escapes ([42]-[62])"""
        rng = self.rng
        named = {"\0": "0", "\x07": "a", "\b": "b", "\t": "t", "\n": "n", "\x0b": "v", "\x0c": "f", "\r": "r", "\x1b": "e", " ": " ",
                 "\"": "\"", "/": "/", "\\": "\\", "\x85": "N", "\xa0": "_", "\u2028": "L", "\u2029": "P"}
        out = "\""
        for c in text:
            o = ord(c)
            literal_ok = (o >= 0x20 or c == "\t") and c not in "\"\\" and o != 0x7f and not (0x80 <= o <= 0x9f) and c not in "\u2028\u2029\ufeff"
            r = rng.random()
            if literal_ok and (r < 0.8 or c == " "):
                out += c
            elif c in named and (r < 0.95 or not literal_ok) and (c != " "):
                out += "\\" + named[c]
            elif o <= 0xff and r < 0.5:
                out += "\\x%02x" % o
            elif o <= 0xffff and r < 0.9:
                out += "\\u%04X" % o
            else:
                out += "\\U%08x" % o
            if out[-1] != c:
                self.count("dq-escape")
        return out + "\""

    def flow_scalar(self, n):
        if n.style == "P":
            return n.text
        if n.style == "S":
            return "'" + n.text.replace("'", "''") + "'"          # [117]-[120]
        return self.double_quoted(n.text)

    # ---- flow nodes ----
    def fsep(self, n, ml, required):
        """[80] s-separate(n,c): in flow-in/out context [81] s-separate-lines(n) = s-l-comments s-flow-line-prefix(n) |
        s-separate-in-line; in key contexts only s-separate-in-line.  required=False: the optional 's-separate?'."""
        rng = self.rng
        if ml and rng.random() < (0.1 if self.calm else 0.22):
            self.count("flow-line-break")
            return self.eol() + " " * (n + rng.choice([0, 0, 1, 2, 5]))
        if required or rng.random() < 0.6:
            return self.sp()
        return ""

    def flow_node(self, n, ind, c):
        """[161] ns-flow-node(n,c): alias | content | properties ((separate content) | e-scalar).
        c in 'flow-out' 'flow-in' 'block-key' 'flow-key'.  Never ends with a separator."""
        ml = c in ("flow-out", "flow-in")
        if n.kind == "A":
            return "*" + n.text
        p = self.props(n)
        if n.kind == "N":
            return p
        if p:
            if ml and self.rng.random() < 0.07:
                self.count("props-on-own-line")
                p += self.eol() + " " * (ind + self.rng.choice([0, 1, 3]))
            else:
                p += self.sp()
        if n.kind == "S":
            return p + self.flow_scalar(n)
        inner = "flow-in" if ml else "flow-key"                   # [136] in-flow(c)
        if n.kind == "Q":
            return p + self.flow_seq(n, ind, inner)
        return p + self.flow_map(n, ind, inner)

    def json_like(self, n):
        return n.kind in "QM" or (n.kind == "S" and n.style in "SD")

    def flow_value(self, key, v, ind, c, key_written):
        """after a key inside a flow collection: ':' and the value.
        [147] c-ns-flow-map-separate-value = ':' (not followed by a ns-plain-safe char) ((separate node) | e-node)
        [148] c-ns-flow-map-adjacent-value (after a JSON-like key) = ':' ((separate? node) | e-node)"""
        rng = self.rng
        ml = c == "flow-in"
        out = ""
        if key_written:
            # a separation before ':' is optional ([143] / [153]); required after an alias or properties without content
            need = key.kind in "AN"
            if need or rng.random() < 0.25:
                out += self.sp()
        out += ":"
        if v.empty():
            self.count("flow-empty-value")
            return out
        adjacent = key_written and self.json_like(key) and key.kind != "N" and rng.random() < 0.3
        if adjacent:
            self.count("flow-adjacent-value")
            return out + self.flow_node(v, ind, c)
        return out + self.fsep(ind, ml, True) + self.flow_node(v, ind, c)

    def flow_pair_explicit(self, k, v, ind, c):
        """'?' separate [141] ns-flow-map-explicit-entry = implicit entry | (e-node e-node)"""
        rng = self.rng
        ml = c == "flow-in"
        out = "?"
        if k.empty():
            self.count("flow-explicit-empty-key")
            if v.empty() and rng.random() < 0.6:
                return out + self.fsep(ind, ml, True)      # e-node e-node; the separation belongs to '?'
            return out + self.fsep(ind, ml, True) + self.flow_value(k, v, ind, c, False)
        out += self.fsep(ind, ml, True) + self.flow_node(k, ind, c)
        if v.empty() and rng.random() < 0.5:
            self.count("flow-explicit-no-value")
            return out
        if ml and rng.random() < 0.15:
            out += self.eol() + " " * (ind + rng.choice([0, 1, 2]))
            return out + self.flow_value(k, v, ind, c, False)
        return out + self.flow_value(k, v, ind, c, True)

    def flow_entries(self, parts_fn, count, ind, c, open_ch, close_ch):
        """[137]/[140]: open separate? (entry separate? (',' separate? ...)?)? close — a trailing ',' is allowed"""
        rng = self.rng
        ml = c == "flow-in"
        out = open_ch + self.fsep(ind, ml, False)
        for i in range(count):
            out += parts_fn(i)
            last = i == count - 1
            out += self.fsep(ind, ml, False)
            if not last or rng.random() < 0.15:
                if last:
                    self.count("flow-trailing-comma")
                out += "," + self.fsep(ind, ml, False)
        if ml and "\n" in out:
            self.count("flow-multi-line")
        return out + close_ch

    def flow_seq(self, n, ind, c):
        """[137] c-flow-sequence(n,c), [150] ns-flow-seq-entry = ns-flow-pair | ns-flow-node"""
        rng = self.rng

        def entry(i):
            x = n.items[i]
            if x.kind == "M" and x.flow and not x.props() and len(x.items) == 1:
                k, v = x.items[0]
                r = rng.random()
                # [151] ns-flow-pair = '?' separate explicit-entry | [152] ns-flow-pair-entry (implicit key: one line)
                if k.empty():
                    if self.qmark_empty or (self.emptykey != "force" and r < 0.25):
                        self.count("flow-seq-pair-qmark-empty")
                        return self.flow_pair_explicit(k, v, ind, c)                 # [141] e-node e-node | empty-key entry
                    if self.emptykey == "force" or r < 0.7:
                        self.count("flow-seq-pair-empty-key")
                        return self.flow_value(k, v, ind, c, False)              # [144] c-ns-flow-map-empty-key-entry
                elif self.explicit_pairs:
                    return self.flow_pair_explicit(k, v, ind, c)
                elif r < 0.45:
                    self.count("flow-seq-pair-implicit")
                    if v.kind == "M" and v.flow and v.items:
                        self.count("flow-seq-pair-implicit-with-flow-mapping-value")
                    ks = self.flow_node(k, 0, "flow-key")                         # [154] ns-s-implicit-yaml-key(flow-key)
                    return ks + self.flow_value(k, v, ind, c, True)
                elif r < 0.7:
                    self.count("flow-seq-pair-explicit")
                    return self.flow_pair_explicit(k, v, ind, c)
            return self.flow_node(x, ind, c)

        return self.flow_entries(entry, len(n.items), ind, c, "[", "]")

    def flow_map(self, n, ind, c):
        """[140] c-flow-mapping(n,c), [142] ns-flow-map-entry = '?' separate explicit-entry | implicit-entry"""
        rng = self.rng

        def entry(i):
            k, v = n.items[i]
            r = rng.random()
            if r < 0.2:
                self.count("flow-map-explicit")
                return self.flow_pair_explicit(k, v, ind, c)
            if k.empty():
                self.count("flow-map-empty-key")
                return self.flow_value(k, v, ind, c, False)                       # [144]
            ks = self.flow_node(k, 0, "flow-key")   # kept on one line (the spec would allow more in a flow mapping)
            if v.empty() and r < 0.6:
                self.count("flow-map-key-only")
                return ks                                                         # [143]/[145] ... | e-node
            return ks + self.flow_value(k, v, ind, c, True)

        return self.flow_entries(entry, len(n.items), ind, c, "{", "}")

    # ---- block nodes ----
    def block_node(self, n, ind, ctx, sol=False):
        """[196] s-l+block-node(n,c) (or 'e-node s-l-comments' where the caller's production allows it), written right
        after an introducer ('-', '?', ':', 'key:', '---'); sol: nothing has been written on the current line."""
        if n.empty():
            return self.eol()
        if n.kind in "NA" or (n.kind == "S" and n.style in "PSD") or (n.kind in "QM" and n.flow):
            return self.flow_in_block(n, ind, sol)
        if n.kind == "S":
            return self.block_scalar(n, ind, sol)
        return self.block_collection(n, ind, ctx, sol)

    def flow_in_block(self, n, ind, sol):
        """[197] s-l+flow-in-block(n) = s-separate(n+1,flow-out) ns-flow-node(n+1,flow-out) s-l-comments"""
        rng = self.rng
        if sol:
            out = " " * rng.choice([0, 0, 0, 0, 1, 3])
        elif rng.random() < 0.12:
            self.count("flow-node-on-next-line")
            out = self.eol() + " " * (ind + 1 + rng.choice([0, 0, 1, 2]))
        else:
            out = self.sp()
        return out + self.flow_node(n, ind + 1, "flow-out") + self.eol()

    def block_scalar(self, n, ind, sol):
        """[199] s-l+block-scalar(n,c) = s-separate(n+1,c) (properties s-separate(n+1,c))? (c-l+literal(n) | c-l+folded(n))
        [162] c-b-block-header, [170]/[174] content at indentation n+m (m auto-detected or given)"""
        rng = self.rng
        if sol:
            out = ""
        elif rng.random() < 0.06:
            self.count("block-scalar-header-on-next-line")
            out = self.eol() + " " * (ind + 1 + rng.choice([0, 1, 3]))
        else:
            out = self.sp()
        p = self.props(n)
        if p:
            out += p + self.sp()
        m = rng.choice([1, 1, 2, 2, 3, 4])
        lines = list(n.lines)
        explicit = ind >= 0 and rng.random() < 0.2
        cind = ind + m
        if ind < 0 and rng.random() < 0.3:
            cind = ind + m + 1      # top level: n = -1, indentation 0 is allowed
        if ind < 0 and self.force_zero_root:
            cind, explicit = 0, False
        if cind == 0:
            self.zero_root = True
            self.count("block-scalar-root-indent-0")
        out += "|" if n.style == "L" else ">"
        ch = n.chomp
        ind_s = str(cind - ind) if explicit else ""
        out += (ind_s + ch) if rng.random() < 0.5 else (ch + ind_s)      # [162]: indicators in either order
        if explicit:
            self.count("block-scalar-indent-indicator")
        self.count("block-scalar-chomp" + (ch or "clip"))
        if rng.random() < 0.1:
            out += self.sp() + self.comment()
        out += "\n"
        for l in lines:
            if l == "":
                out += " " * rng.choice([0, 0, cind]) + "\n" if cind > 0 else "\n"
            else:
                out += " " * cind + l + "\n"
        # [169] l-keep-empty / [168] l-strip-empty: blank lines after the content are content only under keep chomping
        return out + self.eol(cmax=cind, blanks=(ch != "+"))[1:]

    def block_collection(self, n, ind, ctx, sol):
        """[200] s-l+block-collection(n,c) = (s-separate(n+1,c) properties)? s-l-comments
              (seq-space(n,c) l+block-sequence | l+block-mapping(n));  [201] seq-space(n,block-out) = n-1, (n,block-in) = n"""
        rng = self.rng
        p = self.props(n)
        out = ""
        if p:
            out = ("" if sol else self.sp()) + p + self.eol()
        elif not sol:
            out = self.eol()
        if n.kind == "Q":
            base = ind - 1 if ctx == "block-out" else ind
            lo = max(base + 1, 0)
            cind = lo + rng.choice([0, 0, 0, 1, 2, 3] if ctx == "block-out" else [0, 0, 1, 1, 2, 3]) if ind >= 0 else rng.choice([0, 0, 0, 0, 1, 2])
            if ctx == "block-out" and cind == ind:
                self.count("block-seq-at-parent-indent")
            return out + self.block_seq(n, cind, False)
        cind = ind + rng.choice([1, 1, 2, 2, 3, 4]) if ind >= 0 else rng.choice([0, 0, 0, 0, 1, 2])
        self.count("indent-width-%d" % (cind - ind))
        return out + self.block_map(n, cind, False)

    def block_indented(self, n, ind, ctx):
        """[185] s-l+block-indented(n,c) = s-indent(m) (compact sequence(n+1+m) | compact mapping(n+1+m)) | block-node | e-node"""
        rng = self.rng
        if n.kind in "QM" and not n.flow and not n.props() and rng.random() < 0.55:
            m = rng.choice([1, 1, 1, 2, 3])
            self.count("compact-seq" if n.kind == "Q" else "compact-map")
            body = self.block_seq(n, ind + 1 + m, True) if n.kind == "Q" else self.block_map(n, ind + 1 + m, True)
            return " " * m + body
        return self.block_node(n, ind, ctx)

    def block_seq(self, n, ind, inline_first):
        """[183] l+block-sequence / [186] ns-l-compact-sequence: entries '-' s-l+block-indented(n,block-in) at indentation ind"""
        out = ""
        for i, x in enumerate(n.items):
            if i or not inline_first:
                out += " " * ind
            out += "-" + self.block_indented(x, ind, "block-in")
        return out

    def implicit_key_ok(self, k):
        return k.kind in "NA" or (k.kind == "S" and k.style in "PSD") or (k.kind in "QM" and k.flow)

    def block_map(self, n, ind, inline_first):
        """[187] l+block-mapping / [195] ns-l-compact-mapping: entries at indentation ind;
        [189] explicit entry = '?' block-indented(n,block-out) (indent ':' block-indented(n,block-out) | e-node)
        [192] implicit entry = (implicit key | e-node) ':' (block-node(n,block-out) | e-node s-l-comments)"""
        rng = self.rng
        out = ""
        no_value = False      # the previous entry was '? key' without a ':' line: a ': v' line would be read as its value
        for i, (k, v) in enumerate(n.items):
            if i or not inline_first:
                out += " " * ind
            if self.implicit_key_ok(k) and rng.random() < 0.8 and not (no_value and k.empty()):
                no_value = False
                ks = self.flow_node(k, 0, "block-key")              # [154]/[155] single line
                if ks and (k.kind in "AN" or rng.random() < 0.12):
                    ks += self.sp()
                if k.empty():
                    self.count("block-empty-key")
                self.count("block-implicit-entry")
                out += ks + ":" + self.block_node(v, ind, "block-out")
            else:
                self.count("block-explicit-entry")
                out += "?" + self.block_indented(k, ind, "block-out")
                no_value = v.empty() and rng.random() < 0.5
                if no_value:
                    self.count("block-explicit-no-value")
                    continue
                out += " " * ind + ":" + self.block_indented(v, ind, "block-out")
        return out

    # ---- documents ----
    def stream(self, docs):
        """[211] l-yaml-stream: documents with optional '---' / '...' markers and %YAML directives.
        Returns (text, explicit flags)."""
        rng = self.rng
        out = ""
        if rng.random() < 0.1:
            out += self.comment() + "\n"
        explicit = []
        closed = True          # the previous document ended with '...' (or there is none)
        for i, root in enumerate(docs):
            directive = closed and rng.random() < 0.12
            start = directive or not closed or root.empty() or rng.random() < 0.3
            if directive:
                self.count("yaml-directive")
                out += "%YAML 1.2" + self.eol()
            if start:
                self.count("doc-start-marker")
                out += "---" + self.block_node(root, -1, "block-in")
            else:
                out += self.block_node(root, -1, "block-in", sol=True)
            explicit.append(start)
            closed = rng.random() < 0.3
            if self.zero_root and i + 1 < len(docs):
                self.count("doc-after-zero-indented-root-block-scalar-" + ("end-marker" if closed and not self.force_zero_root else "start-marker"))
                if self.force_zero_root:
                    closed = False      # the next document follows with '---' ([206] c-forbidden ends the scalar)
            self.zero_root = False
            if closed:
                self.count("doc-end-marker")
                out += "..." + self.eol()
        return out, explicit


def render(docs, seed, **opts):
    import random
    r = Renderer(random.Random(seed), **opts)
    text, explicit = r.stream(docs)
    return text, explicit, r.cov


# ------------------------------------------------------------------------------------------------
# the classes of the REPAIRED findings (known_findings_c03.jsonl, status "fixed"): predicates on the text.
# They suppress nothing; they are used to count how many inputs of each formerly failing class every run exercises
# (coverage.generated.repaired_class_inputs), so that a regression of one of the repairs is a VIOLATION with its input.
# ------------------------------------------------------------------------------------------------
def flow_marks(text):
    """Walks over the text keeping the stack of open flow collections (quoted scalars and comments skipped) and the two
    flags of the scanner BEFORE /repo ad74b3e that the repaired findings hinged on (a sticky flow_mapping_started; per open
    flow sequence: inside an implicit single pair).  Returns the marks, in text order:
      'emptykey{' / 'emptykey?'  an entry of a flow SEQUENCE starts with ':' while flow_mapping_started is set (last set
                                 by a '{' / by a '?' in flow context)
      'qempty'                   an entry of a flow SEQUENCE is '?' followed by ':' ',' or ']'
      'dash'                     inside a flow collection, a '-' after a blank (not at the start of an entry) directly followed
                                 by ',' ']' or '}'
      'bracecomma'               a ',' inside '{...}' while the innermost enclosing flow sequence is inside an implicit
                                 single pair (the value of `[ k: {a: b, c: d} ]`)"""
    marks = []
    stack = []                 # '[' frames: ['[', inside]; '{' frames: ['{']
    i, n = 0, len(text)
    entry_start = False        # in a flow collection, right after '[' '{' or ','
    fms = ""                   # '' (clear) or the indicator that set flow_mapping_started last

    def skip_ws(j):
        while j < n:
            if text[j] in " \t\r\n":
                j += 1
            elif text[j] == "#" and (j == 0 or text[j - 1] in " \t\r\n"):
                while j < n and text[j] != "\n":
                    j += 1
            else:
                break
        return j

    def seq_frame():
        for f in reversed(stack):
            if f[0] == "[":
                return f
        return None

    while i < n:
        c = text[i]
        prev = text[i - 1] if i else "\n"
        if c == "#" and prev in " \t\r\n":
            while i < n and text[i] != "\n":
                i += 1
            continue
        if c in "'\"" and (prev in " \t\r\n[{," or (prev == ":" and i >= 2 and text[i - 2] in "'\"]}")):
            j = i + 1
            while j < n:
                if c == "\"" and text[j] == "\\":
                    j += 2
                    continue
                if text[j] == c:
                    if c == "'" and j + 1 < n and text[j + 1] == "'":
                        j += 2
                        continue
                    break
                j += 1
            i = j + 1
            entry_start = False
            continue
        if not stack and c not in "[{":
            # block context: skip indicators, properties and whole plain scalars (a '[' inside one is text)
            if c in " \t\r\n":
                i += 1
            elif prev == "\n" and text.startswith(("---", "..."), i) and (i + 3 >= n or text[i + 3] in " \t\r\n"):
                i += 3
            elif c in "-?:" and (i + 1 >= n or text[i + 1] in " \t\r\n"):
                i += 1
            elif c in "&*!":
                while i < n and text[i] not in " \t\r\n":
                    i += 1
            else:
                while i < n and text[i] != "\n":
                    if text[i] == ":" and (i + 1 >= n or text[i + 1] in " \t\r\n"):
                        break
                    if text[i] == "#" and text[i - 1] in " \t":
                        break
                    i += 1
            continue
        if c in "[{":
            stack.append([c, False])
            if c == "{":
                fms = "{"
            entry_start = True
            i += 1
            continue
        if c in "]}" and stack:
            f = stack.pop()
            if f[0] == "[" and f[1]:
                fms = ""
            entry_start = False
            i += 1
            continue
        if stack:
            if c == ",":
                f = seq_frame()
                if f is not None and f[1]:
                    if stack[-1][0] == "{":
                        marks.append("bracecomma")
                    f[1] = False
                    fms = ""
                entry_start = True
                i += 1
                continue
            if c in " \t\r\n":
                i += 1
                continue
            if c == "-" and prev in " \t" and not entry_start and i + 1 < n and text[i + 1] in ",]}":
                marks.append("dash")
            is_value = c == ":" and (i + 1 >= n or text[i + 1] in " \t\r\n,]}" or prev in "'\"]}")
            if is_value and stack[-1][0] == "[":
                if entry_start and fms:
                    marks.append("emptykey" + fms)
                if not fms:
                    stack[-1][1] = True
                entry_start = False
                i += 1
                continue
            if entry_start and c == "?" and (i + 1 >= n or text[i + 1] in " \t\r\n"):
                fms = "?"
                j = skip_ws(i + 1)
                if stack[-1][0] == "[" and j < n and (text[j] in ",]" or (text[j] == ":" and (j + 1 >= n or text[j + 1] in " \t\r\n,]}"))):
                    marks.append("qempty")
                i += 1
                continue      # the key follows
            entry_start = False
        i += 1
    return marks


def repaired_classes(text):
    """the classes of repaired findings the text belongs to (decidable predicates on the input text)"""
    m = flow_marks(text)
    out = []
    if "qempty" in m:
        out.append("explicit-key-indicator-without-key-in-flow-sequence")
    if "emptykey{" in m:
        out.append("empty-key-flow-pair-after-flow-mapping")
    if "emptykey?" in m:
        out.append("empty-key-flow-pair-after-flow-explicit-key")
    if "bracecomma" in m:
        out.append("comma-of-nested-flow-mapping-ends-implicit-pair")
    if zero_indent_root_scalar_before_doc_start(text):
        out.append("document-start-marker-in-zero-indented-root-block-scalar")
    if "dash" in m:
        out.append("dash-before-flow-indicator-in-plain-scalar")
    return out


# class -> predicate on the input text, for classes recorded with status "known" (none at present: every class
# recorded for C03 has been repaired in /repo).  Only a class listed here AND recorded as known can excuse a failure.
KNOWN_PREDICATES = {}


def known_classes(text):
    return [c for c, pred in KNOWN_PREDICATES.items() if pred(text)]


def zero_indent_root_scalar_before_doc_start(text):
    """a block scalar that is the root node of a document, with content at indentation 0, followed by a '---' line
    (before any '...' line)"""
    lines = text.split("\n")
    hdr = re.compile(r"^ *(--- +)?([!&][^ ]* +)*[|>][-+1-9]*[ ]*(#.*)?$")
    i = 0
    while i < len(lines):
        if hdr.match(lines[i]):
            j = i + 1
            while j < len(lines) and lines[j].strip() == "":
                j += 1
            if j < len(lines) and not lines[j].startswith((" ", "---", "...")):
                k = j
                while k < len(lines):
                    if re.match(r"^\.\.\.( |$)", lines[k]):
                        break
                    if re.match(r"^---( |$)", lines[k]):
                        return True
                    k += 1
                i = k
                continue
        i += 1
    return False


def load_known():
    """class -> description of the entries with status "known" (the shared file plus known_findings_c03.jsonl);
    entries with status "fixed" suppress nothing"""
    out = {}
    for d in core.known_findings(PID):
        out[d["class"]] = d["what"]
    p = os.path.join(core.VERIF, "known_findings_c03.jsonl")
    if os.path.exists(p):
        for l in open(p):
            l = l.strip()
            if l:
                d = json.loads(l)
                if d.get("status") == "known" and d.get("property") == PID:
                    out[d["class"]] = d["what"]
    return out


# ------------------------------------------------------------------------------------------------
# the dedicated stream of regression inputs: small streams built around the repaired classes (they must all pass)
# ------------------------------------------------------------------------------------------------
def sc(text, style="P"):
    return Node("S", style=style, text=text)


def regression_stream(rng, count):
    """small streams built around the repaired classes: (docs, render options)"""
    out = []
    null = lambda: Node("N")
    fmap = lambda items: Node("M", flow=True, items=items)
    fseq = lambda items: Node("Q", flow=True, items=items)
    for _ in range(count):
        kind = rng.choice(["brace", "brace", "qmark", "qempty", "qempty", "bracecomma", "bracecomma", "zeroroot", "dash"])
        v = rng.choice([sc("v"), sc("x y"), sc("q", "S"), null(), fseq([sc("z")])])
        others = [sc(rng.choice("abc")) for _ in range(rng.randrange(0, 3))]
        pos = rng.randrange(0, len(others) + 1)

        def embed(x):
            w = rng.random()
            if w < 0.3:
                return Node("M", flow=False, items=[(sc("k"), x)])
            if w < 0.6:
                return Node("Q", flow=False, items=[x, sc("w")])
            return x
        if kind == "zeroroot":
            lines = [rng.choice(["ab", "k: v", "- x"]) for _ in range(rng.randrange(1, 3))]
            st = rng.choice("LF")
            first = Node("S", style=st, lines=lines, chomp=rng.choice(["", "-"]))
            first.text = ("\n".join(lines) if st == "L" else fold_text(lines)) + ("" if first.chomp == "-" else "\n")
            out.append(([first, embed(sc("c"))], dict(force_zero_root=True)))
            continue
        if kind == "dash":
            seq = fseq(others[:pos] + [sc(rng.choice(["a -", "x y -", "-a -"]))] + others[pos:])
            out.append(([embed(seq)], dict()))
            continue
        if kind == "bracecomma":
            inner = fmap([(sc("a"), sc("b")), (sc("c"), rng.choice([sc("d"), null()]))][:rng.choice([1, 2, 2])])
            pair = fmap([(rng.choice([sc("k"), sc("k", "D"), null()]), inner)])
            out.append(([embed(fseq(others[:pos] + [pair] + others[pos:]))], dict(emptykey="force")))
            continue
        pair = fmap([(null(), v)])
        seq = fseq(others[:pos] + [pair] + others[pos:])
        if kind == "qempty":
            out.append(([embed(seq)], dict(qmark_empty=True)))
            continue
        if kind == "brace":
            first = rng.choice([fmap([(sc("x"), null())]), fmap([]), Node("M", flow=False, items=[(sc("k"), fmap([(sc("a"), sc("b"))]))])])
        else:
            first = fseq([fmap([(sc("a"), sc("b"))])])
        r = rng.random()
        if r < 0.4:
            docs = [first, seq]
        elif r < 0.7 and first.flow:
            docs = [fseq([first, pair] + others)]
        else:
            docs = [Node("Q", flow=False, items=[first, seq])]
        out.append((docs, dict(emptykey="force", explicit_pairs=(kind == "qmark"))))
    return out


def regression_witnesses():
    """the witness inputs recorded with the repaired findings, with the trees they denote: (text, docs, explicit flags)"""
    null = lambda: Node("N")
    fmap = lambda items: Node("M", flow=True, items=items)
    fseq = lambda items: Node("Q", flow=True, items=items)
    return [
        ("[ ? ]\n", [fseq([fmap([(null(), null())])])], [False]),
        ("[ ? : x ]\n", [fseq([fmap([(null(), sc("x"))])])], [False]),
        ("[ ? , ? : x , ]\n", [fseq([fmap([(null(), null())]), fmap([(null(), sc("x"))])])], [False]),
        ("[ ? a : b, : c ]\n", [fseq([fmap([(sc("a"), sc("b"))]), fmap([(null(), sc("c"))])])], [False]),
        ("[ ? a ]\n---\n[ : c ]\n", [fseq([fmap([(sc("a"), null())])]), fseq([fmap([(null(), sc("c"))])])], [False, True]),
        ("[ {x}, : y ]\n", [fseq([fmap([(sc("x"), null())]), fmap([(null(), sc("y"))])])], [False]),
        ("{x}\n---\n[ : y ]\n", [fmap([(sc("x"), null())]), fseq([fmap([(null(), sc("y"))])])], [False, True]),
        ("[ k: {a: b, c: d} ]\n", [fseq([fmap([(sc("k"), fmap([(sc("a"), sc("b")), (sc("c"), sc("d"))]))])])], [False]),
        ("[ k: {a: b,} ]\n", [fseq([fmap([(sc("k"), fmap([(sc("a"), sc("b"))]))])])], [False]),
        ("[ k: [ {a: b, c: d}, e ], f ]\n",
         [fseq([fmap([(sc("k"), fseq([fmap([(sc("a"), sc("b")), (sc("c"), sc("d"))]), sc("e")]))]), sc("f")])], [False]),
        ("--- |\nab\n---\nc\n", [Node("S", style="L", text="ab\n"), sc("c")], [True, True]),
        ("--- >-\nab\n--- c\n", [Node("S", style="F", text="ab"), sc("c")], [True, True]),
        ("[a -, b]\n", [fseq([sc("a -"), sc("b")])], [False]),
        ("{a -: b -}\n", [fmap([(sc("a -"), sc("b -"))])], [False]),
    ]


# ------------------------------------------------------------------------------------------------
# yaml-test-suite notation
# ------------------------------------------------------------------------------------------------
def suite_escape(text):
    for ch, rep in (("\\", "\\\\"), ("\n", "\\n"), ("\r", "\\r"), ("\b", "\\b"), ("\t", "\\t")):
        text = text.replace(ch, rep)
    return text


def txt_of_cps(s):
    return "".join(chr(int(x)) for x in s.split(".")) if s else ""


def suite_tag(t):
    if t == "-":
        return ""
    h, s = t.split("/")
    return " <%s%s>" % (txt_of_cps(h[2:]), txt_of_cps(s[2:]))


def impl_to_suite(evs):
    """events of the implementation (without spans) in the test suite's tree notation, as far as the parser reports it:
    no flow/block markers, anchor ids instead of names, no '...' flag"""
    out = []
    for e in evs:
        if e == "SS":
            out.append("+STR")
        elif e == "SE":
            out.append("-STR")
        elif e == "DS0":
            out.append("+DOC")
        elif e == "DS1":
            out.append("+DOC ---")
        elif e == "DE":
            out.append("-DOC")
        elif e == "QE":
            out.append("-SEQ")
        elif e == "ME":
            out.append("-MAP")
        elif e.startswith("AL"):
            out.append("=ALI *" + e[2:])
        elif e.startswith(("QS", "MS")):
            a, t = e[2:].split(",", 1)
            out.append(("+SEQ" if e[0] == "Q" else "+MAP") + (" &" + a if a != "0" else "") + suite_tag(t))
        elif e.startswith("SC"):
            st, a, t, v = e[2:].split(",", 3)
            kind = {"P": ":", "S": "'", "D": "\"", "L": "|", "F": ">"}[st[0]]
            out.append("=VAL" + (" &" + a if a != "0" else "") + suite_tag(t) + " " + kind + suite_escape(txt_of_cps(v)))
        else:
            out.append("?" + e)
    return out


def suite_expected(tree):
    """the recorded tree with the same normalisation as /repo/parser/tests/yaml-test-suite.rs: style markers [] {} and
    the '...' flag dropped, anchor names -> numbers in order of appearance (aliases: latest anchor of that name), an
    empty plain scalar without properties is the implicit null '~'"""
    anchors = []
    out = []
    for raw in tree.split("\n"):
        s = raw.lstrip(" ")
        if not s:
            continue
        if s.startswith("=ALI"):
            name = s[s.index("*") + 1:]
            idx = max(i for i, a in enumerate(anchors) if a == name)
            out.append("=ALI *%d" % (idx + 1))
            continue
        head, rest = s[:4], s[4:]
        if head in ("+SEQ", "+MAP", "=VAL"):
            res = head
            if head != "=VAL":
                for mk in (" []", " {}"):
                    if rest.startswith(mk):
                        rest = rest[len(mk):]
            if rest.startswith(" &"):
                j = rest.find(" ", 2)
                j = len(rest) if j < 0 else j
                anchors.append(rest[2:j])
                res += " &%d" % len(anchors)
                rest = rest[j:]
            if rest.startswith(" <"):
                j = rest.index(">")
                res += rest[:j + 1]
                rest = rest[j + 1:]
            res += rest
            if res == "=VAL :":
                res = "=VAL :~"
            out.append(res)
        elif s == "-DOC ...":
            out.append("-DOC")
        else:
            out.append(s)
    return out


def blank_line_variant(t):
    """insert blank lines between the top-level block entries of a case without multi-line scalars and without block
    scalars (where a blank line is never content); None if the case is not of that shape"""
    y = t["yaml"]
    tree = t["tree"] or ""
    if "\r" in y or "\t" in y or not y.endswith("\n"):
        return None
    lines = y.split("\n")[:-1]
    for raw in tree.split("\n"):
        s = raw.lstrip(" ")
        if s.startswith("=VAL"):
            m = re.match(r"=VAL(?: &\S+)?(?: <[^>]*>)? (.)(.*)$", s)
            if not m or m.group(1) in "|>":
                return None
            val = m.group(2)
            if "\\" in val or (val and not any(val in l for l in lines)):
                return None
    depth = 0
    out = []
    changed = False
    for i, l in enumerate(lines):
        if i and depth == 0 and re.match(r"^(- |-$|[A-Za-z0-9_]+ ?:( |$)|\? )", l):
            out.append("")
            changed = True
        out.append(l)
        stripped = re.sub(r"'[^']*'|\"(?:\\.|[^\"\\])*\"", "", l)
        stripped = re.sub(r"(^|\s)#.*$", "", stripped)
        depth += sum(stripped.count(c) for c in "[{") - sum(stripped.count(c) for c in "]}")
        if depth < 0:
            return None
    if not changed or depth != 0:
        return None
    return "\n".join(out) + "\n"


def trailing_comment_variant(t):
    y = t["yaml"]
    if not y.endswith("\n"):
        return None
    last = [s.lstrip(" ") for s in (t["tree"] or "").split("\n") if s.lstrip(" ").startswith("=VAL")]
    if last and re.match(r"=VAL(?: &\S+)?(?: <[^>]*>)? [|>]", last[-1]):
        return None       # after a block scalar a comment line is only a comment when it is less indented
    return y + "# trailing comment\n#\n"


# ------------------------------------------------------------------------------------------------
# layout trees for the Coq token grammar (c)
# ------------------------------------------------------------------------------------------------
def lt_props(n):
    a = cps(n.anchor) if n.anchor is not None else "-"
    if n.tag is None:
        t = "-"
    else:
        t = "%s,%s" % tuple(cps(x) for x in split_tag(n.tag))
    return "%s/%s/%d" % (a, t, 1 if n.tag_first else 0)


def lt_of(n, rng, block):
    """a layout tree (prefix notation of ocaml/driver_c03.ml) of the node under random token-level layout choices
    (which of Key / Value tokens are present, wrapped or unwrapped single pairs, indentless sequences, trailing
    FlowEntry); block: the node stands in block context"""
    if n.kind == "S":
        return "S %s %s %s" % (lt_props(n), n.style, cps(n.text) or "_")
    if n.kind == "A":
        return "A " + cps(n.text)
    if n.kind == "N":
        return "P " + lt_props(n) if n.props() else "N"
    if n.kind == "Q":
        if n.flow or not block:
            ents = []
            for x in n.items:
                if x.kind == "M" and not x.props() and len(x.items) == 1 and rng.random() < 0.5:
                    k, v = x.items[0]       # an unwrapped single pair; the key may be left out (`[ ? ]`, `[ ? : x ]`)
                    vt = 1 if (not v.empty() or rng.random() < 0.5) else 0
                    ents.append("p %s %d %s" % (lt_of(k, rng, False), vt, lt_of(v, rng, False)))
                else:
                    ents.append("n " + lt_of(x, rng, False))
            trail = 1 if (n.items and rng.random() < 0.2) else 0
            return "FS %s %d %d %s" % (lt_props(n), trail, len(ents), " ".join(ents))
        items = " ".join(lt_of(x, rng, True) for x in n.items)
        return "BS %s %d %s" % (lt_props(n), len(n.items), items)
    flow = n.flow or not block
    ents = []
    prev_vt = 1
    for k, v in n.items:
        if flow:
            if k.empty():
                kt = 1 if rng.random() < 0.5 else 0
                vt = 1 if (kt == 0 or not v.empty() or rng.random() < 0.5) else 0
            else:
                vt = 1 if (not v.empty() or rng.random() < 0.5) else 0
                kt = 1 if (vt == 1 or rng.random() < 0.5) else 0
        else:
            vt = 1 if (not v.empty() or rng.random() < 0.5) else 0
            kt = 0 if (k.empty() and vt == 1 and prev_vt == 1 and rng.random() < 0.5) else 1
            prev_vt = vt
        ks = lt_of(k, rng, not flow)
        vs = lt_of(v, rng, not flow)
        if not flow:
            # a block sequence as key or value may be indentless
            if ks.startswith("BS ") and ks.split(" ")[2] != "0" and rng.random() < 0.3:
                ks = "IS" + ks[2:]
            if vs.startswith("BS ") and vs.split(" ")[2] != "0" and rng.random() < 0.5:
                vs = "IS" + vs[2:]
        ents.append("%d %s %d %s" % (kt, ks, vt, vs))
    if flow:
        trail = 1 if (n.items and rng.random() < 0.2) else 0
        return "FM %s %d %d %s" % (lt_props(n), trail, len(ents), " ".join(ents))
    return "BM %s %d %s" % (lt_props(n), len(ents), " ".join(ents))


DECLARABLE = [("!e!", "tag:e.org,2026:"), ("!m-1!", "x"), ("!", "!local-"), ("!!", "tag:other.org/")]


def lt_stream(ltg, lrng):
    """a well-formed stream for the Coq stream grammar (docs_wf): documents with %YAML / %TAG directives, '---' where
    needed or at random, 0-3 '...' tokens, tags with declared named handles.  Returns (case line of the driver's mode
    `stream`, expected events computed here)."""
    keep = lrng.random() < 0.3
    ndocs = lrng.choice([0, 1, 1, 2, 2, 3, 4])
    parts, roots, explicit, tables = [], [], [], []
    closed = True
    prev = {}
    for _ in range(ndocs):
        root = ltg.node(0 if lrng.random() < 0.8 else ltg.max_depth, False, [])
        dirs = []
        if closed and lrng.random() < 0.4:
            if lrng.random() < 0.5:
                dirs.append(("V", 1, lrng.choice([1, 2, 3])))
            for h, pre in lrng.sample(DECLARABLE, lrng.choice([0, 1, 1, 2, 4])):
                dirs.insert(lrng.randrange(0, len(dirs) + 1), ("T", h, pre))
        table = dict(prev) if keep else {}
        table.update({d[1]: d[2] for d in dirs if d[0] == "T"})
        named = [h for h in table if len(h) > 2]

        def retag(n):
            if n.tag is not None and n.kind != "A" and named and lrng.random() < 0.6:
                n.tag = lrng.choice(named) + lrng.choice(["x", "str", "a-b"])
            for c in n.children():
                retag(c)
        retag(root)
        start = bool(dirs) or not closed or root.empty() or lrng.random() < 0.4
        ends = lrng.choice([0, 0, 1, 1, 2, 3])
        ds = " ".join("V %d %d" % (d[1], d[2]) if d[0] == "V" else "T %s %s" % (cps(d[1]), cps(d[2])) for d in dirs)
        parts.append("%d %s %d %d %s" % (len(dirs), ds, 1 if start else 0, ends, lt_of(root, lrng, True)))
        roots.append(root)
        explicit.append(start)
        tables.append(table)
        prev = table
        closed = ends > 0
    return "%d %d %s" % (1 if keep else 0, ndocs, " ".join(parts)), ";".join(events_of(roots, explicit, tables))


# ------------------------------------------------------------------------------------------------
# (d) the text sub-language of coq/Spec/FlowText.v (the class of C03_flow_text_tokens / C03_flow_text_events)
# ------------------------------------------------------------------------------------------------
FW_CHARS = "abcxyzKV0179_~.=/\\$^()+;<\u00e9\u4e2d\U0001f600"
FW_RARE = "\u00a0\u2028\x85\ufeff\x7f\x01"      # no blank, break, NUL, indicator: ordinary word characters for the scanner


class FNode:
    """kind 'W' (text), 'S' (items: (key text | None, FNode)), 'M' (items: (key text, FNode))"""
    __slots__ = ("kind", "text", "items")

    def __init__(self, kind, text=None, items=None):
        self.kind, self.text, self.items = kind, text, items


def fw_word(rng, long_words):
    n = rng.choice([1, 1, 1, 2, 3, 5, 9])
    if long_words and rng.random() < 0.02:
        n = rng.choice([126, 127, 128, 129, 254, 255, 300])      # around the chunk size of the plain-scalar loop
    return "".join(rng.choice(FW_RARE) if rng.random() < 0.03 else rng.choice(FW_CHARS) for _ in range(n))


def fw_node(rng, depth, max_depth, long_words=True):
    if depth >= max_depth or rng.random() < 0.4:
        return FNode("W", text=fw_word(rng, long_words))
    n = rng.choice([0, 1, 1, 2, 2, 3, 5])
    if rng.random() < 0.55:
        items = []
        for _ in range(n):
            k = fw_word(rng, long_words) if rng.random() < 0.35 else None
            items.append((k, fw_node(rng, depth + 1, max_depth, long_words)))
        return FNode("S", items=items)
    return FNode("M", items=[(fw_word(rng, long_words), fw_node(rng, depth + 1, max_depth, long_words)) for _ in range(n)])


def fw_coll(rng, max_depth, long_words=True):
    while True:
        f = fw_node(rng, 0, max_depth, long_words)
        if f.kind != "W":
            return f


def fw_chain(rng, depth):
    """a chain of nested collections of the given depth (the flow-level limit is 255)"""
    f = FNode("W", text="x")
    for _ in range(depth):
        r = rng.random()
        if r < 0.4:
            f = FNode("S", items=[(None, f)])
        elif r < 0.7:
            f = FNode("S", items=[("k", f)])
        else:
            f = FNode("M", items=[("k", f)])
    return f


def fw_render(f):
    """the text, written independently of coq/Spec/FlowText.v: [137]/[140] with ns-flow-pair entries, one layout"""
    if f.kind == "W":
        return f.text
    if f.kind == "S":
        return "[" + ", ".join((k + ": " if k is not None else "") + fw_render(v) for k, v in f.items) + "]"
    return "{" + ", ".join(k + ": " + fw_render(v) for k, v in f.items) + "}"


def fw_case(f):
    if f.kind == "W":
        return "W " + cps(f.text)
    if f.kind == "S":
        return "S %d %s" % (len(f.items), " ".join(("p %s %s" % (cps(k), fw_case(v))) if k is not None else "n " + fw_case(v)
                                                       for k, v in f.items))
    return "M %d %s" % (len(f.items), " ".join("%s %s" % (cps(k), fw_case(v)) for k, v in f.items))


def fw_tree(f):
    """the abstract node the text denotes (for events_of)"""
    if f.kind == "W":
        return sc(f.text)
    if f.kind == "S":
        return Node("Q", flow=True, items=[Node("M", flow=True, items=[(sc(k), fw_tree(v))]) if k is not None else fw_tree(v)
                                              for k, v in f.items])
    return Node("M", flow=True, items=[(sc(k), fw_tree(v)) for k, v in f.items])


def fw_depth(f):
    return 0 if f.kind == "W" else 1 + max([fw_depth(v) for _, v in f.items] + [0])


FW_KEY_MAX = 1024      # YAML 1.2.2 7.4.2: the implicit key of a single pair inside a flow SEQUENCE (key_max of Spec/FlowText.v)


def fw_first_long_key(f, off=0):
    """offset (in characters) of the ':' behind the first single-pair key of a flow SEQUENCE that is longer than 1024
    characters, in text order; None if there is none (then the node is in the class of the theorems).  Keys of '{ }' pairs
    are not limited."""
    if f.kind == "W":
        return None
    off += 1
    for i, (k, v) in enumerate(f.items):
        if i:
            off += 2
        if k is not None:
            if f.kind == "S" and len(k) > FW_KEY_MAX:
                return off + len(k)
            off += len(k) + 2
        r = fw_first_long_key(v, off)
        if r is not None:
            return r
        off += len(fw_render(v))
    return None


def fw_keylimit(rng):
    """a collection with one key of about 1024 characters, as a single pair of a flow sequence or as a key of a flow mapping,
    at a random place and depth"""
    n = rng.choice([1000, 1023, 1024, 1024, 1025, 1025, 1026, 1100, 2100])
    key = "".join(rng.choice(FW_CHARS) for _ in range(n))
    kind = rng.choice(["S", "S", "M"])
    items = []
    for _ in range(rng.choice([0, 0, 1, 2])):
        items.append(((fw_word(rng, False) if kind == "M" or rng.random() < 0.4 else None), fw_node(rng, 1, 2, False)))
    items.insert(rng.randrange(len(items) + 1), (key, fw_node(rng, 1, rng.choice([1, 2, 3]), False)))
    f = FNode(kind, items=items)
    for _ in range(rng.choice([0, 0, 1, 2, 3])):
        r = rng.random()
        sib = [(None, fw_node(rng, 1, 2, False)) for _ in range(rng.choice([0, 1, 2]))]
        if r < 0.45:
            sib.insert(rng.randrange(len(sib) + 1), (None, f))
            f = FNode("S", items=sib)
        elif r < 0.7:
            sib = [(k if k is not None or rng.random() < 0.5 else fw_word(rng, False), v) for k, v in sib]
            sib.insert(rng.randrange(len(sib) + 1), (fw_word(rng, False), f))
            f = FNode("S", items=sib)
        else:
            sib = [(fw_word(rng, False), v) for _, v in sib]
            sib.insert(rng.randrange(len(sib) + 1), (fw_word(rng, False), f))
            f = FNode("M", items=sib)
    return f


# ------------------------------------------------------------------------------------------------
# (e) the block text sub-language of coq/Spec/BlockText.v (the class of C03_block_text_tokens / C03_block_text_events)
# ------------------------------------------------------------------------------------------------
class BNode:
    """kind 'W' (text), 'S' (place, items: BNode), 'M' (place, items: (key text, BNode)), 'I' (items: BNode; an indentless
    sequence: the value of a key, on the lines below at the key's column); place: None = compact (on the line of its '-'),
    d = on the lines below, 1 + d columns right of its parent"""
    __slots__ = ("kind", "text", "place", "items")

    def __init__(self, kind, text=None, place=None, items=None):
        self.kind, self.text, self.place, self.items = kind, text, place, items


def bt_word(rng, key=False):
    n = rng.choice([1, 1, 1, 2, 3, 5, 9])
    r = rng.random()
    if r < 0.02:
        n = rng.choice([126, 127, 128, 129, 254, 255, 300])      # around the chunk size of the plain-scalar loop
    elif key and r < 0.03:
        n = rng.choice([1000, 1023, 1024, 1024])                 # up to the limit of an implicit key
    return "".join(rng.choice(FW_RARE) if rng.random() < 0.03 else rng.choice(FW_CHARS) for _ in range(n))


def bt_node(rng, depth, max_depth, inl):
    if depth >= max_depth or rng.random() < 0.4:
        return BNode("W", text=bt_word(rng))
    place = None if (inl and rng.random() < 0.5) else rng.choice([0, 0, 0, 1, 2, 5])
    n = rng.choice([1, 1, 2, 2, 3, 4])
    if not inl and rng.random() < 0.3:
        return BNode("I", items=[bt_node(rng, depth + 1, max_depth, True) for _ in range(n)])
    if rng.random() < 0.5:
        return BNode("S", place=place, items=[bt_node(rng, depth + 1, max_depth, True) for _ in range(n)])
    return BNode("M", place=place, items=[(bt_word(rng, True), bt_node(rng, depth + 1, max_depth, False)) for _ in range(n)])


def bt_coll(rng, max_depth):
    while True:
        f = bt_node(rng, 0, max_depth, True)
        if f.kind not in "WI":
            return f


def bt_chain(rng, depth):
    """a chain of nested block collections of the given depth (the block-nesting limit is 255)"""
    f = BNode("W", text="x")
    for i in range(depth):
        r = rng.random()
        if r < 0.35:
            f = BNode("S", place=None, items=[f])              # compact: becomes '- - - x'
        elif r < 0.6:
            f = BNode("S", place=rng.choice([0, 0, 1]), items=[f])
        else:
            f = BNode("M", place=rng.choice([0, 0, 1]), items=[("k", f)])
    for g in bt_walk(f):                                       # a compact collection is allowed only as an item of a sequence
        if g.kind == "M":
            for _, v in g.items:
                if v.kind != "W" and v.place is None:
                    v.place = 0
    return f


def bt_walk(f):
    yield f
    if f.kind in "SI":
        for v in f.items:
            yield from bt_walk(v)
    elif f.kind == "M":
        for _, v in f.items:
            yield from bt_walk(v)


def bt_render(col, f):
    """the text of f from its first character on, which stands at column col; written independently of coq/Spec/BlockText.v:
    l+block-sequence [183] / l+block-mapping [187] with compact forms [185] / [195] and one-word plain scalars"""
    if f.kind == "W":
        return f.text + "\n"

    def child(v):
        if v.kind == "I":                                      # [201] seq-space(n, block-out) = n - 1: not indented
            return "\n" + " " * col + bt_render(col, v)
        if v.kind == "W" or v.place is None:
            return " " + bt_render(col + 2, v)
        return "\n" + " " * (col + 1 + v.place) + bt_render(col + 1 + v.place, v)
    if f.kind in "SI":
        parts = ["-" + child(v) for v in f.items]
    else:
        parts = [k + ":" + child(v) for k, v in f.items]
    return parts[0] + "".join(" " * col + x for x in parts[1:])


def bt_case(f):
    if f.kind == "W":
        return "W " + cps(f.text)
    if f.kind == "I":
        return "I %d %s" % (len(f.items), " ".join(bt_case(v) for v in f.items))
    pl = "-" if f.place is None else str(f.place)
    if f.kind == "S":
        return "S %s %d %s" % (pl, len(f.items), " ".join(bt_case(v) for v in f.items))
    return "M %s %d %s" % (pl, len(f.items), " ".join("%s %s" % (cps(k), bt_case(v)) for k, v in f.items))


def bt_tree(f):
    """the abstract node the text denotes (for events_of)"""
    if f.kind == "W":
        return sc(f.text)
    if f.kind in "SI":
        return Node("Q", flow=False, items=[bt_tree(v) for v in f.items])
    return Node("M", flow=False, items=[(sc(k), bt_tree(v)) for k, v in f.items])


def bt_depth(f):
    if f.kind == "W":
        return 0
    if f.kind == "I":                                          # no collection of its own for the scanner
        return max(bt_depth(v) for v in f.items)
    return 1 + max(bt_depth(v if f.kind == "S" else v[1]) for v in f.items)


def bt_long_key(f):
    return any(g.kind == "M" and any(len(k) > FW_KEY_MAX for k, _ in g.items) for g in bt_walk(f))


# ------------------------------------------------------------------------------------------------
# the check
# ------------------------------------------------------------------------------------------------
def strip_line(line):
    evs, fin = split_line(line)
    return [ev_nospan(e) for e in evs], fin


def node_count(docs):
    def cnt(n):
        return 1 + sum(cnt(c) for c in n.children())
    return sum(cnt(d) for d in docs)


def shrink_candidates(docs):
    """smaller streams: drop a document, replace a subtree by a plain scalar, drop an item of a collection"""
    import copy
    out = []
    if len(docs) > 1:
        for i in range(len(docs)):
            out.append(docs[:i] + docs[i + 1:])

    def paths(n, p):
        yield p
        if n.kind == "Q":
            for i, x in enumerate(n.items):
                yield from paths(x, p + [("q", i)])
        elif n.kind == "M":
            for i, (k, v) in enumerate(n.items):
                yield from paths(k, p + [("k", i)])
                yield from paths(v, p + [("v", i)])

    def get(n, p):
        for kind, i in p:
            n = n.items[i] if kind == "q" else (n.items[i][0] if kind == "k" else n.items[i][1])
        return n

    def has_alias_or_anchor(n):
        return n.kind == "A" or n.anchor is not None or any(has_alias_or_anchor(c) for c in n.children())

    for di, d in enumerate(docs):
        for p in paths(d, []):
            tgt = get(d, p)
            if tgt.kind in "QM" and tgt.items and (tgt.flow or len(tgt.items) > 1):
                for i in range(len(tgt.items)):
                    if has_alias_or_anchor(tgt):
                        break
                    nd = copy.deepcopy(docs)
                    get(nd[di], p).items.pop(i)
                    out.append(nd)
            if p and tgt.kind in "QM" and not has_alias_or_anchor(tgt):
                nd = copy.deepcopy(docs)
                kind, i = p[-1]
                par = get(nd[di], p[:-1])
                leaf = sc("s")
                if kind == "q":
                    par.items[i] = leaf
                elif kind == "k":
                    par.items[i] = (leaf, par.items[i][1])
                else:
                    par.items[i] = (par.items[i][0], leaf)
                out.append(nd)
    return out


def shrink(docs, opts, seed, is_bad, rounds=6, width=60):
    """greedy: keep the first smaller stream (under a few layout seeds) that still fails in the same way"""
    best = (docs, seed)
    for _ in range(rounds):
        cands = shrink_candidates(best[0])[:width]
        trial = []
        for cd in cands:
            for s in (best[1], best[1] + 1, best[1] + 2):
                try:
                    text, explicit, _ = render(cd, s, **opts)
                except Exception:
                    continue
                trial.append((cd, s, text, explicit))
        if not trial:
            break
        got = run_hx(["events", "str"], [enc(t[2]) for t in trial])
        found = None
        for (cd, s, text, explicit), g in zip(trial, got):
            if is_bad(cd, text, explicit, g):
                if found is None or node_count(cd) < node_count(found[0]):
                    found = (cd, s)
        if found is None:
            break
        best = found
    return best


def check_C03(tier, seed):
    import random
    res = Result(PID, tier, seed)
    proof = prepare(PID, res, model_tags=("", "C03"))
    rng = gen.rng_for(seed, PID)
    known = load_known()
    quick = tier == "quick"
    kf = set()
    cov_tree, cov_layout = {}, {}
    if res.harness_ok and res.model_ok:
        # ---------------- (a) generated streams ----------------
        n_main = 24000 if quick else 300000
        n_regr = 600 if quick else 6000
        cases = []           # (docs, opts, layout seed, text, explicit, expected, stream label)
        tg = TreeGen(rng, cov=cov_tree)
        seen = set()
        for _ in range(n_main):
            docs = tg.stream()
            ls = rng.randrange(1 << 30)
            opts = {}
            r = Renderer(random.Random(ls))
            text, explicit = r.stream(docs)
            for k, v in r.cov.items():
                cov_layout[k] = cov_layout.get(k, 0) + v
            if text in seen:
                continue
            seen.add(text)
            cases.append((docs, opts, ls, text, explicit, events_of(docs, explicit), "main"))
        for docs, opts in regression_stream(rng, n_regr):
            ls = rng.randrange(1 << 30)
            opts = dict(opts, calm=True)
            r = Renderer(random.Random(ls), **opts)
            text, explicit = r.stream(docs)
            if text in seen:
                continue
            seen.add(text)
            cases.append((docs, opts, ls, text, explicit, events_of(docs, explicit), "regression"))
        # the recorded witnesses of the repaired findings, verbatim
        for wtext, wdocs, wexpl in regression_witnesses():
            if wtext not in seen:
                seen.add(wtext)
                cases.append((wdocs, None, 0, wtext, wexpl, events_of(wdocs, wexpl), "witness"))
        lines = [enc(c[3]) for c in cases]
        impl = {b: run_hx(["events", b], lines) for b in ("str", "iter")}
        model = run_mx(["events", "str"], lines)
        n_ok = 0
        sizes = {}
        repaired_seen = {}       # repaired class -> [inputs of the main stream, inputs of the regression streams] matching it
        first_bad = {}
        for i, (docs, opts, ls, text, explicit, exp, label) in enumerate(cases):
            res.evaluations += 1
            b = "1-40" if len(text) <= 40 else "41-120" if len(text) <= 120 else "121-400" if len(text) <= 400 else "400+"
            sizes[b] = sizes.get(b, 0) + 1
            cls = known_classes(text)
            for rc in repaired_classes(text):
                repaired_seen.setdefault(rc, [0, 0])[0 if label == "main" else 1] += 1
            bad = None
            for bk in ("str", "iter"):
                g, fin = strip_line(impl[bk][i])
                if fin != "OK" or g != exp:
                    bad = (bk, g, fin)
                    break
            if bad is None:
                n_ok += 1
                if len(exp) >= 9:
                    res.nontrivial.add(text)
            elif cls and cls[0] in known:
                kf.add("%s: %s" % (cls[0], known[cls[0]]))
            else:
                key = (bad[2].split("#")[-1][:40], label)
                if key not in first_bad:
                    first_bad[key] = (i, bad)
            # the model pipeline is validated against the same expectation through the implementation
            me, mf = strip_line(model[i])
            ie, if_ = strip_line(impl["str"][i])
            if me != ie or (mf == "OK") != (if_ == "OK"):
                res.add_tie_break("correspondence on rendered streams: model pipeline != implementation", case=text,
                                  model=";".join(me)[-400:] + "|" + mf, impl=";".join(ie)[-400:] + "|" + if_)
        for key, (i, bad) in list(first_bad.items())[:8]:
            docs, opts, ls, text, explicit, exp, label = cases[i]

            def is_bad(cd, t, ex, line, want_msg=key[0]):
                g, fin = strip_line(line)
                e = events_of(cd, ex)
                if fin == "OK" and g == e:
                    return False
                c = known_classes(t)
                return not (c and c[0] in known) and fin.split("#")[-1][:40] == want_msg
            sdocs, sseed = shrink(docs, opts, ls, is_bad) if opts is not None else (docs, ls)
            if sdocs is not docs:
                stext, sexp_l, _ = render(sdocs, sseed, **opts)
                sg, sfin = strip_line(run_hx(["events", "str"], [enc(stext)])[0])
                small = dict(input=stext, tree=[d.dump() for d in sdocs], got=";".join(sg) + "|" + sfin,
                             expected=";".join(events_of(sdocs, sexp_l)))
            else:
                small = None
            res.add_violation("the events of back-end %s do not describe the tree the rendered stream denotes" % bad[0],
                              dict(input=text, codepoints=lines[i], tree=[d.dump() for d in docs], layout_seed=ls, stream=label,
                                   backend=bad[0]),
                              got=";".join(bad[1])[-900:] + "|" + bad[2], expected=";".join(exp)[-900:], shrunk=small,
                              same_symptom_elsewhere=sum(1 for k in first_bad if k == key))
        res.coverage["generated"] = dict(streams=len(cases), main=sum(1 for c in cases if c[6] == "main"),
                                         regression_stream=sum(1 for c in cases if c[6] == "regression"),
                                         witnesses=sum(1 for c in cases if c[6] == "witness"), agree_with_tree=n_ok,
                                         repaired_class_inputs={k: dict(main=v[0], regression=v[1]) for k, v in sorted(repaired_seen.items())},
                                         sizes=sizes, constructs=dict(sorted(cov_tree.items())),
                                         layout_choices=dict(sorted(cov_layout.items())))
        res.coverage["traces_validated_against_impl"] = len(cases)
        for i in (1, len(cases) // 3, len(cases) // 2, len(cases) - 1):
            if 0 <= i < len(cases):
                res.samples.append(dict(input=cases[i][3][:400], tree=[d.dump()[:300] for d in cases[i][0]]))

        # ---------------- (b) yaml-test-suite ----------------
        suite = [t for t in gen.suite() if not t.get("skip")]
        sc_cases = []      # (name, kind, text, expected lines or None for error cases)
        for t in suite:
            if t.get("fail"):
                sc_cases.append((t["name"], "error", t["yaml"], None))
                continue
            exp = suite_expected(t["tree"])
            sc_cases.append((t["name"], "plain", t["yaml"], exp))
            v = trailing_comment_variant(t)
            if v is not None:
                sc_cases.append((t["name"], "trailing-comment", v, exp))
            v = blank_line_variant(t)
            if v is not None:
                sc_cases.append((t["name"], "blank-lines", v, exp))
            if "\r" not in t["yaml"]:
                sc_cases.append((t["name"], "crlf", t["yaml"].replace("\n", "\r\n"), exp))
            # the same document without its final line break (the last token then ends the INPUT: a ':' , a word, a
            # closing bracket or quote as very last character); block scalars are left out, their value may depend on it
            y = t["yaml"]
            if y.endswith("\n") and not y.endswith("\n\n") and "|" not in y and ">" not in y and "#" not in y.rsplit("\n", 2)[-2]:
                sc_cases.append((t["name"], "no-final-break", y[:-1], exp))
        sl = [enc(c[2]) for c in sc_cases]
        s_impl = {b: run_hx(["events", b], sl) for b in ("str", "iter")}
        s_model = run_mx(["events", "str"], sl)
        kinds = {}
        for i, (name, kind, text, exp) in enumerate(sc_cases):
            res.evaluations += 1
            kinds[kind] = kinds.get(kind, 0) + 1
            for bk in ("str", "iter"):
                g, fin = strip_line(s_impl[bk][i])
                if exp is None:
                    if not fin.startswith("ERR"):
                        res.add_violation("yaml-test-suite error case %s is accepted (back-end %s)" % (name, bk),
                                          dict(input=text, codepoints=sl[i], case=name, backend=bk), got=";".join(g)[-600:] + "|" + fin)
                    continue
                got = impl_to_suite(g)
                if fin != "OK" or got != exp:
                    cls = known_classes(text)
                    if cls and cls[0] in known:
                        kf.add("%s: %s" % (cls[0], known[cls[0]]))
                        continue
                    d = next((j for j in range(min(len(got), len(exp))) if got[j] != exp[j]), min(len(got), len(exp)))
                    res.add_violation("yaml-test-suite case %s (%s, back-end %s): events differ from the recorded tree" % (name, kind, bk),
                                      dict(input=text, codepoints=sl[i], case=name, variant=kind, backend=bk),
                                      got=got[max(0, d - 2):d + 3], expected=exp[max(0, d - 2):d + 3], verdict=fin)
                elif bk == "str" and len(exp) >= 9:
                    res.nontrivial.add(text)
            me, mf = strip_line(s_model[i])
            ie, if_ = strip_line(s_impl["str"][i])
            if me != ie or (mf == "OK") != (if_ == "OK"):
                res.add_tie_break("correspondence on the test suite: model pipeline != implementation", case=text,
                                  model=";".join(me)[-300:] + "|" + mf, impl=";".join(ie)[-300:] + "|" + if_)
        res.coverage["suite"] = dict(cases=len(suite), non_error=sum(1 for t in suite if not t.get("fail")),
                                     error=sum(1 for t in suite if t.get("fail")), runs=kinds)

        # ---------------- (c) the token grammar of coq/Spec/TokenGrammar.v, executed ----------------
        n_lt = 12000 if quick else 200000
        lrng = gen.rng_for(seed, PID + "-lt")
        ltg = TreeGen(lrng, cov={})
        lt_lines, lt_exp = [], []
        for _ in range(n_lt):
            root = ltg.node(0, False, [])
            es = 1 if (root.empty() or lrng.random() < 0.4) else 0
            ee = 1 if lrng.random() < 0.3 else 0
            lt_lines.append("%d %d %s" % (es, ee, lt_of(root, lrng, True)))
            lt_exp.append(";".join(events_of([root], [bool(es)])))
        lt_out = run_mx(["check"], lt_lines, tag="C03")
        lt_ok = 0
        for l, e, o in zip(lt_lines, lt_exp, lt_out):
            res.evaluations += 1
            head = o.split("|")[0].split(" ")
            parts = o.split("|")
            if len(head) != 5 or head[:3] != ["1", "1", "1"]:
                res.add_tie_break("token grammar: parse_tokens (wrap (tokens_of t)) <> wrap_events (events_of t), or a generated layout tree "
                                  "is not well-formed (wf, bound, agree = %s)" % " ".join(head[:3]), case=l, out=o[-600:])
            elif parts[1] != e:
                res.add_tie_break("token grammar: events_of of the Coq specification differs from the events computed by the check",
                                  case=l, coq=parts[1][-400:], check=e[-400:])
            else:
                lt_ok += 1
        res.coverage["token_grammar_trees"] = dict(trees=len(lt_lines), agree=lt_ok)
        # whole streams: stream_toks / stream_events / docs_wf / docs_bound (C03_stream)
        n_ls = 6000 if quick else 100000
        ls_lines, ls_exp = [], []
        for _ in range(n_ls):
            l, e = lt_stream(ltg, lrng)
            ls_lines.append(l)
            ls_exp.append(e)
        ls_out = run_mx(["stream"], ls_lines, tag="C03")
        ls_ok = 0
        for l, e, o in zip(ls_lines, ls_exp, ls_out):
            res.evaluations += 1
            parts = o.split("|")
            head = parts[0].split(" ")
            if len(head) != 5 or head[:3] != ["1", "1", "1"]:
                res.add_tie_break("token grammar (streams): parse_tokens (stream_toks ds) <> stream_events ds, or a generated stream is "
                                  "not well-formed (docs_wf, docs_bound, agree = %s)" % " ".join(head[:3]), case=l, out=o[-600:])
            elif parts[1] != e:
                res.add_tie_break("token grammar (streams): stream_events of the Coq specification differs from the events computed by "
                                  "the check", case=l, coq=parts[1][-400:], check=e[-400:])
            else:
                ls_ok += 1
        res.coverage["token_grammar_streams"] = dict(streams=len(ls_lines), agree=ls_ok)
        # ---------------- (d) the text sub-language of the scanner theorems, on the implementation ----------------
        n_fw = 6000 if quick else 100000
        frng = gen.rng_for(seed, PID + "-flowtext")
        fws = []
        for i in range(n_fw):
            fws.append(fw_coll(frng, frng.choice([1, 2, 3, 4, 6])))
        for d in ([1, 2, 3, 100, 254, 255] if quick else list(range(1, 256))):
            fws.append(fw_chain(frng, d))
        for _ in range(20 if quick else 200):            # lines longer than the simple-key limit (1024)
            fws.append(FNode("S", items=[(None, fw_coll(frng, 3, False)) for _ in range(frng.choice([40, 80, 160]))]))
        for _ in range(300 if quick else 5000):          # keys around the 1024-character limit of a flow-sequence single pair
            fws.append(fw_keylimit(frng))
        fw_lines = [fw_case(f) for f in fws]
        fw_text = [fw_render(f) + "\n" for f in fws]
        fw_spec = run_mx(["flow"], fw_lines, tag="C03")
        fw_enc = [enc(t) for t in fw_text]
        fw_impl_t = run_hx(["tokens"], fw_enc)
        fw_impl = {b: run_hx(["events", b], fw_enc) for b in ("str", "iter")}
        fw_model = run_mx(["events", "str"], fw_enc)
        fw_ok = 0
        deepest = longest = 0
        fw_limit = dict(pair_key_1024_in_sequence=0, pair_key_longer_in_sequence_rejected=0, key_longer_in_mapping=0)
        for j, (f, case, text, spec, it, code) in enumerate(zip(fws, fw_lines, fw_text, fw_spec, fw_impl_t, fw_enc)):
            res.evaluations += 1
            parts = spec.split("|")
            head = parts[0].split(" ")
            long_at = fw_first_long_key(f)
            if (len(parts) != 4 or len(head) != 4 or head[0] != ("1" if long_at is None else "0") or head[1] != "1" or head[3] != "1"
                    or int(head[2]) != fw_depth(f) or fw_depth(f) > 255):
                res.add_tie_break("flow text: a generated node is outside the class of the theorem, or fwf of coq/Spec/FlowText.v is not "
                                  "'fgram and no single-pair key of a flow sequence longer than 1024 characters' "
                                  "(fwf, is_coll, depth, fgram = %s; over-long key: %s)" % (parts[0], long_at is not None),
                                  case=case[:300], out=spec[-300:])
                continue
            if long_at is not None:
                # outside the class by the key limit alone: C03_flow_long_key_rejected (first entry of the root) / fetch_value of the
                # model in general: error at the ':' behind the first over-long key; the implementation must reject it there, too
                want = "ERR@%d:1:%d" % (long_at, long_at)
                _, tfin = split_line(it)
                fins = [tfin] + [split_line(fw_impl[bk][j])[1] for bk in ("str", "iter")]
                if any(core.fin_pos(x) != want for x in fins):
                    res.add_violation("flow text: a single pair of a flow sequence whose key is longer than 1024 characters is not "
                                      "rejected at its ':' (YAML 1.2.2 7.4.2; /repo 57aa316)",
                                      dict(input=text[:2200], codepoints=code, case=case[:600]),
                                      got=" / ".join(x[:80] for x in fins), expected=want)
                elif core.fin_pos(split_line(fw_model[j])[1]) != want:
                    res.add_tie_break("flow text: the model pipeline does not reject an over-long flow-sequence pair key where the "
                                      "implementation does", case=text[:300], model=fw_model[j][-200:], expected=want)
                else:
                    fw_limit["pair_key_longer_in_sequence_rejected"] += 1
                    fw_ok += 1
                continue
            for kk in ("S", "M"):
                def keys(g, kk=kk):
                    return [] if g.kind == "W" else ([len(k) for k, _ in g.items if k is not None and g.kind == kk]
                                                     + [x for _, v in g.items for x in keys(v)])
                ks = keys(f)
                if kk == "S" and FW_KEY_MAX in ks:
                    fw_limit["pair_key_1024_in_sequence"] += 1
                if kk == "M" and any(x > FW_KEY_MAX for x in ks):
                    fw_limit["key_longer_in_mapping"] += 1
            if parts[1] != code:
                res.add_tie_break("flow text: render of coq/Spec/FlowText.v differs from the text written by the check", case=case[:300],
                                  coq=parts[1][-300:], check=code[-300:])
                continue
            exp_ev = events_of([fw_tree(f)], [False])
            if parts[3] != ";".join(exp_ev):
                res.add_tie_break("flow text: events_of (lt f) of the Coq specification differs from the events computed by the check",
                                  case=case[:300], coq=parts[3][-300:], check=";".join(exp_ev)[-300:])
                continue
            deepest, longest = max(deepest, fw_depth(f)), max(longest, len(text))
            good = True
            toks, tfin = split_line(it)
            got_t = ";".join(ev_nospan(t) for t in toks)
            if tfin != "END" or got_t != parts[2]:
                good = False
                res.add_violation("flow text (class of C03_flow_text_tokens): the scanner's tokens are not the tokens of the layout tree "
                                  "the text denotes", dict(input=text[:2000], codepoints=code, case=case[:600]),
                                  got=got_t[-600:] + "|" + tfin, expected=parts[2][-600:])
            for bk in ("str", "iter"):
                g, fin = strip_line(fw_impl[bk][j])
                if fin != "OK" or g != exp_ev:
                    good = False
                    res.add_violation("flow text (class of C03_flow_text_events): the events of back-end %s are not the events of the "
                                      "tree the text denotes" % bk, dict(input=text[:2000], codepoints=code, case=case[:600], backend=bk),
                                      got=";".join(g)[-600:] + "|" + fin, expected=";".join(exp_ev)[-600:])
                    break
            me, mf = strip_line(fw_model[j])
            if mf != "OK" or me != exp_ev:
                res.add_tie_break("flow text: the model pipeline contradicts C03_flow_text_events (extraction or driver out of step)",
                                  case=text[:300], model=";".join(me)[-300:] + "|" + mf)
            if good:
                fw_ok += 1
                if len(exp_ev) >= 9:
                    res.nontrivial.add(text)
        res.coverage["flow_text"] = dict(nodes=len(fws), tokens_and_events_agree=fw_ok, deepest=deepest, longest_text=longest,
                                         key_limit=fw_limit)
        # ---------------- (e) the block text sub-language of the scanner theorems, on the implementation ----------------
        n_bt = 6000 if quick else 100000
        brng = gen.rng_for(seed, PID + "-blocktext")
        bts = [bt_coll(brng, brng.choice([1, 2, 3, 4, 6])) for _ in range(n_bt)]
        for d in ([1, 2, 3, 100, 254, 255] if quick else list(range(1, 256))):
            bts.append(bt_chain(brng, d))
        for _ in range(40 if quick else 400):                  # a key just over the limit: outside the class, must be rejected
            f = bt_coll(brng, 3)
            ms = [g for g in bt_walk(f) if g.kind == "M"]
            if ms:
                g = brng.choice(ms)
                i = brng.randrange(len(g.items))
                g.items[i] = ("".join(brng.choice(FW_CHARS) for _ in range(brng.choice([1025, 1026, 1500]))), g.items[i][1])
            bts.append(f)
        bt_lines = [bt_case(f) for f in bts]
        bt_text = [bt_render(0, f) for f in bts]
        bt_spec = run_mx(["block"], bt_lines, tag="C03")
        bt_enc = [enc(t) for t in bt_text]
        bt_impl_t = run_hx(["tokens"], bt_enc)
        bt_impl = {b: run_hx(["events", b], bt_enc) for b in ("str", "iter")}
        # the extracted model pipeline (not tail recursive) runs on the texts of up to 12 000 characters only; the implementation is
        # checked against the extracted specification on all of them
        bt_small = [j for j, t in enumerate(bt_text) if len(t) <= 12000]
        bt_model = dict(zip(bt_small, run_mx(["events", "str"], [bt_enc[j] for j in bt_small])))
        bt_ok = bt_rej = 0
        bdeepest = blongest = 0
        for j, (f, case, text, spec, it, code) in enumerate(zip(bts, bt_lines, bt_text, bt_spec, bt_impl_t, bt_enc)):
            res.evaluations += 1
            parts = spec.split("|")
            head = parts[0].split(" ")
            long_key = bt_long_key(f)
            if (len(parts) != 4 or len(head) != 2 or head[0] != ("0" if long_key else "1") or int(head[1]) != bt_depth(f)
                    or bt_depth(f) > 255):
                res.add_tie_break("block text: a generated node is outside the class of the theorem (bwf_root, bdepth = %s; over-long "
                                  "key: %s)" % (parts[0], long_key), case=case[:300], out=spec[-300:])
                continue
            if parts[1] != code:
                res.add_tie_break("block text: brender of coq/Spec/BlockText.v differs from the text written by the check",
                                  case=case[:300], coq=parts[1][-300:], check=code[-300:])
                continue
            if long_key:
                fins = [split_line(it)[1]] + [split_line(bt_impl[bk][j])[1] for bk in ("str", "iter")]
                if not all(x.startswith("ERR@") for x in fins):
                    res.add_violation("block text: an implicit key of a block mapping longer than 1024 characters is not rejected "
                                      "(YAML 1.2.2 ns-s-implicit-yaml-key)", dict(input=text[:2200], codepoints=code, case=case[:600]),
                                      got=" / ".join(x[:80] for x in fins))
                elif j in bt_model and core.fin_pos(split_line(bt_model[j])[1]) != core.fin_pos(fins[1]):
                    res.add_tie_break("block text: the model pipeline does not reject an over-long block key where the implementation "
                                      "does", case=text[:300], model=bt_model[j][-200:], impl=fins[1][:200])
                else:
                    bt_rej += 1
                continue
            exp_ev = events_of([bt_tree(f)], [False])
            if parts[3] != ";".join(exp_ev):
                res.add_tie_break("block text: events_of (blt n) of the Coq specification differs from the events computed by the check",
                                  case=case[:300], coq=parts[3][-300:], check=";".join(exp_ev)[-300:])
                continue
            bdeepest, blongest = max(bdeepest, bt_depth(f)), max(blongest, len(text))
            good = True
            toks, tfin = split_line(it)
            got_t = ";".join(ev_nospan(t) for t in toks)
            if tfin != "END" or got_t != parts[2]:
                good = False
                res.add_violation("block text (class of C03_block_text_tokens): the scanner's tokens are not the tokens of the layout "
                                  "tree the text denotes", dict(input=text[:2000], codepoints=code, case=case[:600]),
                                  got=got_t[-600:] + "|" + tfin, expected=parts[2][-600:])
            for bk in ("str", "iter"):
                g, fin = strip_line(bt_impl[bk][j])
                if fin != "OK" or g != exp_ev:
                    good = False
                    res.add_violation("block text (class of C03_block_text_events): the events of back-end %s are not the events of the "
                                      "tree the text denotes" % bk, dict(input=text[:2000], codepoints=code, case=case[:600], backend=bk),
                                      got=";".join(g)[-600:] + "|" + fin, expected=";".join(exp_ev)[-600:])
                    break
            me, mf = strip_line(bt_model[j]) if j in bt_model else (exp_ev, "OK")
            if mf != "OK" or me != exp_ev:
                res.add_tie_break("block text: the model pipeline contradicts C03_block_text_events (extraction or driver out of step)",
                                  case=text[:300], model=";".join(me)[-300:] + "|" + mf)
            if good:
                bt_ok += 1
                if len(exp_ev) >= 9:
                    res.nontrivial.add(text)
        res.coverage["block_text"] = dict(nodes=len(bts), tokens_and_events_agree=bt_ok, over_long_key_rejected=bt_rej,
                                          with_indentless_sequence=sum(1 for f in bts if any(g.kind == "I" for g in bt_walk(f))),
                                          model_pipeline_runs=len(bt_small),
                                          deepest=bdeepest, longest_text=blongest)
    res.known += sorted(kf)
    rule = ("(a) random abstract node trees (scalars in 5 styles, aliases, block/flow sequences and mappings, left-out nodes, anchors, "
            "tags, complex keys, 1-3 documents) rendered by a renderer written from the YAML 1.2.2 productions under random layout "
            "choices (coverage.generated.layout_choices counts each choice made); expected events computed from the tree; both input "
            "back-ends and the Coq model pipeline; a dedicated regression stream around the classes of the repaired findings and their "
            "recorded witnesses (all must pass; coverage.generated.repaired_class_inputs); (b) yaml-test-suite "
            "non-error cases against the recorded tree + trailing-comment / blank-line / CRLF variants, error cases must be rejected; "
            "(c) random layout trees (and random streams of documents with directives) through the extracted tokens_of / events_of / "
            "stream_toks / stream_events / parse_tokens; (d) random nodes of the text sub-language of the scanner theorems "
            "(coq/Spec/FlowText.v; also nesting up to the flow-level limit, words around the 127-character chunk of the plain-scalar "
            "loop, lines longer than the simple-key limit, keys of 1000..2100 characters as single pairs of flow sequences and as keys "
            "of flow mappings): the implementation's tokens (hx tokens) and events must be the extracted "
            "tokens_of (lt f) / events_of (lt f), the text must be the extracted render; a node that is outside the class only because "
            "a single-pair key of a flow sequence is longer than 1024 characters (fwf = false, fgram = true) must be REJECTED by the "
            "scanner, both back-ends and the model at the ':' behind the first such key; (e) random nodes of the BLOCK text "
            "sub-language of the scanner theorems (coq/Spec/BlockText.v: nested block sequences / mappings of one-word scalars, compact "
            "and next-line placement, indentless sequences below a key, indentation steps 1..6, nesting chains up to the block-nesting limit 255, keys up to 1024 "
            "characters): tokens and events of the implementation must be the extracted tokens_of (blt n) / events_of (blt n), the "
            "text the extracted brender; a key of more than 1024 characters (bwf_root = false) must be rejected; non-trivial = distinct input texts "
            "whose event list has >= 9 events and which agreed with the expectation")
    return res.finish(proof, rule)
