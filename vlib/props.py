"""One check_<id>(tier, seed) per property."""
import json
import os

from . import core, gen
from .core import (Result, dec, enc, ev_kind, fin_pos, prepare, run_hx, run_mx, split_line)


def dedupe(groups):
    seen = set()
    cases, dist = [], {}
    for label, items in groups:
        n = 0
        for s in items:
            if s not in seen:
                seen.add(s)
                cases.append(s)
                n += 1
        dist[label] = n
    return cases, dist


def verdict_class(fin):
    if fin == "OK":
        return "OK"
    if fin.startswith("ERR"):
        return "ERR"
    return fin      # PANIC / TIMEOUT / CRASH / MODELPANIC ... kept verbatim: always a mismatch or a violation


def abnormal(fin):
    return not (fin == "OK" or fin.startswith("ERR") or fin == "END")


def size_hist(cases):
    h = {}
    for s in cases:
        b = "0" if not s else "1-4" if len(s) <= 4 else "5-16" if len(s) <= 16 else "17-64" if len(s) <= 64 else "65+"
        h[b] = h.get(b, 0) + 1
    return h


# ------------------------------------------------------------------------------------------------
# C02 — events form a well-nested sentence
# ------------------------------------------------------------------------------------------------
def proj_kinds(line):
    evs, fin = split_line(line)
    return ";".join(ev_kind(e) for e in evs) + "|" + verdict_class(fin)


def anchors_ok(evs):
    """ids positive, strictly increasing as handed out, aliases refer to an id handed out earlier"""
    mx = 0
    for e in evs:
        k = ev_kind(e)
        if k.startswith("AL"):
            i = int(k[2:])
            if not (1 <= i <= mx):
                return False
        elif k[:2] in ("SC", "QS", "MS") and "," in k:
            a = int(k.split(",")[1])
            if a != 0:
                if a <= mx:
                    return False
                mx = a
    return True


def check_C02(tier, seed):
    res = Result("C02", tier, seed)
    proof = prepare("C02", res)
    rng = gen.rng_for(seed, "C02")
    cases, dist = dedupe(gen.parse_space(tier, rng))
    lines = [enc(s) for s in cases]
    res.coverage["input_distribution"] = dict(groups=dist, sizes=size_hist(cases))
    if res.harness_ok and res.model_ok:
        impl = {b: run_hx(a, lines) for b, a in (("str", ["events", "str"]), ("iter", ["events", "iter"]),
                                                 ("push", ["push", "str:multi"]))}
        toks = run_hx(["tokens"], lines)
        m_tok = run_mx(["parse-tokens"], toks)
        m_full = run_mx(["events", "str"], lines)
        # an alternating peek/next history run well past the end: the events handed out by next must be the sentence,
        # followed by nothing
        hl = ["%s#%s" % ("PN" * (len(split_line(impl["str"][i])[0]) + 3), lines[i]) for i in range(len(lines))]
        hist = run_hx(["hist", "str"], hl)
        impl["peek-next"] = []
        for i, h in enumerate(hist):
            parts = h.split(";") if h else []
            nexts = parts[1::2]
            evs_n = [t for t in nexts if t != "NONE" and not t.startswith("ERR@")]
            fin = "OK"
            for t in nexts:
                if t.startswith("ERR@"):
                    fin = t
            if parts and parts[-1].startswith("ERR@"):
                fin = parts[-1]
            # nothing may follow StreamEnd: every next after it must be NONE
            after = False
            extra = False
            for t in nexts:
                if after and t != "NONE":
                    extra = True
                if t.startswith("SE@"):
                    after = True
            impl["peek-next"].append(";".join(evs_n) + "|" + ("EXTRA-AFTER-STREAM-END" if extra else fin))
        verd = {b: run_mx(["grammar"], impl[b]) for b in impl}
        errs = {}
        for i, s in enumerate(cases):
            res.evaluations += 1
            evs, fin = split_line(impl["str"][i])
            kinds = proj_kinds(impl["str"][i])
            if sum(1 for e in evs if e[:2] in ("QS", "MS")) >= 1 or sum(1 for e in evs if e.startswith("SC")) >= 2:
                res.nontrivial.add(kinds)
            errs[verdict_class(fin)] = errs.get(verdict_class(fin), 0) + 1
            # the property itself, on the implementation's output (oracle = extracted acceptor)
            for b in impl:
                bevs, bfin = split_line(impl[b][i])
                v = verd[b][i].split()
                ok = len(v) == 3 and v[0] == "1" and (bfin != "OK" or v[1] == "1") and v[2] == "1" and not abnormal(bfin)
                ok = ok and anchors_ok(bevs)
                if not ok:
                    res.add_violation("events of back-end %s are not a sentence prefix / complete sentence / anchor ids wrong" % b,
                                      dict(input=s, codepoints=enc(s), backend=b), impl=impl[b][i], oracle=verd[b][i])
            # the tie: model parser on the real token stream, and the whole model pipeline
            if abnormal(split_line(toks[i])[1]):
                res.add_tie_break("token hook output abnormal", case=s, out=toks[i][-200:])
            elif proj_kinds(m_tok[i]) != kinds:
                res.add_tie_break("correspondence: model parser on real tokens != real events (kinds, anchor ids, verdict)",
                                  case=s, model=proj_kinds(m_tok[i]), impl=kinds)
            if proj_kinds(m_full[i]) != kinds:
                res.add_tie_break("correspondence: model pipeline != real events (kinds, anchor ids, verdict)",
                                  case=s, model=proj_kinds(m_full[i]), impl=kinds)
        res.coverage["verdicts"] = errs
        res.coverage["traces_validated_against_impl"] = len(cases)
        for i in (3, len(cases) // 3, len(cases) // 2, len(cases) - 5):
            if 0 <= i < len(cases):
                res.samples.append(dict(input=cases[i], events=proj_kinds(impl["str"][i])))
    rule = ("C01 input space (exhaustive small strings over the indicator alphabet, token soups, line soups, "
            "yaml-test-suite with CRLF/truncation variants, mutated suite); non-trivial = distinct event-kind "
            "sequences with at least one collection or two scalars")
    return res.finish(proof, rule)


def replay(pid, path):
    """Print a recorded violation and, when it carries an input text, run that input again through the CURRENT
    implementation (events over two back-ends, document loader) and the extracted model, so that the reader sees what
    the code does with it now.  Exit 1 while the implementation still ends abnormally on it or disagrees with the model
    (event kinds / verdict / error position), 0 otherwise (property-specific oracles are re-applied by the check itself)."""
    d = json.load(open(path if os.path.isabs(path) else os.path.join(core.VERIF, path)))
    print(json.dumps(d, indent=1)[:4000])
    case = d.get("case") if isinstance(d.get("case"), dict) else None
    cps = case.get("codepoints") if case else None
    if not isinstance(cps, str) or not all(t.isdigit() for t in cps.split()):
        return 0
    try:
        ok1, _ = core.build_harness()
        ok2, _ = core.build_model("")
    except Exception:
        ok1 = ok2 = False
    if not (ok1 and ok2):
        print("replay: harness or model does not build; nothing re-run")
        return 1
    outs = {"events/str": run_hx(["events", "str"], [cps])[0], "events/iter": run_hx(["events", "iter"], [cps])[0],
            "load/yaml": run_hx(["load", "yaml", "eager"], [cps])[0], "model/str": run_mx(["events", "str"], [cps])[0]}
    for k, v in outs.items():
        print("replay %-12s %s" % (k, v[-600:]))
    bad = any(x in v for v in list(outs.values())[:3] for x in ("PANIC", "CRASH", "TIMEOUT", "SPIN"))
    me, mf = split_line(outs["model/str"])
    ie, if_ = split_line(outs["events/str"])
    differs = proj_kinds(outs["model/str"]) != proj_kinds(outs["events/str"]) or fin_pos(mf) != fin_pos(if_) \
        or outs["events/str"].rsplit("|", 1)[0] != outs["events/iter"].rsplit("|", 1)[0]
    print("replay verdict: %s" % ("still failing" if bad or differs else "implementation ends normally and agrees with the model on this input"))
    return 1 if bad or differs else 0


# ------------------------------------------------------------------------------------------------
# C08 — core-schema scalar typing
# ------------------------------------------------------------------------------------------------
C08_ALPHA = "0123456789+-.eExoabcdfABCDF_nulNULtrTRsSiIyY~"     # characters that occur in core-schema literals
C08_ALPHA_SMALL = "0179+-.eExoaAfF_nulNULtri~"
C08_CONFIGS = ["plain", "plain!!int", "plain!!float", "plain!!bool", "plain!!null", "plain!!str", "plain!foo",
               "single", "double", "literal", "folded", "double!!int", "plain!!binary"]


def c08_float_class(d):
    """canonical class of a float dump from either side: nan, or the sign (an exact decimal of the model may
    round to a finite double, to zero or to infinity: the value itself is certified by the oracle)"""
    if d == "Fnan":
        return "Fnan"
    if d == "Finf":
        return "F+"
    if d == "F-inf":
        return "F-"
    if d.startswith("Fd") and "^" in d:
        return "F-" if d.startswith("Fd-") else "F+"
    if d.startswith("F") and len(d) == 17:
        bits = int(d[1:], 16)
        ex = (bits >> 52) & 0x7ff
        frac = bits & ((1 << 52) - 1)
        if ex == 0x7ff and frac:
            return "Fnan"
        return "F-" if bits >> 63 else "F+"
    return d


def c08_canon(line):
    body = line.rsplit(";", 1)[0]
    return "|".join(c08_float_class(x) for x in body.split("|"))


def c08_cases(tier, rng):
    groups = []
    groups.append(("corpus", gen.corpus_file("resolver_seeds.jsonl")))
    words = ["null", "Null", "NULL", "~", "true", "True", "TRUE", "false", "False", "FALSE", ".inf", ".Inf", ".INF", "+.inf",
             "-.inf", "-.Inf", "-.INF", "+.INF", ".nan", ".NaN", ".NAN", "inf", "nan", "NaN", "infinity", "Infinity", "+inf",
             "-Infinity", "0x", "0o", "0x+1", "0x-1", "0o+7", "+-1", "++1", "-+1", "--1", "+", "-", ".", "e", "1e", "1e+", "e5",
             ".e5", "1.e5", "1.", ".5", "+.5", "-.5", "1_000", "0b1", "0O7", "0X1", "1E5", "1e-5", "1e+5", "-0", "+0", "00", "007",
             "0x0", "0o0", "0o8", "0xg", "0xFF", "0xff", "0xfF", "yes", "no", "on", "off", "y", "n", "", " ", "1 ", " 1", "１"]
    groups.append(("words", words))
    b = []
    for k in (63, 64, 31, 32, 53):
        for d in (-2, -1, 0, 1, 2):
            v = 2 ** k + d
            for s in (str(v), "-" + str(v), "+" + str(v), hex(v), oct(v), "0x" + format(v, "X"), str(v) + ".0", str(v) + "e0"):
                b.append(s)
    groups.append(("boundary-integers", b))
    nums = []
    for _ in range(3000 if tier == "quick" else 200000):
        sign = rng.choice(["", "", "+", "-"])
        ip = "".join(rng.choice("0123456789") for _ in range(rng.randrange(0, 22)))
        fp = "".join(rng.choice("0123456789") for _ in range(rng.randrange(0, 22)))
        form = rng.randrange(6)
        if form == 0:
            s = sign + (ip or "0")
        elif form == 1:
            s = sign + ip + "." + fp
        elif form == 2:
            s = sign + ip + "." + fp + rng.choice("eE") + rng.choice(["", "+", "-"]) + str(rng.randrange(0, 400))
        elif form == 3:
            s = sign + (ip or "1") + rng.choice("eE") + rng.choice(["", "+", "-"]) + str(rng.randrange(0, 400))
        elif form == 4:
            s = "0x" + "".join(rng.choice("0123456789abcdefABCDEF") for _ in range(rng.randrange(0, 18)))
        else:
            s = "0o" + "".join(rng.choice("01234567") for _ in range(rng.randrange(0, 24)))
        if rng.random() < 0.15 and s:
            p = rng.randrange(len(s) + 1)
            s = s[:p] + rng.choice(C08_ALPHA) + s[p:]
        nums.append(s)
    groups.append(("random-numbers", nums))
    groups.append(("random-alphabet", ["".join(rng.choice(C08_ALPHA) for _ in range(rng.randrange(4, 12)))
                                       for _ in range(3000 if tier == "quick" else 100000)]))
    if tier == "quick":
        groups.append(("exhaustive<=3/%d" % len(C08_ALPHA), list(gen.exhaustive(C08_ALPHA, 3))))
    else:
        groups.append(("exhaustive<=4/%d" % len(C08_ALPHA), list(gen.exhaustive(C08_ALPHA, 4))))
        groups.append(("exhaustive<=5/%d" % len(C08_ALPHA_SMALL), list(gen.exhaustive(C08_ALPHA_SMALL, 5))))
    return groups


def check_C08(tier, seed):
    res = Result("C08", tier, seed)
    proof = prepare("C08", res)
    rng = gen.rng_for(seed, "C08")
    cases, dist = dedupe(c08_cases(tier, rng))
    cases = [s for s in cases if "\n" not in s]
    lines = [enc(s) for s in cases]
    res.coverage["input_distribution"] = dict(groups=dist, sizes=size_hist(cases))
    res.coverage["configurations"] = C08_CONFIGS
    if res.harness_ok and res.model_ok:
        impl = run_hx(["resolve"], lines)
        model = run_mx(["resolve"], lines)
        verd = run_mx(["c08-oracle"], [l + "#" + r for l, r in zip(lines, impl)])
        kinds = {}
        for i, s in enumerate(cases):
            res.evaluations += 1
            r0 = impl[i].split("|")[0]
            kinds[r0[:1]] = kinds.get(r0[:1], 0) + 1
            if r0[:1] != "S":
                res.nontrivial.add(s)
            flags = impl[i].rsplit(";", 1)[-1] if ";" in impl[i] else impl[i]
            v = verd[i]
            if flags != "ok":
                res.add_violation("borrowed/owned/node-level resolution entry points disagree: " + flags,
                                  dict(input=s, codepoints=enc(s)), impl=impl[i])
            elif len(v) != len(C08_CONFIGS) or set(v) != {"1"}:
                bad = [C08_CONFIGS[k] for k, c in enumerate(v) if c != "1"] if len(v) == len(C08_CONFIGS) else ["?"]
                res.add_violation("core-schema oracle rejects the implementation's result for configuration(s) %s" % bad,
                                  dict(input=s, codepoints=enc(s)), impl=impl[i], oracle=v)
            if c08_canon(model[i]) != c08_canon(impl[i]):
                res.add_tie_break("correspondence: resolver model != implementation", case=s,
                                  model=c08_canon(model[i]), impl=c08_canon(impl[i]))
        res.coverage["untagged_result_kinds"] = kinds
        # the typing of a scalar is a function of (text, style, tag): it must not depend on where the scalar stands —
        # root of a lone document, of a later document (explicit, or bare behind a document that re-bound `!!` with %TAG
        # and was closed by `...`), sequence entry, mapping value
        import re as _re
        safe = [s for s in cases if _re.fullmatch(r"[A-Za-z0-9.+_~-]{1,24}", s) and not s.startswith(("-", "---", "..."))]
        crng = gen.rng_for(seed, "C08-context")
        crng.shuffle(safe)
        safe = safe[:400 if tier == "quick" else 6000]
        tags = ["", "!!int ", "!!float ", "!!bool ", "!!null ", "!!str ", "!local "]
        ctxs = [("alone", "%s\n"), ("later-explicit", "a\n--- %s\n"), ("later-bare-after-rebinding", "%%TAG !! tag:example.com,2000:\n--- b\n...\n%s\n"),
                ("later-explicit-after-rebinding", "%%TAG !! tag:example.com,2000:\n--- b\n...\n--- %s\n"), ("entry", "- %s\n"), ("value", "k: %s\n")]
        ctx_lines, ctx_meta = [], []
        for t in safe:
            for tg in tags:
                for cn, pat in ctxs:
                    ctx_lines.append(enc(pat % (tg + t)))
                    ctx_meta.append((t, tg, cn))
        got = run_hx(["load", "yaml", "eager"], ctx_lines)

        def last_scalar(d):
            if not d.startswith("OK "):
                return d[:60]
            x = d[3:].split(" ; ")[-1]
            if x.startswith("Q[") and x.endswith("]"):
                x = x[2:-1]
            elif x.startswith("M{") and x.endswith("}"):
                x = x[2:-1].split("=", 1)[-1]
            return x
        ref = {}
        for (t, tg, cn), d in zip(ctx_meta, got):
            res.evaluations += 1
            v = last_scalar(d)
            if cn == "alone":
                ref[(t, tg)] = v
            elif v != ref.get((t, tg)):
                res.add_violation("the type/value of a scalar depends on its position in the stream (%s vs a lone document)" % cn,
                                  dict(input=[pat for n, pat in ctxs if n == cn][0] % (tg + t), text=t, tag=tg.strip(), context=cn),
                                  here=v[:120], alone=str(ref.get((t, tg)))[:120])
        res.coverage["context_independence"] = dict(texts=len(safe), tags=tags, contexts=[c for c, _ in ctxs], loads=len(ctx_lines))
        res.coverage["traces_validated_against_impl"] = len(cases)
        for i in (5, len(cases) // 4, len(cases) // 2, len(cases) - 7):
            if 0 <= i < len(cases):
                res.samples.append(dict(input=cases[i], impl=impl[i][:160]))
    rule = ("scalar texts: exhaustive strings over the %d-symbol core-literal alphabet, literal words, boundary integers, "
            "random numbers in every spelling, random alphabet strings; each under 13 (style, tag) configurations; "
            "non-trivial = distinct texts whose untagged plain reading is not a string" % len(C08_ALPHA))
    return res.finish(proof, rule)


# ------------------------------------------------------------------------------------------------
# C17 — pull, peek and push agree
# ------------------------------------------------------------------------------------------------
def c17_histories(tier, rng, n_events):
    """histories for one stream: random P/N strings long enough to run past StreamEnd"""
    out = []
    k = 3 if tier == "quick" else 12
    for _ in range(k):
        ln = rng.randrange(1, 2 * n_events + 6)
        out.append("".join(rng.choice("PN") for _ in range(ln)))
    return out


def check_C17(tier, seed):
    res = Result("C17", tier, seed)
    proof = prepare("C17", res, model_tags=("", "C17"))
    rng = gen.rng_for(seed, "C17")
    groups = gen.parse_space(tier, rng)
    if tier == "quick":
        groups = [(l, (items if l != "exhaustive<=3/24" else items[::3])) for l, items in groups]
    # nesting around and beyond the scanner's limits (block 255, flow 255; together up to 510 levels are accepted): the push
    # interface recurses per level and must still tell the iterator's story, error included
    deep = []
    for b_, f_ in ((10, 10), (200, 100), (255, 255), (254, 1), (255, 1), (256, 0), (0, 256), (180, 90), (100, 255), (255, 100), (130, 130)):
        deep.append("- " * b_ + "[" * f_ + "a" + "]" * f_ + "\n")
        deep.append("".join(" " * i + "k:\n" for i in range(b_)) + " " * b_ + "{a: " * f_ + "x" + "}" * f_ + "\n")
        deep.append("? " * b_ + "[" * f_ + "]" * f_ + "\n")
    groups.append(("deep-mixtures", deep))
    cases, dist = dedupe(groups)
    lines = [enc(s) for s in cases]
    res.coverage["input_distribution"] = dict(groups=dist, sizes=size_hist(cases))
    if res.harness_ok and res.model_ok:
        plain = {b: run_hx(["events", b], lines) for b in ("str", "iter")}
        push = {"str:multi": run_hx(["push", "str:multi"], lines), "iter:multi": run_hx(["push", "iter:multi"], lines),
                "str:single": run_hx(["push", "str:single"], lines)}
        # push == pull: same events, spans and error
        for i, s in enumerate(cases):
            res.evaluations += 1
            for k, outs in push.items():
                b = k.split(":")[0]
                if outs[i] != plain[b][i]:
                    res.add_violation("push interface (%s) delivers different events/spans/error than the iterator" % k,
                                      dict(input=s, codepoints=enc(s), api=k), push=outs[i][-600:], pull=plain[b][i][-600:])
        # repeated load(recv, false): per-call segmentation, implementation vs extracted Model/Lazy.v, one document per call
        from .p_c17x import single_calls
        single_calls(res, cases, lines, plain["str"])
        # histories: exhaustive short histories on small streams + random histories everywhere
        hist_cases = []    # (case index, pattern)
        small = [i for i, s in enumerate(cases) if len(split_line(plain["str"][i])[0]) <= 12]
        rng.shuffle(small)
        exh_n = 40 if tier == "quick" else 400
        maxlen = 9 if tier == "quick" else 13
        import itertools
        for i in small[:exh_n]:
            n = len(split_line(plain["str"][i])[0])
            L = min(maxlen, n + 3)
            for ln in range(1, L + 1):
                for t in itertools.product("PN", repeat=ln):
                    hist_cases.append((i, "".join(t)))
        for i in range(len(cases)):
            n = len(split_line(plain["str"][i])[0])
            for h in c17_histories(tier, rng, n):
                hist_cases.append((i, h))
        for backend in ("str", "iter"):
            hl = ["%s#%s" % (h, lines[i]) for i, h in hist_cases]
            got = run_hx(["hist", backend], hl)
            spec_in = []
            for i, h in hist_cases:
                evs, fin = split_line(plain[backend][i])
                kind = "S" if fin == "OK" else "E"
                spec_in.append("%s#%d#%s" % (h, len(evs), kind))
            spec = run_mx(["hist-spec"], spec_in)
            for j, (i, h) in enumerate(hist_cases):
                res.evaluations += 1
                evs, fin = split_line(plain[backend][i])
                exp = []
                for tok in spec[j].split(";") if spec[j] else []:
                    if tok == "NONE":
                        exp.append("NONE")
                    elif tok == "ERR":
                        exp.append(fin)
                    else:
                        exp.append(evs[int(tok)])
                if got[j] != ";".join(exp):
                    res.add_violation("peek/next history disagrees with plain iteration (oracle: extracted spec_run)",
                                      dict(input=cases[i], codepoints=lines[i], history=h, backend=backend),
                                      got=got[j][-500:], expected=";".join(exp)[-500:])
                elif len(evs) >= 4:
                    res.nontrivial.add((i, h))
        res.coverage["histories"] = len(hist_cases)
        res.coverage["traces_validated_against_impl"] = len(hist_cases) * 2
        for j in (0, len(hist_cases) // 2, len(hist_cases) - 1):
            i, h = hist_cases[j]
            res.samples.append(dict(input=cases[i], history=h))
    res.nontrivial = set("%d/%s" % x if isinstance(x, tuple) else x for x in res.nontrivial)
    rule = ("C01 input space + block x flow mixtures around the nesting limits; for each input: push (multi, repeated single) vs iterator on two back-ends; repeated load(false) call by call vs the extracted lazy model (one document per call); peek/next histories: "
            "all P/N strings up to a bound for small streams, random histories for every input; expected results computed by the "
            "extracted Coq specification spec_run from the plain iteration; non-trivial = distinct (input, history) pairs on "
            "streams of >= 4 events that matched")
    return res.finish(proof, rule)


# ------------------------------------------------------------------------------------------------
# shared: one pass over the parse space with every back-end
# ------------------------------------------------------------------------------------------------
BACKENDS = ["str", "iter", "cap8", "cap16", "cap64", "cap128"]


def parse_cases(tier, seed, pid, thin=1):
    rng = gen.rng_for(seed, pid)
    groups = gen.parse_space(tier, rng)
    if thin > 1:
        groups = [(l, (items if not l.startswith("exhaustive") else items[::thin])) for l, items in groups]
    return dedupe(groups)


def markers_of(line):
    """all (i, l, c) markers of an events line, in order, plus the error marker"""
    evs, fin = split_line(line)
    out = []
    for e in evs:
        sp = e.rsplit("@", 1)[1]
        a, b = sp.split("-")
        out.append(a)
        out.append(b)
    if fin.startswith("ERR@"):
        out.append(fin_pos(fin)[4:])
    return out


def strip_index(line):
    """events line with markers reduced to line:col (C14)"""
    import re
    return re.sub(r"(\d+):(\d+):(\d+)", r"\2:\3", line)


# ------------------------------------------------------------------------------------------------
# C01 — parsing always terminates, never panics, linear work
# ------------------------------------------------------------------------------------------------
def nesting_depth(line):
    d = mx = 0
    for e in split_line(line)[0]:
        if e[:2] in ("QS", "MS"):
            d += 1
            mx = max(mx, d)
        elif e[:2] in ("QE", "ME"):
            d -= 1
    return mx


def check_C01(tier, seed):
    res = Result("C01", tier, seed)
    proof = prepare("C01", res)
    cases, dist = parse_cases(tier, seed, "C01")
    # long inputs: linear work must hold beyond the small scope
    rng = gen.rng_for(seed, "C01-long")
    longs = []
    for n in ((2000, 20000) if tier == "quick" else (2000, 20000, 200000)):
        longs += ["- a\n" * (n // 4), "a: b\n" * (n // 5), "[" + "a, " * (n // 3) + "a]", "\"" + "x " * (n // 2) + "\"", "# c\n" * (n // 4),
                  "a" * n, " " * n, "\n" * n, "- " * min(n // 2, 150) + "a", "'" + "a\n" * (n // 2) + "'", "|\n" + " x\n" * (n // 3),
                  "? " * min(n // 2, 150), "k: " * 1 + "v " * (n // 2), "&a " * (n // 3), "!t " * (n // 3), "{" + "a: b, " * (n // 6) + "}",
                  "- [" * min(n // 3, 200) + "]" * min(n // 3, 200), ": " * (n // 2), "- \t" * (n // 3), "a:\n" + " b:\n" * (n // 4)]
        longs += ["".join(rng.choice(gen.TOKENS) for _ in range(n // 3))]
    cases += [s for s in longs if s not in set(cases)]
    dist["long-inputs"] = len(longs)
    lines = [enc(s) for s in cases]
    res.coverage["input_distribution"] = dict(groups=dist, sizes=size_hist(cases))
    apis = []
    if res.harness_ok and res.model_ok:
        runs = {}
        for b in BACKENDS:
            runs["events/" + b] = run_hx(["events", b], lines)
        for b in ("str", "iter", "cap8"):
            runs["push/" + b] = run_hx(["push", b + ":multi"], lines)
            runs["push1/" + b] = run_hx(["push", b + ":single"], lines)
        for t in ("yaml", "owned", "marked", "markedowned"):
            runs["load/" + t] = run_hx(["load", t, "eager"], lines)
            runs["load-deferred/" + t] = run_hx(["load", t, "resolved"], lines)
        hl = ["%s#%s" % ("PNPPN" * 12, l) for l in lines]
        runs["peeknext/str"] = run_hx(["hist", "str"], hl)
        # mixed call histories over peek (P), next (N), load(multi) (L), load(single) (l) on one parser object: whatever the
        # order of the calls, a consumer must get values back (events, None, an error), never a panic or a spin
        hrng = gen.rng_for(seed, "C01-mix")
        fixed = ["LN", "LP", "lllN", "lNl", "PL", "NNL", "lPNl", "LL", "llllP", "NLNL", "PlN", "NlP"]
        mixh = [fixed[i % len(fixed)] if i % 3 == 0 else "".join(hrng.choice("PNNLll") for _ in range(hrng.randrange(2, 20)))
                for i in range(len(lines))]
        for b in ("str", "iter"):
            runs["mixed-history/" + b] = run_hx(["mix", b], ["%s#%s" % (h, l) for h, l in zip(mixh, lines)])
        work = run_hx(["work", "cap16"], lines)
        apis = sorted(runs)
        # the extracted model is run on inputs up to 4000 characters (it is slower than the implementation)
        short = [l if len(cases[i]) <= 4000 else "" for i, l in enumerate(lines)]
        model = {"str": run_mx(["events", "str"], short), "buf16": run_mx(["events", "buf16"], short),
                 "buf8": run_mx(["events", "buf8"], short)}
        worst = 0.0
        known = core.known_findings("C01")
        kf = set()
        for i, s in enumerate(cases):
            res.evaluations += 1
            for k, outs in runs.items():
                o = outs[i]
                fin = o.rsplit("|", 1)[-1] if "|" in o else o
                if "NOTRUN" in fin:
                    continue          # the process died on an earlier case of this shard, which is reported
                if "CRASH" in fin and known and k.split("/")[0] in known[0]["apis"] \
                        and nesting_depth(runs["events/str"][i]) >= known[0]["min_depth"]:
                    kf.add("%s: %s" % (known[0]["class"], known[0]["what"]))
                    continue
                if "PANIC" in fin or "TIMEOUT" in fin or "CRASH" in fin or "SPIN" in fin:
                    res.add_violation("%s panics / aborts / does not terminate" % k,
                                      dict(input=s[:4000], codepoints=lines[i][:20000], api=k,
                                           **(dict(history=mixh[i]) if k.startswith("mixed-history") else {})), impl=o[-300:])
            ph = runs["peeknext/str"][i].split(";")
            seen_end = False
            for j, t in enumerate(ph):
                if seen_end and t != "NONE":
                    res.add_violation("peek/next keep returning events after StreamEnd was consumed: a `while let Some(_) = p.peek()` consumer never stops",
                                      dict(input=s[:4000], codepoints=lines[i][:20000], history="PNPPN x12"), impl=";".join(ph[-6:])[-300:])
                    break
                if t.startswith("SE@") and "PNPPN"[j % 5] == "N":
                    seen_end = True
            w = work[i].split("|")
            if len(w) == 4 and w[0].isdigit():
                n, calls = int(w[0]), int(w[1])
                ratio = calls / (n + 64.0)
                worst = max(worst, ratio)
                if calls > 64 * n + 4096:
                    res.add_violation("work is not linear: %d input calls for %d characters (bound 64 n + 4096)" % (calls, n),
                                      dict(input=s[:4000], codepoints=lines[i][:20000]), impl=work[i])
            else:
                res.add_violation("work counter run failed", dict(input=s[:4000], codepoints=lines[i][:20000]), impl=work[i][-300:])
            # model monitors: the model's explicit Panic / OutOfFuel outcomes
            impl_line = runs["events/str"][i]
            for mk, outs in model.items():
                if len(s) > 4000:
                    continue
                m = outs[i]
                mfin = m.rsplit("|", 1)[-1]
                if mfin.startswith("MODEL"):
                    res.add_tie_break("model monitor: the %s model run ended in %s" % (mk, mfin), case=s[:2000])
                elif proj_kinds(m) != proj_kinds(impl_line) or fin_pos(mfin) != fin_pos(impl_line.rsplit("|", 1)[-1]):
                    res.add_tie_break("correspondence: %s model != implementation (event kinds / verdict / error position)" % mk,
                                      case=s[:2000], model=proj_kinds(m)[-300:] + " " + fin_pos(mfin), impl=proj_kinds(impl_line)[-300:])
            evs, _ = split_line(impl_line)
            if len(evs) >= 5:
                res.nontrivial.add(s)
        res.known += sorted(kf)
        res.coverage["apis"] = apis
        res.coverage["worst_calls_per_char"] = round(worst, 2)
        res.coverage["traces_validated_against_impl"] = len(cases) * 3
        for i in (3, len(cases) // 2, len(cases) - 3):
            res.samples.append(dict(input=cases[i][:200], work=work[i]))
    rule = ("C01 input space + long repetitive inputs, x 6 input back-ends (string, iterator, contract-checking inputs of capacity "
            "8/16/64/128) x {iterator, push multi/single, peek+next, mixed peek/next/load histories, 4 loaders eager and deferred}; per-case panic capture, process "
            "crash detection, input-call counting; non-trivial = distinct inputs whose stream has >= 5 events")
    return res.finish(proof, rule)


# ------------------------------------------------------------------------------------------------
# C10 — all input back-ends behave identically
# ------------------------------------------------------------------------------------------------
def check_C10(tier, seed):
    res = Result("C10", tier, seed)
    proof = prepare("C10", res)
    cases, dist = parse_cases(tier, seed, "C10")
    rng = gen.rng_for(seed, "C10-wide")
    # the code paths that branch on buffer state: wide block-scalar indentation, long plain scalars, long lines
    wide = []
    for ind in (5, 6, 7, 13, 14, 15, 16, 17, 30, 62, 63, 64, 65, 126, 127, 130):
        wide += ["a:\n" + " " * ind + "b: |\n" + " " * (ind + 2) + "text\n" + " " * (ind + 2) + "more\n",
                 "- |" + str(min(ind, 9)) + "\n" + " " * ind + "x\n", " " * ind + "k: >\n" + " " * (ind + 1) + "f\n\n" + " " * (ind + 1) + "g\n",
                 "k: " + "p" * ind + " " + "q" * ind + "\n", "\"" + "d" * ind + "\\u00e9" + "e" * ind + "\"", "'" + "s" * ind + "''" + "t" * ind + "'",
                 "# " + "c" * ind + "\nv", "- " + "\u00e9" * ind + ": " + "\U0001f600" * ind + "\n", "|\n" + " " * ind + "\n" + " " * (ind + 1) + "z\n",
                 "a:\n" + " " * ind + "- b\n" + " " * ind + "- |\n" + " " * (ind + 3) + "t\n"]
    cases += [s for s in wide if s not in set(cases)]
    dist["buffer-boundary"] = len(wide)
    lines = [enc(s) for s in cases]
    res.coverage["input_distribution"] = dict(groups=dist, sizes=size_hist(cases))
    if res.harness_ok and res.model_ok:
        # every public Input method of the real StrInput vs the extracted byte-level model (Model/StrBytes.v) and the generic
        # definitions, on short strings with 1- to 4-byte characters at every offset
        from .p_c10x import str_methods
        str_methods(res, cases, lines)
        impl = {b: run_hx(["events", b], lines) for b in BACKENDS}
        model = {"str": run_mx(["events", "str"], lines), "buf16": run_mx(["events", "buf16"], lines),
                 "buf8": run_mx(["events", "buf8"], lines), "buf64": run_mx(["events", "buf64"], lines)}
        for i, s in enumerate(cases):
            res.evaluations += 1
            ref = impl["str"][i]
            for b in BACKENDS[1:]:
                if impl[b][i] != ref:
                    res.add_violation("back-end %s differs from the string back-end (events, spans or error message/position)" % b,
                                      dict(input=s, codepoints=lines[i], backend=b), other=impl[b][i][-600:], string_backend=ref[-600:])
            # model: the buffered instances equal the string instance, and the implementation (positions included)
            mref = model["str"][i]
            for mk in ("buf16", "buf8", "buf64"):
                if model[mk][i] != mref:
                    res.add_tie_break("model: %s instance differs from the str instance" % mk, case=s, a=model[mk][i][-300:], b=mref[-300:])
            me, mf = split_line(mref)
            ie, if_ = split_line(ref)
            if me != ie or fin_pos(mf) != fin_pos(if_):
                res.add_tie_break("correspondence: model pipeline != implementation (events with text, tags, spans; error position)",
                                  case=s, model=mref[-400:], impl=ref[-400:])
            if len(ie) >= 5:
                res.nontrivial.add(s)
        res.coverage["backends"] = BACKENDS
        res.coverage["traces_validated_against_impl"] = len(cases)
        for i in (3, len(cases) // 2, len(cases) - 3):
            res.samples.append(dict(input=cases[i][:200], events=impl["str"][i][:300]))
    rule = ("C01 input space + inputs built around the buffer-dependent paths (indentation and run lengths around every capacity) on "
            "StrInput, BufferedInput and contract-checking inputs of capacity 8/16/64/128: complete event lines (text, tags, spans, "
            "error message and position) must be identical; the model's str/buf8/buf16/buf64 instances likewise and equal to the "
            "implementation; non-trivial = distinct inputs with >= 5 events")
    return res.finish(proof, rule)


# ------------------------------------------------------------------------------------------------
# C12 — reported positions are true positions
# ------------------------------------------------------------------------------------------------
def span_checks(s, line):
    """structural span facts on one events line; returns a list of failure descriptions"""
    evs, fin = split_line(line)
    bad = []
    stack = []
    for e in evs:
        body, sp = e.rsplit("@", 1)
        a, b = sp.split("-")
        ai, al, ac = map(int, a.split(":"))
        bi, bl, bc = map(int, b.split(":"))
        if ai > bi:
            bad.append("span starts after it ends: " + e)
        if body.startswith(("QS", "MS")):
            if stack and ai < stack[-1]:
                bad.append("nested node starts before its parent: " + e)
            stack.append(ai)
        elif body in ("QE", "ME"):
            if stack:
                st = stack.pop()
                if bi < st:
                    bad.append("collection ends before it starts: " + e)
        elif body.startswith("SC") or body.startswith("AL"):
            if stack and ai < stack[-1]:
                bad.append("nested node starts before its parent: " + e)
        if body.startswith("SC"):
            parts = body[2:].split(",")
            style = parts[0]
            txt = "".join(chr(int(x)) for x in parts[-1].split(".")) if parts[-1] else ""
            if style == "P" and txt and "\n" not in txt and al == bl:
                # nodes the syntax leaves out are reported as the plain scalar "~" at the position of the next token
                if s[ai:bi] != txt and txt != "~":
                    bad.append("plain one-line scalar span does not cover exactly its text: " + e)
            if style in ("S", "D") and bi <= len(s):
                q = "'" if style == "S" else "\""
                if not (ai < len(s) and s[ai] == q):
                    bad.append("quoted scalar span does not start at its opening quote: " + e)
                elif q not in s[ai + 1:bi]:
                    bad.append("quoted scalar span does not contain its closing quote: " + e)
    return bad


def check_C12(tier, seed):
    res = Result("C12", tier, seed)
    proof = prepare("C12", res)
    cases, dist = parse_cases(tier, seed, "C12")
    rng = gen.rng_for(seed, "C12-uni")
    uni = []
    for _ in range(1500 if tier == "quick" else 30000):
        k = 1 + rng.randrange(10)
        uni.append("".join(rng.choice(gen.TOKENS + ["\u00e9: \u4e2d\n", "\U0001f600", "- \u00fc\r\n", "\"\u00e9\\n\"", "# \u4e2d\r", "k:  v   # c\r\n"]) for _ in range(k)))
    cases += [s for s in uni if s not in set(cases)]
    dist["multibyte/crlf soups"] = len(uni)
    # a small dedicated stream for the recorded finding (embedded NUL): kept apart from the main stream
    nul = ["a\0b", "a: 1\0", "- a\n\0\n- b\n", "k: [a,\0b]\n", "\"q\0\"", "# c\0\nx"]
    cases += nul
    dist["embedded-nul (known finding stream)"] = len(nul)
    known12 = core.known_findings("C12")
    kf12 = set()
    lines = [enc(s) for s in cases]
    res.coverage["input_distribution"] = dict(groups=dist, sizes=size_hist(cases))
    if res.harness_ok and res.model_ok:
        impl = {b: run_hx(["events", b], lines) for b in ("str", "iter")}
        disp = run_hx(["display"], lines)
        # node spans must not depend on the loading mode: eager, deferred (early_parse(false)) and deferred-then-resolved
        marked = {t + ("" if mode == "eager" else "/" + mode): run_hx(["load", t, mode + "+spans"], lines)
                  for t in ("marked", "markedowned") for mode in ("eager", "deferred", "resolved")}
        model = run_mx(["events", "str"], lines)
        nmark = 0
        import re
        for b in impl:
            ml = ["%s#%s" % (lines[i], ",".join(markers_of(impl[b][i]))) for i in range(len(cases))]
            verd = run_mx(["markers"], ml)
            for i, s in enumerate(cases):
                res.evaluations += 1
                ms = markers_of(impl[b][i])
                nmark += len(ms)
                v = verd[i]
                if (len(v) != len(ms) or "0" in v) and known12 and "\0" in s:
                    kf12.add("%s: %s" % (known12[0]["class"], known12[0]["what"]))
                elif len(v) != len(ms) or "0" in v:
                    k = v.find("0") if len(v) == len(ms) else -1
                    res.add_violation("a reported position is outside the input or its line/column is not the true one (back-end %s): %s"
                                      % (b, ms[k] if k >= 0 else v[:80]), dict(input=s, codepoints=lines[i], backend=b), impl=impl[b][i][-500:])
                for f in span_checks(s, impl[b][i]):
                    res.add_violation("span shape (back-end %s): %s" % (b, f), dict(input=s, codepoints=lines[i], backend=b), impl=impl[b][i][-500:])
        for i, s in enumerate(cases):
            evs, fin = split_line(impl["str"][i])
            # printed form of the error: "<info> at byte I line L column C+1"
            if fin.startswith("ERR@"):
                I, L, C = fin_pos(fin)[4:].split(":")
                want = "%s at byte %s line %s column %d" % (core.fin_msg(fin), I, L, int(C) + 1)
                got = disp[i].split("#", 1)[-1]
                if got != want:
                    res.add_violation("printed error does not show the line and the 1-based column", dict(input=s, codepoints=lines[i]),
                                      printed=got, expected=want)
            elif disp[i] != "OK":
                res.add_violation("display run disagrees with iteration", dict(input=s, codepoints=lines[i]), printed=disp[i])
            # marked nodes carry the span of the event that created them
            if fin == "OK":
                want = [e.rsplit("@", 1)[1] for e in evs if e[:2] in ("SC", "QS", "MS", "AL")]
                for t, outs in marked.items():
                    if not outs[i].startswith("OK"):
                        res.add_violation("marked load fails where iteration succeeds", dict(input=s, codepoints=lines[i], node=t), impl=outs[i][-300:])
                        continue
                    got = sorted(re.findall(r"@(\d+:\d+:\d+-\d+:\d+:\d+)", outs[i]))
                    # alias copies inside the copied subtree keep the spans of the original nodes; the copy's root gets the alias span.
                    # every node span must be the span of some node-creating event, and every such event's span must appear
                    miss = [x for x in set(want) if x not in got and not any(e.startswith("DE") for e in [])]
                    extra = [x for x in set(got) if x not in want]
                    empty_docs = sum(1 for k in range(len(evs) - 1) if evs[k].startswith("DS") and evs[k + 1].startswith("DE"))
                    # a later duplicate key replaces the earlier value (its node, hence its span, is dropped): spans may only
                    # go missing in documents that contain mappings
                    if "M{" in outs[i]:
                        miss = []
                    if (miss or extra) and not empty_docs:
                        res.add_violation("marked nodes do not carry the spans of their creating events (%s)" % t,
                                          dict(input=s, codepoints=lines[i], node=t), missing=miss[:5], extra=extra[:5], impl=outs[i][-400:])
            me, mf = split_line(model[i])
            if me != evs or fin_pos(mf) != fin_pos(fin):
                res.add_tie_break("correspondence: model pipeline != implementation (spans and error position included)", case=s,
                                  model=model[i][-400:], impl=impl["str"][i][-400:])
            if len(evs) >= 5:
                res.nontrivial.add(s)
        res.known += sorted(kf12)
        res.coverage["markers_checked"] = nmark
        res.coverage["traces_validated_against_impl"] = len(cases)
        for i in (3, len(cases) // 2, len(cases) - 3):
            res.samples.append(dict(input=cases[i][:200], markers=markers_of(impl["str"][i])[:12]))
    rule = ("C01 input space + multi-byte/CRLF soups; every marker of every event span and error of both back-ends is recounted by "
            "the extracted Coq marker_ok; span-shape rules; Display of errors; MarkedYaml / MarkedYamlOwned node spans vs event spans; "
            "non-trivial = distinct inputs with >= 5 events")
    return res.finish(proof, rule)


# ------------------------------------------------------------------------------------------------
# C14 — line-break style does not change the parse
# ------------------------------------------------------------------------------------------------
def check_C14(tier, seed):
    res = Result("C14", tier, seed)
    proof = prepare("C14", res)
    cases, dist = parse_cases(tier, seed, "C14")
    cases = [s for s in cases if "\r" not in s]
    base = [enc(s) for s in cases]
    crlf = [enc(s.replace("\n", "\r\n")) for s in cases]
    cr = [enc(s.replace("\n", "\r")) for s in cases]
    res.coverage["input_distribution"] = dict(groups=dist, sizes=size_hist(cases), cr_free=len(cases))
    if res.harness_ok and res.model_ok:
        for b in ("str", "iter"):
            r0 = run_hx(["events", b], base)
            r1 = run_hx(["events", b], crlf)
            r2 = run_hx(["events", b], cr)
            for i, s in enumerate(cases):
                res.evaluations += 1
                a = strip_index(r0[i])
                for name, r in (("CRLF", r1), ("CR", r2)):
                    if strip_index(r[i]) != a:
                        res.add_violation("replacing LF by %s changes events, text, line/column or the error (back-end %s)" % (name, b),
                                          dict(input=s, codepoints=base[i], substitution=name, backend=b),
                                          lf=a[-500:], other=strip_index(r[i])[-500:])
                if b == "str" and "\n" in s and len(split_line(r0[i])[0]) >= 4:
                    res.nontrivial.add(s)
        m0 = run_mx(["events", "str"], base)
        m1 = run_mx(["events", "str"], crlf)
        r1 = run_hx(["events", "str"], crlf)
        for i, s in enumerate(cases):
            me, mf = split_line(m1[i])
            ie, if_ = split_line(r1[i])
            if me != ie or fin_pos(mf) != fin_pos(if_):
                res.add_tie_break("correspondence on the CRLF image: model != implementation", case=s, model=m1[i][-300:], impl=r1[i][-300:])
        res.coverage["traces_validated_against_impl"] = len(cases)
        for i in (3, len(cases) // 2, len(cases) - 3):
            res.samples.append(dict(input=cases[i][:200]))
    rule = ("every CR-free input of the C01 space, parsed as is, with LF->CRLF and with LF->CR, on two back-ends; compared: complete "
            "event lines (kinds, scalar text, tags, anchors) with every marker reduced to line:column, and the verdict with error message "
            "and line:column; non-trivial = distinct multi-line inputs with >= 4 events")
    return res.finish(proof, rule)


# ------------------------------------------------------------------------------------------------
# C15 — documents in a stream are independent
# ------------------------------------------------------------------------------------------------
def ev_body_renum(e, off):
    """event without span, anchor/alias ids shifted by off"""
    b = e.rsplit("@", 1)[0]
    if b.startswith("AL"):
        return "AL%d" % (int(b[2:]) + off)
    if b.startswith("SC"):
        parts = b[2:].split(",", 2)
        a = int(parts[1])
        return "SC%s,%d,%s" % (parts[0], a + off if a else 0, parts[2])
    if b[:2] in ("QS", "MS"):
        parts = b[2:].split(",", 1)
        a = int(parts[0])
        return "%s%d,%s" % (b[:2], a + off if a else 0, parts[1])
    return b


def max_anchor(evs):
    m = 0
    for e in evs:
        b = e.rsplit("@", 1)[0]
        if b.startswith("SC"):
            m = max(m, int(b[2:].split(",", 2)[1]))
        elif b[:2] in ("QS", "MS"):
            m = max(m, int(b[2:].split(",", 1)[0]))
    return m


# Regression inputs of the repaired class "empty-key-flow-pair-after-flow-mapping" (/repo ad74b3e: the scanner's sticky
# flow_mapping_started flag is gone; the implicit-flow-mapping state lives in a per-collection stack that is empty between
# documents).  Each entry is a list of accepted parts; the parts are concatenated with "...\n" like every other
# combination and go through the same oracle: a failure is a VIOLATION.
C15_REGRESSION_PARTS = [
    ["{x}\n", "[ : ]\n"],
    ["[ ? a ]\n", "[ : c ]\n"],
    ["{}\n", "[ : v ]\n"],
    ["{a: b}\n", "[ a: b, : c, d ]\n"],
    ["[ ? ]\n", "[ : ]\n"],
    ["- {}\n", "- [ : v ]\n", "[ a: b ]\n"],
    ["? {a: [b]}\n: c\n", "[ : v, w ]\n", "{ ? }\n", "[ : ]\n"],
    ["--- {x}\n", "--- [ : ]\n"],
]
# the same class without a '...' line: the next document is opened by '---' directly
C15_REGRESSION_DIRECT = [
    ("{x}\n", "---\n[ : ]\n"),
    ("[ ? a ]\n", "---\n[ : c ]\n"),
    ("{}\n", "--- [ : v ]\n"),
]


def c15_expected(single_lines, off0=0):
    """expected event bodies of a concatenation: the parts' inner events with anchor ids renumbered"""
    exp = ["SS"]
    off = off0
    for line in single_lines:
        inner = split_line(line)[0][1:-1]
        exp += [ev_body_renum(e, off) for e in inner]
        off += max_anchor(inner)
    exp.append("SE")
    return exp


def check_C15(tier, seed):
    res = Result("C15", tier, seed)
    proof = prepare("C15", res)
    rng = gen.rng_for(seed, "C15")
    cases, dist = parse_cases(tier, seed, "C15", thin=4)
    # parts that begin with U+FEFF: the scanner keeps the mark as content wherever it stands (known C18 class), so a part
    # must read the same at the start of the stream and behind a '...' line
    bom_rng = gen.rng_for(seed, "C15-bom")
    cases += ["\ufeff" + s for s in bom_rng.sample(cases, min(len(cases), 300 if tier == "quick" else 5000)) if not s.startswith("\ufeff")]
    # dedicated regression streams (repaired class, see C15_REGRESSION_PARTS): appended to the case list so that they are
    # parsed on their own like every other part
    reg_index = {}
    for part in [x for parts in C15_REGRESSION_PARTS for x in parts] + [x for pair in C15_REGRESSION_DIRECT for x in pair]:
        if part not in reg_index:
            reg_index[part] = len(cases)
            cases.append(part)
    lines = [enc(s) for s in cases]
    if res.harness_ok and res.model_ok:
        single = run_hx(["events", "str"], lines)
        acc = [i for i in range(len(cases)) if single[i].endswith("|OK")]
        accA = [i for i in acc if cases[i].endswith(("\n", "\r"))]
        for part, i in sorted(reg_index.items(), key=lambda kv: kv[1]):
            res.evaluations += 1
            if not single[i].endswith("|OK"):
                res.add_violation("regression stream of the repaired flow-mapping-state class is not accepted on its own",
                                  dict(input=part, codepoints=lines[i]), got=single[i][-300:])
        # anchors / directives / open-looking endings first: the interesting state carriers
        def interesting(i):
            s = cases[i]
            return ("&" in s) + ("%" in s) + ("*" in s) + ("|" in s or ">" in s) + ("[" in s or "{" in s) + ("\n " in s)
        accA.sort(key=lambda i: -interesting(i))
        hot = accA[:400]
        n_pairs = 6000 if tier == "quick" else 200000
        # the regression combinations come first (they are then also part of the model/implementation correspondence below)
        combos = [[reg_index[x] for x in parts] for parts in C15_REGRESSION_PARTS
                  if all(single[reg_index[x]].endswith("|OK") for x in parts)]
        n_reg = len(combos)
        for _ in range(n_pairs):
            k = rng.choice([2, 2, 2, 3, 4])
            parts = [rng.choice(hot if rng.random() < 0.5 else accA) for _ in range(k - 1)] + [rng.choice(acc)]
            combos.append(parts)
        texts = ["...\n".join(cases[i] for i in parts[:-1]) + "...\n" + cases[parts[-1]] for parts in combos]
        # A ends with a break, so the marker sits on its own line
        n_marker = len(combos)
        # direct concatenations (no '...' line; the second part opens its document with '---'): regression streams only
        for (x, y) in C15_REGRESSION_DIRECT:
            if single[reg_index[x]].endswith("|OK") and single[reg_index[y]].endswith("|OK"):
                combos.append([reg_index[x], reg_index[y]])
                texts.append(x + y)
        tl = [enc(t) for t in texts]
        for b in ("str", "iter"):
            got = run_hx(["events", b], tl)
            for j, parts in enumerate(combos):
                res.evaluations += 1
                exp = c15_expected([single[i] for i in parts])
                gevs, gfin = split_line(got[j])
                g = [ev_body_renum(e, 0) for e in gevs]
                if gfin != "OK" or g != exp:
                    # no class of failures is excused any more: the flow_mapping_started leak (the one former known class,
                    # repaired by /repo ad74b3e) is a VIOLATION like any other dependence between documents
                    what = ("concatenation with document-end marker lines does not parse to the documents of the parts (%s)" % b
                            if j < n_marker else
                            "a stream followed by a '---' document does not parse to the documents of the parts (%s)" % b)
                    if j < n_reg or j >= n_marker:
                        what += " [regression stream of the repaired flow-mapping-state class]"
                    res.add_violation(what, dict(input=texts[j], codepoints=tl[j], parts=[cases[i] for i in parts], backend=b),
                                      got=";".join(g)[-600:] + "|" + gfin, expected=";".join(exp)[-600:])
                    continue
                if b == "str" and sum(interesting(i) for i in parts) >= 2:
                    res.nontrivial.add(texts[j])
        # through the loading interface: no anchor of an earlier document resolves in a later one
        probes = []
        for i in hot[:300]:
            if "&" in cases[i]:
                import re
                for name in set(re.findall(r"&([A-Za-z0-9]+)", cases[i])):
                    probes.append(cases[i] + "...\n*" + name + "\n")
                    probes.append(cases[i] + "--- *" + name + "\n")
        if probes:
            pl = [enc(t) for t in probes]
            ld = run_hx(["load", "yaml", "eager"], pl)
            it = run_hx(["events", "str"], pl)
            for j, t in enumerate(probes):
                res.evaluations += 1
                pe = [e.rsplit("@", 1)[0] for e in split_line(it[j])[0]]
                # the probe document really is a lone alias (the text was not swallowed by an open scalar) and was accepted
                lone_alias = len(pe) >= 5 and pe[-3].startswith("AL") and pe[-4].startswith("DS") and pe[-2] == "DE"
                if lone_alias and (it[j].endswith("|OK") or not ld[j].startswith("ERR")):
                    res.add_violation("an alias resolved through an anchor of an earlier document", dict(input=t, codepoints=pl[j]),
                                      load=ld[j][-300:], events=it[j][-300:])
        m = run_mx(["events", "str"], tl[:3000])
        g = run_hx(["events", "str"], tl[:3000])
        for j in range(len(m)):
            me, mf = split_line(m[j])
            ie, if_ = split_line(g[j])
            if me != ie or fin_pos(mf) != fin_pos(if_):
                res.add_tie_break("correspondence on concatenated streams: model != implementation", case=texts[j], model=m[j][-300:], impl=g[j][-300:])
        res.coverage["input_distribution"] = dict(groups=dist, accepted=len(acc), accepted_ending_in_break=len(accA), concatenations=len(combos),
                                                  regression_streams=n_reg + len(combos) - n_marker, cross_document_alias_probes=len(probes))
        res.coverage["traces_validated_against_impl"] = len(m)
        for j in (0, len(texts) // 2, len(texts) - 1):
            res.samples.append(dict(input=texts[j][:300]))
    rule = ("accepted streams of the C01 space (suite, soups, line soups, mutations, exhaustive) concatenated 2-4 at a time with a "
            "document-end marker line; expected events = events of the parts with anchor ids renumbered; cross-document alias probes "
            "through iterator and loader; non-trivial = distinct concatenations whose parts carry anchors, directives, block scalars, flow "
            "collections or indentation")
    return res.finish(proof, rule)
