"""One check_<id>(tier, seed) per property."""
import json
import os

from . import core, gen
from .core import (Result, dec, enc, ev_kind, fin_pos, prepare, run_hx, run_mx, split_line)


def dedupe(groups):
    seen = set()
    cases, dist = [], {}
    for label, items in groups:
        n = 0
        for s in items:
            if s not in seen:
                seen.add(s)
                cases.append(s)
                n += 1
        dist[label] = n
    return cases, dist


def verdict_class(fin):
    if fin == "OK":
        return "OK"
    if fin.startswith("ERR"):
        return "ERR"
    return fin      # PANIC / TIMEOUT / CRASH / MODELPANIC ... kept verbatim: always a mismatch or a violation


def abnormal(fin):
    return not (fin == "OK" or fin.startswith("ERR") or fin == "END")


def size_hist(cases):
    h = {}
    for s in cases:
        b = "0" if not s else "1-4" if len(s) <= 4 else "5-16" if len(s) <= 16 else "17-64" if len(s) <= 64 else "65+"
        h[b] = h.get(b, 0) + 1
    return h


# ------------------------------------------------------------------------------------------------
# C02 — events form a well-nested sentence
# ------------------------------------------------------------------------------------------------
def proj_kinds(line):
    evs, fin = split_line(line)
    return ";".join(ev_kind(e) for e in evs) + "|" + verdict_class(fin)


def anchors_ok(evs):
    """ids positive, strictly increasing as handed out, aliases refer to an id handed out earlier"""
    mx = 0
    for e in evs:
        k = ev_kind(e)
        if k.startswith("AL"):
            i = int(k[2:])
            if not (1 <= i <= mx):
                return False
        elif k[:2] in ("SC", "QS", "MS") and "," in k:
            a = int(k.split(",")[1])
            if a != 0:
                if a <= mx:
                    return False
                mx = a
    return True


def check_C02(tier, seed):
    res = Result("C02", tier, seed)
    proof = prepare("C02", res)
    rng = gen.rng_for(seed, "C02")
    cases, dist = dedupe(gen.parse_space(tier, rng))
    lines = [enc(s) for s in cases]
    res.coverage["input_distribution"] = dict(groups=dist, sizes=size_hist(cases))
    if res.harness_ok and res.model_ok:
        impl = {b: run_hx(a, lines) for b, a in (("str", ["events", "str"]), ("iter", ["events", "iter"]),
                                                 ("push", ["push", "str:multi"]))}
        toks = run_hx(["tokens"], lines)
        m_tok = run_mx(["parse-tokens"], toks)
        m_full = run_mx(["events", "str"], lines)
        verd = {b: run_mx(["grammar"], impl[b]) for b in impl}
        errs = {}
        for i, s in enumerate(cases):
            res.evaluations += 1
            evs, fin = split_line(impl["str"][i])
            kinds = proj_kinds(impl["str"][i])
            if sum(1 for e in evs if e[:2] in ("QS", "MS")) >= 1 or sum(1 for e in evs if e.startswith("SC")) >= 2:
                res.nontrivial.add(kinds)
            errs[verdict_class(fin)] = errs.get(verdict_class(fin), 0) + 1
            # the property itself, on the implementation's output (oracle = extracted acceptor)
            for b in impl:
                bevs, bfin = split_line(impl[b][i])
                v = verd[b][i].split()
                ok = len(v) == 2 and v[0] == "1" and (bfin != "OK" or v[1] == "1") and not abnormal(bfin)
                ok = ok and anchors_ok(bevs)
                if not ok:
                    res.add_violation("events of back-end %s are not a sentence prefix / complete sentence / anchor ids wrong" % b,
                                      dict(input=s, codepoints=enc(s), backend=b), impl=impl[b][i], oracle=verd[b][i])
            # the tie: model parser on the real token stream, and the whole model pipeline
            if abnormal(split_line(toks[i])[1]):
                res.add_tie_break("token hook output abnormal", case=s, out=toks[i][-200:])
            elif proj_kinds(m_tok[i]) != kinds:
                res.add_tie_break("correspondence: model parser on real tokens != real events (kinds, anchor ids, verdict)",
                                  case=s, model=proj_kinds(m_tok[i]), impl=kinds)
            if proj_kinds(m_full[i]) != kinds:
                res.add_tie_break("correspondence: model pipeline != real events (kinds, anchor ids, verdict)",
                                  case=s, model=proj_kinds(m_full[i]), impl=kinds)
        res.coverage["verdicts"] = errs
        res.coverage["traces_validated_against_impl"] = len(cases)
        for i in (3, len(cases) // 3, len(cases) // 2, len(cases) - 5):
            if 0 <= i < len(cases):
                res.samples.append(dict(input=cases[i], events=proj_kinds(impl["str"][i])))
    rule = ("C01 input space (exhaustive small strings over the indicator alphabet, token soups, line soups, "
            "yaml-test-suite with CRLF/truncation variants, mutated suite); non-trivial = distinct event-kind "
            "sequences with at least one collection or two scalars")
    return res.finish(proof, rule)


def replay(pid, path):
    d = json.load(open(path if os.path.isabs(path) else os.path.join(core.VERIF, path)))
    print(json.dumps(d, indent=1)[:4000])
    return 0
