"""One check_<id>(tier, seed) per property."""
import json
import os

from . import core, gen
from .core import (Result, dec, enc, ev_kind, fin_pos, prepare, run_hx, run_mx, split_line)


def dedupe(groups):
    seen = set()
    cases, dist = [], {}
    for label, items in groups:
        n = 0
        for s in items:
            if s not in seen:
                seen.add(s)
                cases.append(s)
                n += 1
        dist[label] = n
    return cases, dist


def verdict_class(fin):
    if fin == "OK":
        return "OK"
    if fin.startswith("ERR"):
        return "ERR"
    return fin      # PANIC / TIMEOUT / CRASH / MODELPANIC ... kept verbatim: always a mismatch or a violation


def abnormal(fin):
    return not (fin == "OK" or fin.startswith("ERR") or fin == "END")


def size_hist(cases):
    h = {}
    for s in cases:
        b = "0" if not s else "1-4" if len(s) <= 4 else "5-16" if len(s) <= 16 else "17-64" if len(s) <= 64 else "65+"
        h[b] = h.get(b, 0) + 1
    return h


# ------------------------------------------------------------------------------------------------
# C02 — events form a well-nested sentence
# ------------------------------------------------------------------------------------------------
def proj_kinds(line):
    evs, fin = split_line(line)
    return ";".join(ev_kind(e) for e in evs) + "|" + verdict_class(fin)


def anchors_ok(evs):
    """ids positive, strictly increasing as handed out, aliases refer to an id handed out earlier"""
    mx = 0
    for e in evs:
        k = ev_kind(e)
        if k.startswith("AL"):
            i = int(k[2:])
            if not (1 <= i <= mx):
                return False
        elif k[:2] in ("SC", "QS", "MS") and "," in k:
            a = int(k.split(",")[1])
            if a != 0:
                if a <= mx:
                    return False
                mx = a
    return True


def check_C02(tier, seed):
    res = Result("C02", tier, seed)
    proof = prepare("C02", res)
    rng = gen.rng_for(seed, "C02")
    cases, dist = dedupe(gen.parse_space(tier, rng))
    lines = [enc(s) for s in cases]
    res.coverage["input_distribution"] = dict(groups=dist, sizes=size_hist(cases))
    if res.harness_ok and res.model_ok:
        impl = {b: run_hx(a, lines) for b, a in (("str", ["events", "str"]), ("iter", ["events", "iter"]),
                                                 ("push", ["push", "str:multi"]))}
        toks = run_hx(["tokens"], lines)
        m_tok = run_mx(["parse-tokens"], toks)
        m_full = run_mx(["events", "str"], lines)
        verd = {b: run_mx(["grammar"], impl[b]) for b in impl}
        errs = {}
        for i, s in enumerate(cases):
            res.evaluations += 1
            evs, fin = split_line(impl["str"][i])
            kinds = proj_kinds(impl["str"][i])
            if sum(1 for e in evs if e[:2] in ("QS", "MS")) >= 1 or sum(1 for e in evs if e.startswith("SC")) >= 2:
                res.nontrivial.add(kinds)
            errs[verdict_class(fin)] = errs.get(verdict_class(fin), 0) + 1
            # the property itself, on the implementation's output (oracle = extracted acceptor)
            for b in impl:
                bevs, bfin = split_line(impl[b][i])
                v = verd[b][i].split()
                ok = len(v) == 2 and v[0] == "1" and (bfin != "OK" or v[1] == "1") and not abnormal(bfin)
                ok = ok and anchors_ok(bevs)
                if not ok:
                    res.add_violation("events of back-end %s are not a sentence prefix / complete sentence / anchor ids wrong" % b,
                                      dict(input=s, codepoints=enc(s), backend=b), impl=impl[b][i], oracle=verd[b][i])
            # the tie: model parser on the real token stream, and the whole model pipeline
            if abnormal(split_line(toks[i])[1]):
                res.add_tie_break("token hook output abnormal", case=s, out=toks[i][-200:])
            elif proj_kinds(m_tok[i]) != kinds:
                res.add_tie_break("correspondence: model parser on real tokens != real events (kinds, anchor ids, verdict)",
                                  case=s, model=proj_kinds(m_tok[i]), impl=kinds)
            if proj_kinds(m_full[i]) != kinds:
                res.add_tie_break("correspondence: model pipeline != real events (kinds, anchor ids, verdict)",
                                  case=s, model=proj_kinds(m_full[i]), impl=kinds)
        res.coverage["verdicts"] = errs
        res.coverage["traces_validated_against_impl"] = len(cases)
        for i in (3, len(cases) // 3, len(cases) // 2, len(cases) - 5):
            if 0 <= i < len(cases):
                res.samples.append(dict(input=cases[i], events=proj_kinds(impl["str"][i])))
    rule = ("C01 input space (exhaustive small strings over the indicator alphabet, token soups, line soups, "
            "yaml-test-suite with CRLF/truncation variants, mutated suite); non-trivial = distinct event-kind "
            "sequences with at least one collection or two scalars")
    return res.finish(proof, rule)


def replay(pid, path):
    d = json.load(open(path if os.path.isabs(path) else os.path.join(core.VERIF, path)))
    print(json.dumps(d, indent=1)[:4000])
    return 0


# ------------------------------------------------------------------------------------------------
# C08 — core-schema scalar typing
# ------------------------------------------------------------------------------------------------
C08_ALPHA = "0123456789+-.eExoabcdfABCDF_nulNULtrTRsSiIyY~"     # characters that occur in core-schema literals
C08_ALPHA_SMALL = "0179+-.eExoaAfF_nulNULtri~"
C08_CONFIGS = ["plain", "plain!!int", "plain!!float", "plain!!bool", "plain!!null", "plain!!str", "plain!foo",
               "single", "double", "literal", "folded", "double!!int", "plain!!binary"]


def c08_float_class(d):
    """canonical class of a float dump from either side: nan, or the sign (an exact decimal of the model may
    round to a finite double, to zero or to infinity: the value itself is certified by the oracle)"""
    if d == "Fnan":
        return "Fnan"
    if d == "Finf":
        return "F+"
    if d == "F-inf":
        return "F-"
    if d.startswith("Fd") and "^" in d:
        return "F-" if d.startswith("Fd-") else "F+"
    if d.startswith("F") and len(d) == 17:
        bits = int(d[1:], 16)
        ex = (bits >> 52) & 0x7ff
        frac = bits & ((1 << 52) - 1)
        if ex == 0x7ff and frac:
            return "Fnan"
        return "F-" if bits >> 63 else "F+"
    return d


def c08_canon(line):
    body = line.rsplit(";", 1)[0]
    return "|".join(c08_float_class(x) for x in body.split("|"))


def c08_cases(tier, rng):
    groups = []
    groups.append(("corpus", gen.corpus_file("resolver_seeds.jsonl")))
    words = ["null", "Null", "NULL", "~", "true", "True", "TRUE", "false", "False", "FALSE", ".inf", ".Inf", ".INF", "+.inf",
             "-.inf", "-.Inf", "-.INF", "+.INF", ".nan", ".NaN", ".NAN", "inf", "nan", "NaN", "infinity", "Infinity", "+inf",
             "-Infinity", "0x", "0o", "0x+1", "0x-1", "0o+7", "+-1", "++1", "-+1", "--1", "+", "-", ".", "e", "1e", "1e+", "e5",
             ".e5", "1.e5", "1.", ".5", "+.5", "-.5", "1_000", "0b1", "0O7", "0X1", "1E5", "1e-5", "1e+5", "-0", "+0", "00", "007",
             "0x0", "0o0", "0o8", "0xg", "0xFF", "0xff", "0xfF", "yes", "no", "on", "off", "y", "n", "", " ", "1 ", " 1", "１"]
    groups.append(("words", words))
    b = []
    for k in (63, 64, 31, 32, 53):
        for d in (-2, -1, 0, 1, 2):
            v = 2 ** k + d
            for s in (str(v), "-" + str(v), "+" + str(v), hex(v), oct(v), "0x" + format(v, "X"), str(v) + ".0", str(v) + "e0"):
                b.append(s)
    groups.append(("boundary-integers", b))
    nums = []
    for _ in range(3000 if tier == "quick" else 200000):
        sign = rng.choice(["", "", "+", "-"])
        ip = "".join(rng.choice("0123456789") for _ in range(rng.randrange(0, 22)))
        fp = "".join(rng.choice("0123456789") for _ in range(rng.randrange(0, 22)))
        form = rng.randrange(6)
        if form == 0:
            s = sign + (ip or "0")
        elif form == 1:
            s = sign + ip + "." + fp
        elif form == 2:
            s = sign + ip + "." + fp + rng.choice("eE") + rng.choice(["", "+", "-"]) + str(rng.randrange(0, 400))
        elif form == 3:
            s = sign + (ip or "1") + rng.choice("eE") + rng.choice(["", "+", "-"]) + str(rng.randrange(0, 400))
        elif form == 4:
            s = "0x" + "".join(rng.choice("0123456789abcdefABCDEF") for _ in range(rng.randrange(0, 18)))
        else:
            s = "0o" + "".join(rng.choice("01234567") for _ in range(rng.randrange(0, 24)))
        if rng.random() < 0.15 and s:
            p = rng.randrange(len(s) + 1)
            s = s[:p] + rng.choice(C08_ALPHA) + s[p:]
        nums.append(s)
    groups.append(("random-numbers", nums))
    groups.append(("random-alphabet", ["".join(rng.choice(C08_ALPHA) for _ in range(rng.randrange(4, 12)))
                                       for _ in range(3000 if tier == "quick" else 100000)]))
    if tier == "quick":
        groups.append(("exhaustive<=3/%d" % len(C08_ALPHA), list(gen.exhaustive(C08_ALPHA, 3))))
    else:
        groups.append(("exhaustive<=4/%d" % len(C08_ALPHA), list(gen.exhaustive(C08_ALPHA, 4))))
        groups.append(("exhaustive<=5/%d" % len(C08_ALPHA_SMALL), list(gen.exhaustive(C08_ALPHA_SMALL, 5))))
    return groups


def check_C08(tier, seed):
    res = Result("C08", tier, seed)
    proof = prepare("C08", res)
    rng = gen.rng_for(seed, "C08")
    cases, dist = dedupe(c08_cases(tier, rng))
    cases = [s for s in cases if "\n" not in s]
    lines = [enc(s) for s in cases]
    res.coverage["input_distribution"] = dict(groups=dist, sizes=size_hist(cases))
    res.coverage["configurations"] = C08_CONFIGS
    if res.harness_ok and res.model_ok:
        impl = run_hx(["resolve"], lines)
        model = run_mx(["resolve"], lines)
        verd = run_mx(["c08-oracle"], [l + "#" + r for l, r in zip(lines, impl)])
        kinds = {}
        for i, s in enumerate(cases):
            res.evaluations += 1
            r0 = impl[i].split("|")[0]
            kinds[r0[:1]] = kinds.get(r0[:1], 0) + 1
            if r0[:1] != "S":
                res.nontrivial.add(s)
            flags = impl[i].rsplit(";", 1)[-1] if ";" in impl[i] else impl[i]
            v = verd[i]
            if flags != "ok":
                res.add_violation("borrowed/owned/node-level resolution entry points disagree: " + flags,
                                  dict(input=s, codepoints=enc(s)), impl=impl[i])
            elif len(v) != len(C08_CONFIGS) or set(v) != {"1"}:
                bad = [C08_CONFIGS[k] for k, c in enumerate(v) if c != "1"] if len(v) == len(C08_CONFIGS) else ["?"]
                res.add_violation("core-schema oracle rejects the implementation's result for configuration(s) %s" % bad,
                                  dict(input=s, codepoints=enc(s)), impl=impl[i], oracle=v)
            if c08_canon(model[i]) != c08_canon(impl[i]):
                res.add_tie_break("correspondence: resolver model != implementation", case=s,
                                  model=c08_canon(model[i]), impl=c08_canon(impl[i]))
        res.coverage["untagged_result_kinds"] = kinds
        res.coverage["traces_validated_against_impl"] = len(cases)
        for i in (5, len(cases) // 4, len(cases) // 2, len(cases) - 7):
            if 0 <= i < len(cases):
                res.samples.append(dict(input=cases[i], impl=impl[i][:160]))
    rule = ("scalar texts: exhaustive strings over the %d-symbol core-literal alphabet, literal words, boundary integers, "
            "random numbers in every spelling, random alphabet strings; each under 13 (style, tag) configurations; "
            "non-trivial = distinct texts whose untagged plain reading is not a string" % len(C08_ALPHA))
    return res.finish(proof, rule)
