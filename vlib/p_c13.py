"""C13 — every JSON text loads with its JSON meaning.

Inputs: random JSON VALUES (trees with hostile strings as keys and values, boundary numbers) x SERIALISATIONS
(compact, json.dumps layouts, own pretty printer, random insignificant space/tab/LF/CR/CRLF around every token).
Implementation: `hx load yaml eager` (canonical node dump), `hx events str` (exactly one document), `hx tokens`.
Oracles, all computed from the generating VALUE (never from the implementation):
  1. Python: expected dump (objects M{..} in order, arrays Q[..], strings S<code points>, numbers I<hex> when the
     literal is an integer within i64, otherwise F<bits of Python's correctly rounded float of the literal TEXT>);
     the value is cross-checked against Python's own json.loads of the generated text, so "the same data a JSON
     parser produces" is meant literally;
  2. Coq, extracted (coq/Extract/ExtractC13.v): `c13_impl_ok v docs` (Spec/Json.v: yaml_of_json + nearest-double
     certificate) on the implementation's documents, and `wrap (json_tokens v)` against the implementation's real
     token stream — the hypothesis of the token-level theorems C13_tokens_* is thereby checked on every case;
  3. model correspondence: the whole model pipeline `run_load` (mx load) on the same texts.
The Coq theorems (Properties/C13.v) are about the MODEL: C13_text_full_proved says that run_load of EVERY serialisation of a
value (json_doc_text: any space/TAB/LF/CR around the tokens, raw / two-character / \\uXXXX escapes, nesting < 256) is the
value; C13_scanner that the scanner model yields wrap (json_tokens v).  Items 2 and 3 tie that to the implementation on every
case: the real token stream is the one the theorem derives for the model, and the model pipeline gives the real result.

Streams (routed by predicates on the TEXT):
  main        : every failure is a VIOLATION (texts with a ':' followed by TABs only are ordinary cases here);
  colon-tab   : REGRESSION stream of the fixed finding colon-tab-scalar (/repo b87c12b, known_findings_c13.jsonl): a ':'
                outside strings, immediately followed by TAB(s) only and then [-0-9A-Za-z] (handwritten + forced at random
                member separators).  Same oracles as the main stream: every failure is a VIOLATION with the input;
  theorem-text: texts drawn directly along the constructors of Spec/Json.v json_text (the sub-language of C13_text_full_proved /
                C13_scanner: every whitespace slot filled from {space, TAB, LF, CR}*, every character of a string raw, as a
                two-character escape or as \\uXXXX where JSON allows it) and the texts of the EXTRACTED serialiser json_compact
                (the function of C13_text_compact).  Same oracles as the main stream (real tokens = extracted json_tokens v);
  surrogates  : \\uD8xx\\uDCxx pair escapes (valid JSON, but the statement of C13 excludes \\u escapes that are
                surrogate halves): observed and counted, never a violation;
  depth-256   : one level beyond the scanner's u8 flow level: must be refused cleanly (observation).

Duplicate member names (RFC 8259 leaves them open): values are generated with mostly unique names; a separate
small stream has duplicates.  Expected there: the LAST value wins (Python dict, Spec/Json.v obj_norm and
LinkedHashMap::insert agree on that).  The member's position is compared against the model reading (position of
the last occurrence, obj_norm); an implementation result with the Python-dict position (first occurrence) is
reported as a model tie break, anything else as a violation.
"""
import json
import os
import struct

from . import core, gen
from .core import Result, enc, ev_kind, prepare, run_hx, run_mx, split_line

PID = "C13"
MAIN_LIKE = ("main", "colon-tab", "theorem-text")
KNOWN_FILE = os.path.join(core.VERIF, "known_findings_c13.jsonl")

# ------------------------------------------------------------------------------------------------
# values:  ('null',) ('bool', b) ('num', text) ('str', s) ('arr', [v..]) ('obj', [(k, v)..])
# ------------------------------------------------------------------------------------------------
YAMLISH = ["- a", "a: b", "#x", " #x", "[", "]", "{", "}", "*a", "&a", "!t", "!!str x", "|", ">", "|-", "%", "%YAML 1.2", "@", "`",
           "---", "...", "--- a", "null", "~", "true", "false", "True", "NULL", "1e5", "0x1F", "0o7", ".inf", ".nan", "-.inf",
           "1", "-0", "1.5", "+1", " leading", "trailing ", "  ", " ", "'", "''", "it's", "\"", "\\", "\\n", "\\\\\"", "a\"b", "/",
           "</script>", "? a", ": b", "- ", "a:", ":", ",", "a,b", "a, b", "[a]", "{a: b}", "key: [1, 2]", "a #c", "# c",
           "\t", "\ta", "a\tb", "a\t", "\n", "a\nb", "\n\n", "a\n", "\na", "a\n  b", "a \n b", "\r", "\r\n", "a\rb",
           "line1\nline2\n", "  indented\n    more", "<<", "=", "y", "n", "yes", "no", "on", "off", "2001-12-14", "12:30:45",
           "\u00e9", "\u00e9\u00e8", "\u2028", "\u2029", "\u0085", "\u00a0", "\ufeff", "\ufffd", "\ufffe", "\uffff", "\ud7ff",
           "\ue000", "\x7f", "\x80", "\x9f", "\U0001f600", "\U00010000", "\U0010ffff", "a\U0001f600b", "\u4e2d\u6587",
           "\x00", "\x01", "\x08", "\x0b", "\x0c", "\x1b", "\x1f", "a\x00b", "\x00\x00", "\\u0041", "\\x41", "\\U0001F600",
           "\\ ", "\\\n", "\\\t", "a\\", "\\/", "//", "\"quoted\"", "'single'", "a: \"b\"", "- \"x\"", "&anchor v", "*alias",
           "!!int 1", "!<tag> v", "? ", "?", "-", "--", "----", "....", ".", "..", "e", "e5", "1e", "0e0", "1_000", "0b1"]
PLAIN_WORDS = ["a", "b", "c", "key", "name", "id", "value", "x", "y", "z", "items", "data", "k1", "k2", "A", "Z", "_", "$ref", "@type",
               "foo bar", "a.b", "a-b", "a/b", "0", "42"]
CHAR_POOL = ("abcXYZ019 _-.:,/#'[]{}&*!|>%@`?=~+\\\"\t\n\r\b\f\x00\x01\x1f\x7f\x80\x85\x9f\u00a0\u00e9\u2028\u2029\ufeff\ufffd\ufffe"
             "\uffff\ud7ff\ue000\u4e2d\U00010000\U0001f600\U0010ffff")


def gen_string(rng, hostile=0.6):
    r = rng.random()
    if r < 0.06:
        return ""
    if r < 0.06 + 0.5 * hostile:
        return rng.choice(YAMLISH)
    if r < 0.06 + 0.5 * hostile + 0.15:
        return rng.choice(PLAIN_WORDS)
    if r < 0.95:
        return "".join(rng.choice(CHAR_POOL) for _ in range(rng.randrange(1, 9)))
    return "".join(rng.choice(CHAR_POOL + "abcdefgh ") for _ in range(rng.randrange(20, 300)))   # long (beyond 1-line key limits)


BOUNDARY_INTS = []
for _k in (63, 64, 53, 31, 32, 62):
    for _d in (-2, -1, 0, 1, 2):
        BOUNDARY_INTS += [str(2 ** _k + _d), "-" + str(2 ** _k + _d)]
FLOAT_EDGES = ["1E400", "1e-400", "-1E400", "-1e-400", "1e308", "1.7976931348623157e308", "1.7976931348623158e308",
               "1.7976931348623159e308", "1.797693134862315807e308", "1.797693134862315708e308", "2e308", "4.9e-324", "5e-324", "2.4703282292062327e-324",
               "2.4703282292062328e-324", "2.47e-324", "2.2250738585072011e-308", "2.2250738585072014e-308",
               "2.2250738585072009e-308", "9007199254740993", "9007199254740992.5", "9007199254740993.0", "0.1", "0.2", "0.3",
               "0.30000000000000004", "1.0", "-0.0", "0.0", "0e0", "-0e0", "0E+0", "0e-0", "-0", "0", "1e0", "1e+0", "1E-0",
               "0.000001", "1e-7", "123456789012345678901234567890", "-123456789012345678901234567890", "1e23", "8.5e22", "1e22", "1e21",
               "100000000000000000000", "18446744073709551615", "18446744073709551616", "0.1e1", "10e-1", "1.5E+3", "1.5e+003",
               "1e0000000000000000000005", "0.00000000000000000000000000000000000000000000000000001e53", "3.141592653589793238462643383279",
               "6.02214076e23", "1.6e-19", "179769313486231570000000000000000000000000000000000000000000000000000000000000000000000000000000"
               "000000000000000000000000000000000000000000000000000000000000000000000000000000000000000000000000000000000000000000000000"
               "000000000000000000000000000000000000000000000000000000000000000000000000000000000000000000000000000000000000000"]


def digits(rng, n, first_nonzero=True):
    if n <= 0:
        return ""
    s = "".join(rng.choice("0123456789") for _ in range(n))
    if first_nonzero and s[0] == "0":
        s = rng.choice("123456789") + s[1:]
    return s


def gen_number(rng):
    r = rng.random()
    if r < 0.12:
        return rng.choice(BOUNDARY_INTS)
    if r < 0.27:
        return rng.choice(FLOAT_EDGES)
    sign = "-" if rng.random() < 0.35 else ""
    if r < 0.45:
        return sign + str(rng.randrange(0, 1000))
    ip = "0" if rng.random() < 0.25 else digits(rng, rng.choice([1, 1, 2, 3, 5, 9, 15, 17, 18, 19, 20, 25]))
    if r < 0.55:
        return sign + ip
    frac = "." + digits(rng, rng.choice([1, 1, 2, 3, 6, 15, 17, 20, 30]), False) if rng.random() < 0.75 else ""
    exp = ""
    if rng.random() < 0.6:
        exp = rng.choice("eE") + rng.choice(["", "+", "-"]) + rng.choice(["", "0", "00"]) + str(rng.choice(
            [0, 1, 2, 5, 10, 15, 20, 22, 23, 100, 200, 300, 307, 308, 309, 310, 323, 324, 325, 330, 400, rng.randrange(0, 420)]))
    if r > 0.97:   # long mantissa
        ip = digits(rng, rng.randrange(30, 800))
    if not frac and not exp:
        frac = ".0" if rng.random() < 0.5 else ""
    return sign + ip + frac + exp


def gen_scalar(rng):
    r = rng.random()
    if r < 0.36:
        return ("str", gen_string(rng))
    if r < 0.80:
        return ("num", gen_number(rng))
    if r < 0.87:
        return ("null",)
    return ("bool", rng.random() < 0.5)


def gen_key(rng, used, dup):
    for _ in range(50):
        k = gen_string(rng, hostile=0.7)
        if dup or k not in used:
            return k
    return "k%d" % len(used)


def gen_value(rng, depth, budget, dup=False):
    """budget: [remaining nodes] shared by the whole tree"""
    budget[0] -= 1
    if depth <= 0 or budget[0] <= 0 or rng.random() < 0.3:
        return gen_scalar(rng)
    n = rng.choice([0, 0, 1, 1, 2, 2, 3, 3, 4, 5, 8])
    if rng.random() < 0.5:
        return ("arr", [gen_value(rng, depth - 1, budget, dup) for _ in range(n)])
    members, used = [], set()
    for _ in range(n):
        if dup and members and rng.random() < 0.45:
            k = rng.choice(members)[0]
        else:
            k = gen_key(rng, used, False)
        used.add(k)
        members.append((k, gen_value(rng, depth - 1, budget, dup)))
    return ("obj", members)


def nest(kind, depth, leaf, rng):
    """depth levels of nesting around leaf; kind: 'arr' | 'obj' | 'mix'"""
    v = leaf
    for i in range(depth):
        k = kind if kind != "mix" else rng.choice(["arr", "obj"])
        if k == "arr":
            v = ("arr", [v] if kind != "mix" or rng.random() < 0.7 else [("num", str(i)), v])
        else:
            v = ("obj", [("a" if kind != "mix" else rng.choice(["a", "", "k", "- x"]), v)])
    return v


def depth_of(v):
    if v[0] == "arr":
        return 1 + max([depth_of(x) for x in v[1]] or [0])
    if v[0] == "obj":
        return 1 + max([depth_of(x) for _, x in v[1]] or [0])
    return 0


def has_dup(v):
    if v[0] == "arr":
        return any(has_dup(x) for x in v[1])
    if v[0] == "obj":
        ks = [k for k, _ in v[1]]
        return len(set(ks)) != len(ks) or any(has_dup(x) for _, x in v[1])
    return False


def count_nodes(v):
    if v[0] == "arr":
        return 1 + sum(count_nodes(x) for x in v[1])
    if v[0] == "obj":
        return 1 + sum(1 + count_nodes(x) for _, x in v[1])
    return 1


# ------------------------------------------------------------------------------------------------
# serialisation
# ------------------------------------------------------------------------------------------------
SHORT = {'"': '\\"', "\\": "\\\\", "\b": "\\b", "\f": "\\f", "\n": "\\n", "\r": "\\r", "\t": "\\t"}


def u4(c, rng):
    h = "%04x" % c
    return "\\u" + (h.upper() if rng.random() < 0.5 else h if rng.random() < 0.7 else "".join(
        x.upper() if rng.random() < 0.5 else x for x in h))


def ser_string(s, rng, esc=0.15, pairs=False):
    """esc: probability of escaping a character that could stand raw; pairs: astral characters as surrogate-pair escapes"""
    out = ['"']
    for ch in s:
        c = ord(ch)
        if ch in SHORT:
            out.append(SHORT[ch] if rng.random() < 0.8 else u4(c, rng))
        elif c < 0x20:
            out.append(u4(c, rng))
        elif ch == "/":
            out.append("\\/" if rng.random() < 0.3 else "/")
        elif c >= 0x10000:
            if pairs and rng.random() < 0.7:
                c2 = c - 0x10000
                out.append(u4(0xD800 + (c2 >> 10), rng) + u4(0xDC00 + (c2 & 0x3FF), rng))
            else:
                out.append(ch)
        elif rng.random() < esc:
            out.append(u4(c, rng))
        else:
            out.append(ch)
    out.append('"')
    return "".join(out)


def scalar_text(v, rng, esc, pairs):
    if v[0] == "null":
        return "null"
    if v[0] == "bool":
        return "true" if v[1] else "false"
    if v[0] == "num":
        return v[1]
    return ser_string(v[1], rng, esc, pairs)


def tokens_of(v, rng, esc=0.15, pairs=False, out=None):
    """flat list of (kind, text): kind in '[', ']', '{', '}', ',', ':', 'k' (member name), 'v' (scalar value)"""
    if out is None:
        out = []
    if v[0] == "arr":
        out.append(("[", "["))
        for i, x in enumerate(v[1]):
            if i:
                out.append((",", ","))
            tokens_of(x, rng, esc, pairs, out)
        out.append(("]", "]"))
    elif v[0] == "obj":
        out.append(("{", "{"))
        for i, (k, x) in enumerate(v[1]):
            if i:
                out.append((",", ","))
            out.append(("k", ser_string(k, rng, esc, pairs)))
            out.append((":", ":"))
            tokens_of(x, rng, esc, pairs, out)
        out.append(("}", "}"))
    else:
        out.append(("v", scalar_text(v, rng, esc, pairs)))
    return out


WS_ATOMS = [" ", " ", " ", "\t", "\n", "\r", "\r\n", "  ", "\n  ", "\n\t", " \t", "\t ", "\n\n", "    "]
TABBY = "-0123456789abcdefghijklmnopqrstuvwxyzABCDEFGHIJKLMNOPQRSTUVWXYZ"


def rand_ws(rng, density):
    if rng.random() >= density:
        return ""
    return "".join(rng.choice(WS_ATOMS) for _ in range(rng.choice([1, 1, 1, 2, 3])))


def ser_random(v, rng, density=0.5, tab_mode="free", esc=0.15, pairs=False, ws_alphabet=None):
    """own serialiser: random insignificant whitespace before the first, between any two and after the last token.
    tab_mode 'free': whatever the whitespace generator gives (the pattern ':' TAB+ number/literal occurs by chance);
             'force': emit that pattern at one or more member separators (if the value has a member with such a value)."""
    toks = tokens_of(v, rng, esc, pairs)
    parts = []
    cands = [i for i, (k, t) in enumerate(toks) if k == ":" and toks[i + 1][0] == "v" and toks[i + 1][1][0] in TABBY]
    forced = set()
    if tab_mode == "force" and cands:
        forced = set(rng.sample(cands, rng.choice([1, 1, 2]) if len(cands) > 1 else 1))

    def ws():
        if ws_alphabet is not None:
            return "".join(rng.choice(ws_alphabet) for _ in range(rng.choice([0, 1, 1, 2, 3]))) if rng.random() < density else ""
        return rand_ws(rng, density)
    parts.append(ws())
    for i, (k, t) in enumerate(toks):
        parts.append(t)
        w = ws()
        if k == ":" and i in forced:
            w = "\t" * rng.choice([1, 1, 1, 2, 3])
        parts.append(w)
    return "".join(parts)


def ser_pretty(v, rng, indent, item_sep=",", key_sep=": ", nl="\n", level=0, esc=0.0, pairs=False):
    """the layout of json.dumps(indent=...), for values whose numbers are literal texts"""
    ind = indent if isinstance(indent, str) else " " * indent
    if v[0] == "arr":
        if not v[1]:
            return "[]"
        inner = (item_sep + nl + ind * (level + 1)).join(ser_pretty(x, rng, indent, item_sep, key_sep, nl, level + 1, esc, pairs) for x in v[1])
        return "[" + nl + ind * (level + 1) + inner + nl + ind * level + "]"
    if v[0] == "obj":
        if not v[1]:
            return "{}"
        inner = (item_sep + nl + ind * (level + 1)).join(
            ser_string(k, rng, esc, pairs) + key_sep + ser_pretty(x, rng, indent, item_sep, key_sep, nl, level + 1, esc, pairs) for k, x in v[1])
        return "{" + nl + ind * (level + 1) + inner + nl + ind * level + "}"
    return scalar_text(v, rng, esc, pairs)


def to_python(v):
    """native Python object for json.dumps, or None when a number literal is not what Python would print"""
    if v[0] == "null":
        return True, None
    if v[0] == "bool":
        return True, v[1]
    if v[0] == "str":
        return True, v[1]
    if v[0] == "num":
        t = v[1]
        if t.lstrip("-").isdigit():
            return (str(int(t)) == t), int(t)
        try:
            f = float(t)
        except ValueError:
            return False, None
        return (repr(f) == t), f
    if v[0] == "arr":
        out = []
        for x in v[1]:
            ok, y = to_python(x)
            if not ok:
                return False, None
            out.append(y)
        return True, out
    d = {}
    for k, x in v[1]:
        ok, y = to_python(x)
        if not ok or k in d:
            return False, None
        d[k] = y
    return True, d


# ------------------------------------------------------------------------------------------------
# reading a JSON text back with Python's json module, keeping number literals
# ------------------------------------------------------------------------------------------------
def _norm(x):
    if x is None:
        return ("null",)
    if x is True or x is False:
        return ("bool", x)
    if isinstance(x, str):
        return ("str", x)
    if isinstance(x, list):
        return ("arr", [_norm(y) for y in x])
    if isinstance(x, tuple) and x[0] == "num":
        return x
    if isinstance(x, tuple) and x[0] == "obj":
        return ("obj", [(k, _norm(y)) for k, y in x[1]])
    raise ValueError("unexpected %r" % (x,))


def json_value_of(text):
    def bad(s):
        raise ValueError("constant " + s)
    return _norm(json.loads(text, parse_int=lambda s: ("num", s), parse_float=lambda s: ("num", s), parse_constant=bad,
                            object_pairs_hook=lambda ps: ("obj", ps)))


# ------------------------------------------------------------------------------------------------
# text predicates (stream routing)
# ------------------------------------------------------------------------------------------------
def has_colon_tab(text):
    """a ':' outside strings immediately followed by one or more TABs and then a character in [-0-9A-Za-z]"""
    i, n, ins = 0, len(text), False
    while i < n:
        c = text[i]
        if ins:
            if c == "\\":
                i += 2
                continue
            if c == '"':
                ins = False
        elif c == '"':
            ins = True
        elif c == ":":
            j = i + 1
            while j < n and text[j] == "\t":
                j += 1
            if j > i + 1 and j < n and text[j] in TABBY:
                return True
        i += 1
    return False


def has_surrogate_escape(text):
    i, n = 0, len(text)
    while i < n - 5:
        if text[i] == "\\":
            if text[i + 1] == "u" and text[i + 2] in "dD" and text[i + 3] in "89abAB" + "cdefCDEF":
                return True
            i += 2
            continue
        i += 1
    return False


# ------------------------------------------------------------------------------------------------
# the Python oracle
# ------------------------------------------------------------------------------------------------
I64_MIN, I64_MAX = -2 ** 63, 2 ** 63 - 1


def num_dump(t):
    body = t[1:] if t.startswith("-") else t
    if body.isdigit():
        z = int(t)
        if I64_MIN <= z <= I64_MAX:
            return "I0x%x" % z if z >= 0 else "I-0x%x" % -z
    return "F%016x" % struct.unpack(">Q", struct.pack(">d", float(t)))[0]


def sdump(s):
    return "S" + ".".join(str(ord(c)) for c in s)


def members(ms, how):
    """how: 'model' last value wins at the position of the last occurrence (obj_norm); 'dict' Python dict: position of the first"""
    if how == "model":
        out = []
        for k, v in ms:
            out = [(a, b) for a, b in out if a != k] + [(k, v)]
        return out
    d = {}
    for k, v in ms:
        d[k] = v
    return list(d.items())


def expected_dump(v, how="model"):
    if v[0] == "null":
        return "N"
    if v[0] == "bool":
        return "B1" if v[1] else "B0"
    if v[0] == "num":
        return num_dump(v[1])
    if v[0] == "str":
        return sdump(v[1])
    if v[0] == "arr":
        return "Q[" + ",".join(expected_dump(x, how) for x in v[1]) + "]"
    return "M{" + ",".join(sdump(k) + "=" + expected_dump(x, how) for k, x in members(v[1], how)) + "}"


def prefix_form(v, out=None):
    """the value for ocaml/driver_c13.ml"""
    top = out is None
    if top:
        out = []
    if v[0] == "null":
        out.append("n")
    elif v[0] == "bool":
        out.append("t" if v[1] else "f")
    elif v[0] == "num":
        out.append("#" + ".".join(str(ord(c)) for c in v[1]))
    elif v[0] == "str":
        out.append("s" + ".".join(str(ord(c)) for c in v[1]))
    elif v[0] == "arr":
        out.append("[%d" % len(v[1]))
        for x in v[1]:
            prefix_form(x, out)
    else:
        out.append("{%d" % len(v[1]))
        for k, x in v[1]:
            out.append("s" + ".".join(str(ord(c)) for c in k))
            prefix_form(x, out)
    return " ".join(out) if top else None


def model_floats_to_bits(d):
    """mx load prints floats as exact decimals Fd[-]0x<m>^[-]0x<e>: round them (exact rational -> nearest double)"""
    import re
    from fractions import Fraction

    def conv(m):
        neg, mant, ex = m.group(1) == "-", int(m.group(2), 16), int(m.group(3), 16)     # int("-0x190", 16) == -400
        if mant == 0:
            f = 0.0
        elif ex > 400:
            f = float("inf")
        elif ex + len(str(mant)) < -400:
            f = 0.0
        else:
            try:
                f = float(Fraction(mant) * Fraction(10) ** ex)
            except OverflowError:
                f = float("inf")
        if neg:
            f = -f
        return "F%016x" % struct.unpack(">Q", struct.pack(">d", f))[0]
    return re.sub(r"Fd(-?)0x([0-9a-f]+)\^(-?0x[0-9a-f]+)", conv, d)


def tokens_nospan(line):
    toks, fin = split_line(line)
    return ";".join(t.rsplit("@", 1)[0] for t in toks), fin


# ------------------------------------------------------------------------------------------------
# case generation
# ------------------------------------------------------------------------------------------------
def build_cases(tier, rng):
    """-> list of dict(text, value, stream, style)"""
    quick = tier == "quick"
    cases, seen = [], set()

    def add(text, value, style, stream=None):
        if text in seen:
            return
        seen.add(text)
        if stream is None:
            stream = "surrogates" if has_surrogate_escape(text) else "main"
        cases.append(dict(text=text, value=value, stream=stream, style=style))

    def all_styles(v, n_random):
        add("".join(t for _, t in tokens_of(v, rng, esc=0.0)), v, "compact")
        add(ser_pretty(v, rng, rng.choice([1, 2, 4, "\t"]), nl=rng.choice(["\n", "\n", "\r\n", "\r"])), v, "pretty")
        ok, py = to_python(v)
        if ok:
            ind = rng.choice([None, 0, 1, 2, 3, 4, 8, "\t", " \t"])
            sep = rng.choice([None, (",", ":"), (", ", ": "), (" , ", " : "), (",", ": "), (",\t", ":  "), (",", " :")])
            add(json.dumps(py, indent=ind, separators=sep, ensure_ascii=rng.random() < 0.5 and not _has_astral(v)), v, "json.dumps")
        for _ in range(n_random):
            add(ser_random(v, rng, density=rng.choice([0.15, 0.4, 0.7, 1.0]), esc=rng.choice([0.0, 0.1, 0.5, 1.0])), v, "random-ws")
        if rng.random() < 0.3:
            add(ser_random(v, rng, density=1.0, ws_alphabet=rng.choice(["\t", "\n", "\r", " ", "\t\n", "\r\n\t"])), v, "single-ws-kind")

    # 1. handwritten
    hand = ['{"a": 1}', "[]", "{}", "[[]]", "[{}]", '{"a":{}}', '""', "0", "-0", "null", "true", "false", '{"":""}', '{"a":[]}',
            '[1,2,3]', '["a","b"]', '{"a":"b","c":"d"}', '[null,true,false]', '{"a":null}', '[[],[]]', '[{},{}]', '{"a":{"b":{"c":[]}}}',
            '[1 , 2]', '{"a" : 1}', '{"a"\n:\n1\n}', '[\n1\n,\n2\n]', '\t[\t1\t,\t2\t]\t', '\r\n{\r\n"a":\r\n1\r\n}\r\n', '{"a"\t:\t"b"}',
            '{"a":\t"b"}', '{"a":\t[1]}', '{"a":\t{"b":\t"c"}}', '{"a":\t\n1}', '{"a":\t 1}', '{"a": \t1}', '[1,\t2]', '[\t1]', '"a"\t',
            '{"a":1,"b":2,"c":3}', '{"k":"v"}\n', ' 1', '1 ', '\n1\n', '"\\u00e9"', '"\\n"', '"a\\/b"', '"\\"\\\\"', '"\\b\\f\\n\\r\\t"']
    for t in hand:
        add(t, json_value_of(t), "handwritten")
    # 2. every hostile string as value, as key, in an array, with and without escaping
    for s in YAMLISH:
        for v in (("str", s), ("arr", [("str", s)]), ("obj", [(s, ("str", s))]), ("obj", [(s, ("num", "1"))]),
                  ("arr", [("str", s), ("str", s)])):
            add("".join(t for _, t in tokens_of(v, rng, esc=0.0)), v, "hostile-compact")
        add(ser_random(("obj", [(s, ("arr", [("str", s), ("null",)]))]), rng, density=0.8, esc=1.0), ("obj", [(s, ("arr", [("str", s), ("null",)]))]), "hostile-escaped")
    # 3. every boundary number, alone / in array / as member value, compact and spaced
    for t in BOUNDARY_INTS + FLOAT_EDGES:
        v = ("num", t)
        add(t, v, "number")
        add("[" + t + "]", ("arr", [v]), "number")
        add('{"n":' + t + "}", ("obj", [("n", v)]), "number")
        add('{ "n" : ' + t + " , \"m\":\n" + t + "\n}", ("obj", [("n", v), ("m", v)]), "number")
    for _ in range(300 if quick else 20000):
        t = gen_number(rng)
        add(rng.choice(["%s", "[%s]", '{"a":%s}', "[ %s ]", '{"a": %s}', "\n%s\n", '{"a"\t:\n%s\r\n}', "[0,%s\t]"]) % t, None, "number")
    # 4. random trees
    n_trees = 700 if quick else 25000
    for i in range(n_trees):
        d = rng.choice([1, 2, 3, 4, 6, 8]) if quick else rng.choice([1, 2, 3, 4, 6, 8, 12, 20, 40])
        v = gen_value(rng, d, [rng.choice([6, 15, 40, 120])])
        all_styles(v, 2 if quick else 3)
    # 5. deep nesting (the scanner's flow level is a u8: 255 levels are the deepest accepted)
    deep = [12, 40, 100, 200, 254, 255] if quick else [12, 40, 64, 100, 127, 128, 129, 200, 250, 253, 254, 255]
    for d in deep:
        for kind in ("arr", "obj", "mix"):
            v = nest(kind, d, rng.choice([("num", "1"), ("str", "x"), ("arr", []), ("obj", []), ("null",)]) if d < 255 else ("num", "1"), rng)
            if depth_of(v) > 255:
                continue
            add("".join(t for _, t in tokens_of(v, rng, esc=0.0)), v, "deep-compact")
            add(ser_random(v, rng, density=0.3), v, "deep-random-ws")
            if d <= 100:
                add(ser_pretty(v, rng, 1), v, "deep-pretty")
    # 6. duplicate member names
    for _ in range(120 if quick else 5000):
        v = gen_value(rng, rng.choice([1, 2, 3]), [rng.choice([8, 20])], dup=True)
        if has_dup(v):
            add(ser_random(v, rng, density=0.3), v, "duplicates")
    for t in ['{"a":1,"a":2}', '{"a":1,"b":2,"a":3}', '{"a":1,"b":2,"c":4,"b":3}', '{"a":{"x":1},"a":{"y":2}}', '{"":1,"":2,"":3}',
              '{"a":1,"b":{"k":1,"k":2},"a":[{"z":0,"z":1}]}']:
        add(t, json_value_of(t), "duplicates")
    # 7. regression stream of the fixed finding colon-tab-scalar: ':' TAB+ number/literal (must load like any other text)
    for t in ['{"a":\t1}', '{"a":\t\t1}', '{"a":\ttrue}', '{"a":\tfalse}', '{"a":\tnull}', '{"a":\t-1}', '{"a":\t0.5}', '[{"a":\t1}]',
              '{"a":{"b":\t1e5}}', '{"a":\t1,"b":2}', '{"a": 1,"b":\t2}', '{\n"a":\t1\n}', '{"a":\t1\t}']:
        add(t, json_value_of(t), "colon-tab-hand", "colon-tab")
    for _ in range(150 if quick else 8000):
        v = gen_value(rng, rng.choice([1, 2, 3, 4]), [rng.choice([6, 15, 40])])
        t = ser_random(v, rng, density=rng.choice([0.2, 0.6]), tab_mode="force")
        if has_colon_tab(t) and not has_surrogate_escape(t):
            add(t, v, "colon-tab-random", "colon-tab")
    # 7b. long member names: /repo 57aa316 limits the implicit key of a flow-SEQUENCE single pair to 1024 characters; JSON arrays
    #     contain no `key: value` entries and the names of {...} members stay unlimited, at any nesting inside arrays/objects
    for n in ([1021, 1022, 1023, 1024, 1025, 1026, 2000] if quick else [1000, 1021, 1022, 1023, 1024, 1025, 1026, 1027, 1500, 2000, 4000]):
        k = "k" * n
        for v in (("obj", [(k, ("num", "1"))]),
                  ("arr", [("obj", [(k, ("num", "1"))])]),
                  ("arr", [("num", "0"), ("arr", [("obj", [(k, ("arr", [("obj", [(k, ("str", k))])]))]), ("str", k)])]),
                  ("obj", [("a", ("arr", [("arr", [("obj", [(k, ("null",)), ("b", ("obj", [(k, ("bool", True))]))])])]))])):
            add("".join(t for _, t in tokens_of(v, rng, esc=0.0)), v, "long-name-compact")
            add(ser_random(v, rng, density=0.6), v, "long-name-random-ws")
            add(ser_pretty(v, rng, 2), v, "long-name-pretty")
    # 7c. the sub-language of the text-level theorems, drawn along the constructors of json_text: whitespace slots over {SP,TAB,LF,CR}*
    #     (empty collections included: jt_arr0 / jt_obj0), per-character choice raw / short escape / \uXXXX
    for t in ['[ ]', '[\t]', '[\n]', '[\r]', '[\r\n]', '{ }', '{\n\t}', ' [ ] ', '\r[\r]\r', '{"a"\r:\r1\r}', '{"a" :1}', '{"a"\n:1}', '{"a"\t:[ ]}',
              '[1\r,\r2\r]', '[-1\n]', '[\n-1]', '\n-1', '-1\n', '"a"\r\n', '[ "a" , "b" ]', '{"a":"b"\n,\n"c":"d"}', '[null\t]', '[true\r\n,false]',
              '"\\u0041\\u00e9\\u20AC\\uFFFF"', '"a b  c "', '" "', '"\\u0020"', '"\\t\\n \\r"', '{"a b":" "}', '["\\/","/"]']:
        add(t, json_value_of(t), "theorem-hand", "theorem-text")
    for _ in range(400 if quick else 15000):
        v = gen_value(rng, rng.choice([1, 2, 3, 4, 6]), [rng.choice([6, 15, 40])])
        t = ser_random(v, rng, density=rng.choice([0.3, 0.7, 1.0]), esc=rng.choice([0.0, 0.2, 0.6, 1.0]), ws_alphabet=" \t\n\r")
        if not has_surrogate_escape(t):
            add(t, v, "theorem-walk", "theorem-text")
    # 8. surrogate-pair escapes (outside the statement's precondition)
    for t in ['"\\ud83d\\ude00"', '["\\uD83D\\uDE00"]', '{"\\ud800\\udc00":"\\udbff\\udfff"}', '"a\\ud83d\\ude00b"']:
        add(t, json_value_of(t), "surrogate-hand", "surrogates")
    for _ in range(40 if quick else 2000):
        v = gen_value(rng, 2, [10])
        if _has_astral(v):
            t = ser_random(v, rng, density=0.3, pairs=True)
            if has_surrogate_escape(t):
                add(t, v, "surrogate-random", "surrogates")
    # 9. one level too deep (observation: refused, not crashed)
    for kind in ("arr", "obj"):
        v = nest(kind, 256, ("num", "1"), rng)
        add("".join(t for _, t in tokens_of(v, rng, esc=0.0)), v, "depth-256", "depth-256")
    return cases


def _has_astral(v):
    if v[0] == "str":
        return any(ord(c) >= 0x10000 for c in v[1])
    if v[0] == "arr":
        return any(_has_astral(x) for x in v[1])
    if v[0] == "obj":
        return any(any(ord(c) >= 0x10000 for c in k) or _has_astral(x) for k, x in v[1])
    return False


def load_known():
    out = []
    if os.path.exists(KNOWN_FILE):
        for l in open(KNOWN_FILE):
            l = l.strip()
            if l:
                d = json.loads(l)
                if d.get("property") == PID and d.get("status") == "known":
                    out.append(d)
    return out


# ------------------------------------------------------------------------------------------------
# the check
# ------------------------------------------------------------------------------------------------
def check_C13(tier, seed):
    res = Result(PID, tier, seed)
    proof = prepare(PID, res, model_tags=("", "C13"))
    rng = gen.rng_for(seed, PID)
    known = load_known()      # no class of C13 is known at present; a listed class would only be reported, never routed
    cases = build_cases(tier, rng)
    # the texts of the EXTRACTED serialiser json_compact (Spec/Json.v; the function of C13_text_compact) for the generated values
    coq_compact = dict(values=0, texts_added=0, hypotheses_false=0)
    if res.model_ok:
        vals, seenv, seent = [], set(), set(c["text"] for c in cases)
        for c in cases:
            if c["value"] is not None and c["stream"] in ("main", "theorem-text") and c["style"] in (
                    "handwritten", "compact", "hostile-compact", "deep-compact", "long-name-compact", "theorem-walk", "theorem-hand"):
                k = prefix_form(c["value"])
                if k not in seenv:
                    seenv.add(k)
                    vals.append(c["value"])
        outs = run_mx(["compact"], [prefix_form(v) for v in vals], tag="C13")
        coq_compact["values"] = len(vals)
        for v, o in zip(vals, outs):
            ok, _, cps = o.partition(" ")
            if ok != "ok=1":
                coq_compact["hypotheses_false"] += 1       # json_wf && json_chars_ok is false: outside C13_text_compact
                if ok != "ok=0":
                    res.add_tie_break("extracted json_compact failed", value=prefix_form(v)[:200], out=o[:200])
                continue
            try:
                text = "".join(chr(int(x)) for x in cps.split())
            except ValueError:
                res.add_tie_break("extracted json_compact: unreadable output", out=o[:200])
                continue
            if text not in seent:
                seent.add(text)
                cases.append(dict(text=text, value=v, stream="theorem-text", style="coq-json_compact"))
                coq_compact["texts_added"] += 1
    res.coverage["extracted_json_compact"] = coq_compact
    # the generating value must be what a JSON parser reads from the text (validates generator + serialiser)
    for c in cases:
        try:
            jv = json_value_of(c["text"])
        except (ValueError, RecursionError) as e:
            res.add_tie_break("generator self-check: Python's json module rejects a generated text", text=c["text"][:300], error=str(e))
            jv = None
        if c["value"] is None:
            c["value"] = jv
        elif jv is not None and jv != c["value"]:
            res.add_tie_break("generator self-check: json.loads(text) is not the generating value", text=c["text"][:300])
        if c["stream"] in MAIN_LIKE and has_surrogate_escape(c["text"]):
            res.add_tie_break("generator self-check: main stream contains an excluded pattern", text=c["text"][:300])
        if c["stream"] == "colon-tab" and not has_colon_tab(c["text"]):
            res.add_tie_break("generator self-check: a text of the colon-tab regression stream is not in the class", text=c["text"][:300])
    cases = [c for c in cases if c["value"] is not None]
    streams, styles, depths = {}, {}, {}
    for c in cases:
        streams[c["stream"]] = streams.get(c["stream"], 0) + 1
        styles[c["style"]] = styles.get(c["style"], 0) + 1
        d = depth_of(c["value"])
        b = "0" if d == 0 else "1-2" if d <= 2 else "3-8" if d <= 8 else "9-64" if d <= 64 else "65-253" if d <= 253 else str(d)
        depths[b] = depths.get(b, 0) + 1
    res.coverage["input_distribution"] = dict(streams=streams, styles=styles, nesting_depth=depths,
                                              text_chars=sum(len(c["text"]) for c in cases),
                                              value_nodes=sum(count_nodes(c["value"]) for c in cases))
    res.coverage["known_finding_classes"] = [dict(cls=k.get("class"), witness=k.get("witness")) for k in known]
    if res.harness_ok and res.model_ok:
        lines = [enc(c["text"]) for c in cases]
        impl = run_hx(["load", "yaml", "eager"], lines)
        evs = run_hx(["events", "str"], lines)
        toks = run_hx(["tokens"], lines)
        model = run_mx(["load"], lines)
        pf = [prefix_form(c["value"]) for c in cases]
        spec_toks = run_mx(["tokens"], pf, tag="C13")
        spec_exp = run_mx(["expect"], pf, tag="C13")
        verd = run_mx(["oracle"], [p + " @@ " + r for p, r in zip(pf, impl)], tag="C13")
        # the class predicate of the regression stream is the one of Spec/Json.v (colon_tab)
        coltab = run_mx(["coltab"], lines, tag="C13")
        for i, c in enumerate(cases):
            if coltab[i] != ("1" if has_colon_tab(c["text"]) else "0"):
                res.add_tie_break("class predicate: Python has_colon_tab != extracted colon_tab Tout", case=c["text"][:300], coq=coltab[i])
        verdicts = {}
        tab_seen = tab_ok = tab_main = 0
        sur = dict(rejected=0, loaded_as_json=0, loaded_otherwise=0)
        deep256 = []
        dup_stats = dict(cases=0, model_position=0, dict_position=0)
        ntoks = 0
        for i, c in enumerate(cases):
            res.evaluations += 1
            text, v, stream = c["text"], c["value"], c["stream"]
            exp = "OK " + expected_dump(v, "model")
            got = impl[i]
            case = dict(input=text, codepoints=lines[i], stream=stream, style=c["style"])
            cls = "OK" if got.startswith("OK") else "ERR" if got.startswith("ERR") else got[:12]
            verdicts[stream + ":" + cls] = verdicts.get(stream + ":" + cls, 0) + 1
            good = got == exp
            # ---- streams outside the main one ----
            if stream == "depth-256":
                deep256.append(got[:80])
                if not got.startswith("ERR"):
                    res.notes.append("nesting depth 256 was not refused: %s" % got[:60])
                if core_abnormal(got):
                    res.add_violation("abnormal termination on 256 nested flow collections", case, impl=got[:200])
                continue
            if stream == "surrogates":
                if got.startswith("ERR"):
                    sur["rejected"] += 1
                elif good:
                    sur["loaded_as_json"] += 1
                else:
                    sur["loaded_otherwise"] += 1
                if core_abnormal(got):
                    res.add_violation("abnormal termination on a surrogate-pair escape", case, impl=got[:200])
                continue
            reg = ""
            if stream == "colon-tab":
                tab_seen += 1
                reg = "regression of the fixed finding colon-tab-scalar (b87c12b): "
            elif has_colon_tab(text):
                tab_main += 1
            # ---- main stream and regression stream: the property ----
            if core_abnormal(got) or core_abnormal(evs[i]):
                res.add_violation(reg + "abnormal termination while loading a JSON text", case, impl=got[:300], events=evs[i][-200:])
                continue
            if not got.startswith("OK"):
                res.add_violation(reg + "a JSON text is rejected", case, impl=got[:300])
                continue
            isdup = has_dup(v)
            if isdup:
                dup_stats["cases"] += 1
            if not good:
                if isdup and got == "OK " + expected_dump(v, "dict"):
                    dup_stats["dict_position"] += 1
                    res.add_tie_break("duplicate member names: last value wins, but the member keeps the position of its FIRST "
                                      "occurrence (Python dict order), not of the last (model / Spec obj_norm)", case=text[:300], impl=got[:300])
                else:
                    res.add_violation(reg + "a JSON text does not load with its JSON meaning", case, impl=got[:600], expected=exp[:600])
                continue
            if isdup:
                dup_stats["model_position"] += 1
            # exactly one (implicit) document
            e, fin = split_line(evs[i])
            kinds = [ev_kind(x) for x in e]
            if fin != "OK" or sum(1 for k in kinds if k.startswith("DS")) != 1 or kinds.count("DE") != 1 or kinds[:2] != ["SS", "DS0"]:
                res.add_violation(reg + "a JSON text is not delivered as exactly one implicit document", case, events=evs[i][-300:])
                continue
            # the extracted Coq oracle on the implementation's documents
            if verd[i] != "1":
                res.add_violation(reg + "the extracted oracle c13_impl_ok (Spec/Json.v) rejects the implementation's result", case,
                                  impl=got[:400], oracle=verd[i], spec=spec_exp[i][:400])
                continue
            if not spec_exp[i].startswith("wf=1 "):
                res.add_tie_break("a generated value is not json_wf for the Coq specification", case=text[:300], spec=spec_exp[i][:200])
            # ties: real tokens = wrap (json_tokens v) (the hypothesis of C13_tokens_*), model pipeline = implementation
            tk, tfin = tokens_nospan(toks[i])
            ntoks += tk.count(";") + 1
            if tfin != "END" or tk != spec_toks[i]:
                res.add_tie_break("correspondence: the scanner's token stream is not wrap (json_tokens v)", case=text[:300],
                                  impl=(tk + "|" + tfin)[:400], spec=spec_toks[i][:400])
            if model_floats_to_bits(model[i]) != got:
                res.add_tie_break("correspondence: model pipeline (run_load) != implementation", case=text[:300],
                                  model=model[i][:300], impl=got[:300])
            if stream == "colon-tab":
                tab_ok += 1
            if v[0] in ("arr", "obj") and len(v[1]) > 0:
                res.nontrivial.add(text)
        res.coverage["verdicts"] = verdicts
        res.coverage["regression_colon_tab_fixed_b87c12b"] = dict(generated=tab_seen, passed_all_oracles=tab_ok, also_in_main_stream=tab_main)
        res.coverage["surrogate_pair_escapes_outside_precondition"] = sur
        res.coverage["depth_256"] = deep256
        res.coverage["duplicate_member_names"] = dup_stats
        res.coverage["traces_validated_against_impl"] = sum(1 for c in cases if c["stream"] in MAIN_LIKE)
        res.coverage["tokens_compared_with_json_tokens"] = ntoks
        idx = [i for i, c in enumerate(cases) if c["style"] in ("random-ws", "pretty", "colon-tab-random", "number", "hostile-escaped", "theorem-walk", "coq-json_compact")]
        for j in (3, len(idx) // 3, len(idx) // 2, (2 * len(idx)) // 3, len(idx) - 5):
            if 0 <= j < len(idx):
                i = idx[j]
                res.samples.append(dict(input=cases[i]["text"][:240], stream=cases[i]["stream"], style=cases[i]["style"], impl=impl[i][:200]))
    res.assumptions += [
        "Python's json module (json.loads with literal-preserving number hooks) as the reference JSON reader; Python float() as "
        "correctly rounded decimal->binary64 conversion (cross-checked by the extracted nearest_double certificate)",
        "the text-level theorems (C13_text_full_proved, C13_scanner, C13_text_compact) are statements about the executable MODEL of the scanner, "
        "parser, loader and resolver; model = implementation is checked per case (hx tokens = extracted wrap (json_tokens v), mx load = hx load), "
        "not proved",
        "\\u escapes forming surrogate pairs are outside the stated precondition (observed: rejected)",
    ]
    rule = ("random JSON values (depth<=8 quick / <=40 thorough, plus nesting chains up to 255; hostile strings from a %d-entry "
            "YAML-lookalike/escape/Unicode pool as keys and values; boundary and random numbers in every RFC 8259 spelling) x "
            "serialisations (compact, json.dumps layouts, own pretty printer with LF/CR/CRLF, random space/tab/LF/CR/CRLF around every "
            "token, single-kind whitespace); the sub-language of the text theorems drawn along the constructors of json_text and through the extracted "
            "json_compact; separate streams for the ':'+TAB regression class (fixed finding), surrogate-pair escapes, depth 256, duplicate "
            "names; non-trivial = distinct main-stream texts whose value is a non-empty array or object and that passed all oracles"
            % len(YAMLISH))
    return res.finish(proof, rule)


def core_abnormal(line):
    fin = split_line(line)[1] if "|" in line else line
    return any(fin.startswith(x) for x in ("PANIC", "TIMEOUT", "CRASH", "NOTRUN")) or line.startswith("|")
