"""C06 — ill-formed YAML is rejected with an error, never silently accepted.

(a) a generator of WELL-FORMED streams (block mappings / sequences at 2-space indentation with safe plain and quoted
    scalars, single- and multi-line flow collections, anchors / aliases, tags, %YAML / %TAG directives, comments,
    multi-document streams); every base stream must be accepted by the implementation before it is damaged
    (a rejected base is counted as a generator / C03 matter, never as a C06 finding);
(b) one DAMAGE OPERATOR per class of the statement (15 classes, several variants each).  Every operator is constructed so
    that its result is ill-formed by the YAML 1.2.2 productions whatever the rest of the stream looks like (the reasoning
    is next to each operator).  Oracle on the IMPLEMENTATION: `hx events str`, `hx events iter` end in ERR@..., never in
    |OK (nor PANIC / TIMEOUT / CRASH), and `hx load yaml eager` fails too;
(c) the 94 `fail: true` cases of the yaml-test-suite must be rejected.
Tie: the Coq model pipeline (`mx events str`) rejects the same inputs at the same position.
Known findings (known_findings_c06.jsonl): decidable predicates on the damaged text; only the classes with status `known`
(1: flow continuation line at the block indentation) print KNOWN-FINDING and exit 0, any other acceptance is a
violation -- in particular of the three classes repaired in /repo (c5ad60c stray closer behind an empty explicit key,
ad74b3e multi-line flow pair key behind a flow mapping, 57aa316 implicit key > 1024 characters in a flow sequence)."""
import json
import os
import re

from . import core, gen
from .core import Result, enc, fin_msg, fin_pos, prepare, run_hx, run_mx, split_line

KNOWN_FILE = os.path.join(core.VERIF, "known_findings_c06.jsonl")

# sentinels (private-use code points) mark positions in the generated text; they are stripped before use
S_SQ = "\ue001"    # right before the closing quote of a single-quoted scalar
S_DQ = "\ue002"    # right before the closing quote of a double-quoted scalar
S_OC = "\ue003"    # right before the closer of an OUTERMOST flow collection
S_IC = "\ue004"    # right before the closer of a nested flow collection
S_ESC = "\ue005"   # a position inside the content of a double-quoted scalar
S_FB = "\ue006"    # a token boundary inside a flow collection (behind the opener or a comma)
S_V0 = "\ue007"    # start of a property-free scalar in node position (may be replaced by an alias / get a tag)
S_V1 = "\ue008"    # its end
SENT = re.compile("[\ue001-\ue008]")


def strip(s):
    return SENT.sub("", s)


WORDS = ["a", "b", "foo", "bar", "x1", "item", "zed", "alpha", "n0", "val", "hello", "w"]
DQ_ESC = ["\\n", "\\t", "\\\\", "\\\"", "\\x41", "\\u00e9", "\\U0001F600", "\\/", "\\_", "\\N", "\\0", "\\e", "\\ "]
SQ_PUNCT = [": ", " #", ", ", "[", "]", "{", "}", "- ", "? ", "!", "&", "*", "|", ">", "%", "@", "''", "\""]
DQ_PUNCT = [": ", " #", ", ", "[", "]", "{", "}", "- ", "? ", "!", "&", "*", "|", ">", "%", "@", "'"]


class Line(dict):
    """ind: indentation (spaces), text: the rest, role: key|entry|flowcont|comment|root|directive|docstart|docend|other,
    levels: indentations of the open block collections (own one included), val: what the line ends with,
    key/keypos: the implicit key on a key line, base: for multi-line flow lines the column of the enclosing block
    collection's entry (key column / dash column), doc: document number, raw: literal indentation override"""
    __getattr__ = dict.get

    def copy(self):
        return Line(self)


def L(ind, text, role, levels=(), **kw):
    return Line(ind=ind, text=text, role=role, levels=list(levels), **kw)


def render(lines):
    out = []
    for l in lines:
        pre = l.raw if l.raw is not None else " " * l.ind
        out.append(pre + l.text)
    return "\n".join(out) + "\n"


# ------------------------------------------------------------------------------------------------
# (a) generator of well-formed streams
# ------------------------------------------------------------------------------------------------
class StreamGen:
    def __init__(self, rng):
        self.rng = rng
        self.anchor_n = 0       # anchor names are unique in the whole stream
        self.key_n = 0
        self.anchors = []       # anchors defined so far in the current document
        self.handles = []       # named handles declared in the current document

    # ---- scalars ----
    def word(self):
        r = self.rng
        w = r.choice(WORDS)
        if r.random() < 0.25:
            w += " " + r.choice(WORDS)
        return w

    def single(self):
        r = self.rng
        parts = [r.choice(WORDS)]
        for _ in range(r.randrange(3)):
            parts.append(r.choice(SQ_PUNCT + [" "]))
            parts.append(r.choice(WORDS))
        return "'" + "".join(parts) + S_SQ + "'"

    def double(self):
        r = self.rng
        parts = [S_ESC, r.choice(WORDS)]
        for _ in range(r.randrange(4)):
            parts.append(S_ESC)
            parts.append(r.choice(DQ_ESC + DQ_PUNCT + [" "]))
            parts.append(r.choice(WORDS + [""]))
        parts.append(S_ESC)
        return "\"" + "".join(parts) + S_DQ + "\""

    def props(self, collection=False):
        """node properties (anchor and/or tag), each followed by a space"""
        r = self.rng
        p = ""
        x = r.random()
        if x < 0.12:
            self.anchor_n += 1
            name = "a%d" % self.anchor_n
            p += "&" + name + " "
            self._new_anchor = name
        x = r.random()
        if x < 0.10:
            tags = ["!t", "!local-1"] + (["!!map", "!!seq"] if collection else ["!!str", "!!int"])
            if collection:
                tags = ["!t", "!!map"] if collection == "map" else ["!t", "!!seq"]
            if self.handles:
                tags.append(self.handles[0] + "x")
            p += r.choice(tags) + " "
        return p

    def scalar_node(self):
        """(text, val) of a scalar in node position"""
        r = self.rng
        self._new_anchor = None
        p = self.props()
        x = r.random()
        if x < 0.45:
            body, val = self.word(), "plain"
        elif x < 0.72:
            body, val = self.single(), "quoted"
        else:
            body, val = self.double(), "quoted"
        if p:
            t = p + body
        else:
            t = S_V0 + body + S_V1
        if self._new_anchor:
            self.anchors.append(self._new_anchor)
        return t, val

    def key(self):
        r = self.rng
        self.key_n += 1
        x = r.random()
        if x < 0.7:
            return "%s%d" % (r.choice(["k", "key", "name", "id"]), self.key_n)
        if x < 0.85:
            return "'q %d'" % self.key_n
        return "\"d%d\"" % self.key_n

    # ---- flow collections ----
    def flow_items(self, depth):
        """list of item texts of a flow sequence"""
        r = self.rng
        items = []
        for _ in range(r.randrange(0, 4)):
            x = r.random()
            if x < 0.5:
                items.append(self.scalar_node()[0])
            elif x < 0.6 and self.anchors:
                items.append("*" + r.choice(self.anchors))
            elif x < 0.75:
                items.append(self.key() + ": " + self.scalar_node()[0])     # single-pair mapping
            elif depth < 2:
                items.append(self.flow(depth + 1))
            else:
                items.append(self.scalar_node()[0])
        return items

    def flow_pairs(self, depth):
        r = self.rng
        items = []
        for _ in range(r.randrange(0, 4)):
            x = r.random()
            k = self.key()
            if x < 0.55:
                items.append(k + ": " + self.scalar_node()[0])
            elif x < 0.65:
                items.append(k)
            elif x < 0.75 and self.anchors:
                items.append(k + ": *" + r.choice(self.anchors))
            elif depth < 2:
                items.append(k + ": " + self.flow(depth + 1))
            else:
                items.append(k + ": " + self.scalar_node()[0])
        return items

    def flow_parts(self, depth):
        """(opener, [items], closer-with-sentinel)"""
        seq = self.rng.random() < 0.55
        items = self.flow_items(depth) if seq else self.flow_pairs(depth)
        sent = S_OC if depth == 0 else S_IC
        return ("[" if seq else "{"), items, sent + ("]" if seq else "}")

    def flow(self, depth=0):
        o, items, c = self.flow_parts(depth)
        pad = " " if self.rng.random() < 0.3 else ""
        return o + S_FB + pad + ("," + S_FB + " ").join(items) + pad + c

    def ml_flow(self, head_ind, head_text, base, levels, role, doc_key=None):
        """a flow collection spread over several lines; `base` = column of the enclosing block entry"""
        r = self.rng
        o, items, c = self.flow_parts(0)
        while len(items) < 2:
            items.append(self.scalar_node()[0])
        cont = head_ind + r.choice([2, 2, 4, 3]) if base >= 0 else r.choice([0, 1, 2])
        cont = max(cont, base + 1)
        k = r.randrange(1, len(items))
        first = head_text + o + S_FB + ("," + S_FB + " ").join(items[:k]) + "," + S_FB
        lines = [L(head_ind, first, role, levels, val="flowopen", **(doc_key or {}))]
        rest = items[k:]
        while rest:
            n = r.randrange(1, len(rest) + 1)
            chunk, rest = rest[:n], rest[n:]
            t = ("," + S_FB + " ").join(chunk)
            t += ("," + S_FB) if rest else c
            lines.append(L(cont, t, "flowcont", levels, base=base, val="flowopen" if rest else "flow"))
        return lines

    # ---- block collections ----
    def block_map(self, n, levels, depth):
        r = self.rng
        lv = list(levels) + [n]
        out = []
        for _ in range(r.randrange(1, 4 if depth else 5)):
            k = self.key()
            x = r.random()
            kw = dict(key=k, keypos=0)
            if x < 0.42 or depth >= 3:
                t, val = self.scalar_node()
                out.append(L(n, k + ": " + t, "key", lv, val=val, **kw))
            elif x < 0.54:
                out.append(L(n, k + ": " + self.flow(), "key", lv, val="flow", **kw))
            elif x < 0.62:
                out += self.ml_flow(n, k + ": ", n, lv, "key", kw)
            elif x < 0.69 and self.anchors:
                out.append(L(n, k + ": *" + r.choice(self.anchors), "key", lv, val="alias", **kw))
            elif x < 0.73:
                out.append(L(n, k + ":", "key", lv, val="empty", **kw))
            else:
                kind = "map" if r.random() < 0.5 else "seq"
                self._new_anchor = None
                p = self.props(collection=kind)
                if self._new_anchor:
                    self.anchors.append(self._new_anchor)
                out.append(L(n, k + ":" + (" " + p.rstrip() if p else ""), "key", lv, val="none", **kw))
                out += self.block_map(n + 2, lv, depth + 1) if kind == "map" else self.block_seq(n + 2, lv, depth + 1)
        return out

    def block_seq(self, n, levels, depth):
        r = self.rng
        lv = list(levels) + [n]
        out = []
        for _ in range(r.randrange(1, 4 if depth else 5)):
            x = r.random()
            if x < 0.42 or depth >= 3:
                t, val = self.scalar_node()
                out.append(L(n, "- " + t, "entry", lv, val=val))
            elif x < 0.52:
                out.append(L(n, "- " + self.flow(), "entry", lv, val="flow"))
            elif x < 0.58:
                out += self.ml_flow(n, "- ", n, lv, "entry")
            elif x < 0.64 and self.anchors:
                out.append(L(n, "- *" + r.choice(self.anchors), "entry", lv, val="alias"))
            elif x < 0.84:
                # compact nested collection: "- k: v" / "- - v"
                sub = self.block_map(n + 2, lv, depth + 1) if r.random() < 0.7 else self.block_seq(n + 2, lv, depth + 1)
                f = sub[0]
                m = f.copy()
                m.update(ind=n, text="- " + f.text, role="entry", compact=True)
                if f.key is not None:
                    m["keypos"] = f.keypos + 2
                out.append(m)
                out += sub[1:]
            else:
                kind = "map" if r.random() < 0.5 else "seq"
                out.append(L(n, "-", "entry", lv, val="none"))
                out += self.block_map(n + 2, lv, depth + 1) if kind == "map" else self.block_seq(n + 2, lv, depth + 1)
        return out

    # ---- comments ----
    def add_comments(self, lines):
        r = self.rng
        out = []
        for i, l in enumerate(lines):
            inside_flow = l.role == "flowcont"
            if not inside_flow and r.random() < 0.08:
                out.append(L(r.randrange(0, 7), "# " + r.choice(WORDS) + " " + r.choice(WORDS), "comment"))
            if l.val != "flowopen" and l.role in ("key", "entry", "flowcont", "root") and r.random() < 0.08:
                l = l.copy()
                l["text"] = l.text + " # " + r.choice(WORDS)
            out.append(l)
        return out

    # ---- documents and streams ----
    def document(self, idx, prev_ended):
        """lines of one document + (root kind, has explicit end)"""
        r = self.rng
        self.anchors = []
        self.handles = []
        lines = []
        directives = []
        can_direct = idx == 0 or prev_ended
        if can_direct and r.random() < 0.3:
            if r.random() < 0.6:
                directives.append("%YAML 1.2")
            if r.random() < 0.6:
                directives.append("%TAG !e! tag:example.com,2000:")
                self.handles = ["!e!"]
            if r.random() < 0.2:
                directives.append("%TAG !! tag:example.com,2000:app/")
            r.shuffle(directives)
        explicit = bool(directives) or not can_direct or r.random() < 0.5
        for d in directives:
            lines.append(L(0, d, "directive"))
        x = r.random()
        body = []
        inline = None
        if x < 0.38:
            root = "map"
            body = self.block_map(0, [], 0)
        elif x < 0.66:
            root = "seq"
            body = self.block_seq(0, [], 0)
        elif x < 0.80:
            root = "flow"
            if r.random() < 0.3:
                body = self.ml_flow(0, "", -1, [], "root")
            else:
                body = [L(0, self.flow(), "root", [], val="flow")]
        else:
            t, val = self.scalar_node()
            root = "plain" if val == "plain" else "quoted"
            body = [L(0, t, "root", [], val=val)]
        if explicit:
            if root in ("flow", "plain", "quoted") and r.random() < 0.5:
                f = body[0].copy()
                f["text"] = "--- " + f.text
                f["inline_start"] = True
                body[0] = f
            else:
                lines.append(L(0, "---", "docstart"))
        body = self.add_comments(body)
        lines += body
        ended = r.random() < 0.4
        if ended:
            lines.append(L(0, "...", "docend"))
        for l in lines:
            l["doc"] = idx
        return lines, dict(root=root, ended=ended, explicit=explicit, directives=len(directives),
                           handles=list(self.handles), anchors=list(self.anchors))

    def stream(self):
        r = self.rng
        self.anchor_n = 0
        self.key_n = 0
        n = r.choice([1, 1, 1, 2, 2, 3])
        lines, docs = [], []
        prev_ended = True
        for i in range(n):
            dl, info = self.document(i, prev_ended)
            lines += dl
            docs.append(info)
            prev_ended = info["ended"]
        return lines, docs


# ------------------------------------------------------------------------------------------------
# (b) damage operators.  Each returns a list of (variant, damaged text).
# ------------------------------------------------------------------------------------------------
def positions(text, ch):
    return [i for i, c in enumerate(text) if c == ch]


def content_lines(lines):
    return [i for i, l in enumerate(lines) if l.role in ("key", "entry", "flowcont", "root")]


def op01_open_quote(lines, docs, rng):
    """[107]-[113], [120]-[125]: a quoted scalar ends with its closing quote; without it the scalar runs to the end of the
    input (no further quote of that kind follows) -> no derivation."""
    out = []
    T = render(lines)
    i = max(T.rfind(S_SQ), T.rfind(S_DQ))
    if i >= 0:
        q = T[i + 1]
        rest = strip(T[i + 2:])
        if q not in rest:
            out.append(("drop-last-closing-quote", strip(T[:i] + T[i + 2:])))
    # a new entry whose value opens a quote that is never closed
    last = lines[-1]
    if last.role in ("key", "entry", "flowcont") and last.val != "flowopen" and docs[-1]["root"] in ("map", "seq"):
        q = rng.choice("'\"")
        new = ("zq: " if docs[-1]["root"] == "map" else "- ") + q + "abc def"
        out.append(("append-entry-with-open-quote", strip(T) + new + rng.choice(["\n", "", "\n\n"])))
    ps = positions(T, S_ESC)
    if ps:
        p = rng.choice(ps)
        out.append(("truncate-inside-double-quoted", strip(T[:p]) + rng.choice(["", "\n"])))
    return out


def op02_open_flow(lines, docs, rng):
    """[137] c-flow-sequence ::= "[" ... "]", [140] c-flow-mapping ::= "{" ... "}": the closer is mandatory; when no closer
    at all follows (or the input is cut inside the collection) the end of the stream is reached inside the collection."""
    out = []
    T = render(lines)
    for p in reversed(positions(T, S_OC)):
        rest = strip(T[p + 2:])
        if "]" not in rest and "}" not in rest:
            out.append(("drop-outermost-closer", strip(T[:p] + T[p + 2:])))
        break
    ps = positions(T, S_FB)
    if ps:
        p = rng.choice(ps)
        out.append(("truncate-inside-flow", strip(T[:p]) + rng.choice(["", "\n", " "])))
    return out


def op03_mismatched_closer(lines, docs, rng):
    """Inside "[ ... ]" the character "}" is a c-flow-indicator: it cannot be part of a plain scalar in flow context
    ([129] ns-plain-safe(flow) excludes it) and nothing else of [137]-[150] derives it; vice versa for "]" in "{ }".
    After a COMPLETE flow collection in block context only s-l-comments (or ':' when it is a key) may follow on the
    line ([200] s-l+flow-in-block), never another closer."""
    out = []
    T = render(lines)
    ps = positions(T, S_OC) + positions(T, S_IC)
    if ps:
        p = rng.choice(ps)
        other = "}" if T[p + 1] == "]" else "]"
        out.append(("swap-closer", strip(T[:p] + other + T[p + 2:])))
    po = positions(T, S_OC)
    if po:
        p = rng.choice(po)
        out.append(("stray-closer-after-collection", strip(T[:p + 2] + rng.choice(["", " "]) + rng.choice("]}") + T[p + 2:])))
        # a legal last entry "?" (explicit key, empty key and value: [142]-[144] with e-node) and then a stray "]"
        ps2 = [q for q in po if T[q + 1] == "]"]
        if ps2:
            p = rng.choice(ps2)
            before = strip(T[:p]).rstrip(" ")
            sep = " " if before.endswith("[") or before.endswith(",") else ", "
            out.append(("stray-closer-after-empty-explicit-key", strip(T[:p] + sep + "? ]" + rng.choice(["", " "]) + "]" + T[p + 2:])))
    return out


def op04_tab_indent(lines, docs, rng):
    """[63] s-indent(n) ::= s-space x n -- indentation is spaces only.  A nested block line (key or entry, n >= 2) whose
    indentation is replaced by TAB(s) has zero indentation spaces: it is neither an entry of its collection nor
    (needing at least n+1 >= 1 spaces, [69] s-flow-line-prefix) a continuation line of a scalar."""
    out = []
    cands = [i for i, l in enumerate(lines) if l.role in ("key", "entry") and l.ind >= 2]
    if cands:
        i = rng.choice(cands)
        m = [l.copy() for l in lines]
        m[i]["raw"] = rng.choice(["\t", "\t\t", "\t" * (lines[i].ind // 2)])
        out.append(("tab-instead-of-indentation", strip(render(m))))
    return out


def op05_misindent(lines, docs, rng):
    """[183]/[187]: the entries of a block collection all have the same indentation n+m; a line that starts a key or an
    entry at a column x that is smaller than the innermost open level and equal to none of the open levels belongs
    to no collection.  It is not a continuation line of the previous scalar either: those need more spaces than the
    innermost level has."""
    out = []
    cl = content_lines(lines)
    cands = []
    for j in range(1, len(cl)):
        i, pi = cl[j], cl[j - 1]
        l, p = lines[i], lines[pi]
        if l.role not in ("key", "entry") or p.doc != l.doc or p.val == "flowopen":
            continue
        lv = p.levels
        if not lv:
            continue
        xs = [x for x in range(1, max(lv)) if x not in lv]
        if xs:
            cands.append((i, xs, p.val))
    if cands:
        i, xs, pval = rng.choice(cands)
        m = [l.copy() for l in lines]
        m[i]["ind"] = rng.choice(xs)
        out.append(("between-levels-after-" + ("complete" if pval in ("quoted", "flow", "alias") else str(pval)), strip(render(m))))
    return out


_QUOTED = re.compile(r"'(?:[^'\n]|'')*'|\"(?:[^\"\\\n]|\\.)*\"")


def unquoted(text):
    """the text with its (one-line) quoted scalars and its comments blanked out"""
    t = _QUOTED.sub("Q", strip(text))
    return re.sub(r"(^|\s)#[^\n]*", " ", t)


def has_plain_scalar(flow_text):
    """does the text of a (partial) flow collection hold a plain scalar?"""
    t = unquoted(flow_text).replace("Q", " ")
    t = re.sub(r"[&*][A-Za-z0-9]+", " ", t)
    t = re.sub(r"![^\s,\[\]{}]*", " ", t)
    return bool(re.sub(r"[\[\]{},:?\s]", "", t))


def op06_flow_indent(lines, docs, rng):
    """[200] s-l+flow-in-block(n) ::= s-separate(n+1,flow-out) ns-flow-node(n+1,flow-out): every continuation line of a flow
    collection that is a value / entry of a block collection at indentation n starts with [69] s-flow-line-prefix(n+1),
    i.e. at least n+1 spaces.  A continuation line at column <= n violates it."""
    out = []
    cands = [i for i, l in enumerate(lines) if l.role == "flowcont" and l.base is not None and l.base >= 0]
    if cands:
        i = rng.choice(cands)
        m = [l.copy() for l in lines]
        x = rng.randrange(0, lines[i].base + 1)
        m[i]["ind"] = x
        h = i - 1
        while lines[h].role == "flowcont":
            h -= 1
        ht = lines[h].text
        before = ht[ht.index(S_FB) - 1:] + "\n" + "\n".join(l.text for l in lines[h + 1:i])
        first = strip(lines[i].text)[:1]
        plain_start = first not in "'\"[]{}&*!,?"
        var = "continuation-%s-block-indentation/%s-start/%s" % (
            "at" if x == lines[i].base else "left-of", "plain" if plain_start else "non-plain",
            "plain-scalar-before" if has_plain_scalar(before) else "no-plain-scalar-before")
        out.append((var, strip(render(m))))
    return out


def key_lines(lines):
    return [i for i, l in enumerate(lines) if l.key is not None and l.role in ("key", "entry")]


def op07_multiline_key(lines, docs, rng):
    """[154]/[155] implicit keys are c-double-quoted(n,block-key) / (flow-key) = [111] nb-double-one-line (resp. [122]
    nb-single-one-line, [133] ns-plain-one-line): one line only.  In a flow SEQUENCE the single pair [150] ns-flow-pair-entry
    uses the same one-line implicit key productions (spec example 7.22 "Invalid Implicit Keys")."""
    out = []
    ks = key_lines(lines)
    if ks:
        i = rng.choice(ks)
        l = lines[i]
        q = rng.choice("'\"")
        m = [x.copy() for x in lines]
        head = l.text[:l.keypos]
        tail = l.text[l.keypos + len(l.key):]
        m[i]["text"] = head + q + "ab"
        extra = L(l.ind + l.keypos + rng.choice([1, 2, 4]), "cd" + q + tail, "other")
        m.insert(i + 1, extra)
        out.append(("quoted-block-key-on-two-lines", strip(render(m))))
    T = render(lines)
    po = [p for p in positions(T, S_OC) if T[p + 1] == "]"]
    if po:
        p = rng.choice(po)
        before = strip(T[:p]).rstrip(" ")
        sep = " " if before.endswith("[") or before.endswith(",") else ", "
        q = rng.choice(["'", "\"", ""])
        # continuation far to the right: deeper than any enclosing block
        line_start = T.rfind("\n", 0, p) + 1
        col = len(strip(T[line_start:p]))
        out.append((("quoted" if q else "plain") + "-flow-pair-key-on-two-lines",
                    strip(T[:p] + sep + q + "ab\n" + " " * (col + 2) + "cd" + q + ": v " + T[p + 1:])))
    return out


def op08_long_key(lines, docs, rng):
    """[154] c-s-implicit-json-key(c) and [155] ns-s-implicit-yaml-key(c): "At most 1024 characters altogether";
    used by block mapping implicit keys [193] and by the single pair of a flow sequence [150]/[151]."""
    out = []
    ks = key_lines(lines)
    n = rng.choice([1025, 1026, 1030, 1100, 2048])
    q = rng.choice(["", "", "'", "\""])
    if ks:
        i = rng.choice(ks)
        l = lines[i]
        m = [x.copy() for x in lines]
        body = "k" * (n - 2 * len(q))
        m[i]["text"] = l.text[:l.keypos] + q + body + q + l.text[l.keypos + len(l.key):]
        out.append(("block-key-%s" % ("plain" if not q else "quoted"), strip(render(m))))
    T = render(lines)
    po = [p for p in positions(T, S_OC) if T[p + 1] == "]"]
    if po:
        p = rng.choice(po)
        before = strip(T[:p]).rstrip(" ")
        sep = " " if before.endswith("[") or before.endswith(",") else ", "
        body = "k" * (n - 2 * len(q))
        out.append(("flow-pair-key-%s" % ("plain" if not q else "quoted"), strip(T[:p] + sep + q + body + q + ": v " + T[p + 1:])))
    return out


def op09_second_root(lines, docs, rng):
    """[207]-[211]: a document holds ONE root node.  The extra node is put on a line of its own at column 0 behind the
    complete root node (before the document end marker / next document / end of input).  After a root PLAIN scalar only a
    "key: value" line is appended (a further scalar would be a legal continuation line): then the multi-line scalar is an
    implicit key spanning lines, which [155] forbids."""
    out = []
    d = rng.randrange(len(docs))
    idx = [i for i, l in enumerate(lines) if l.doc == d and l.role in ("key", "entry", "flowcont", "root")]
    if not idx:
        return out
    last = idx[-1]
    root = docs[d]["root"]
    ll = lines[last]
    if ll.val in ("empty", "none", "flowopen"):
        return out
    if root == "plain":
        choices = ["zz: 1"]
    elif root in ("quoted", "flow"):
        choices = ["'second'", "second", "[s]", "zz: 1", "- s", "\"second\"", "{s: 1}", "&zz9 s", "!!str s"]
    elif root == "map":
        choices = ["'second'", "second", "[s]", "\"second\"", "{s: 1}"]
    else:
        choices = ["'second'", "second", "[s]", "zz: 1", "\"second\"", "{s: 1}"]
    c = rng.choice(choices)
    m = [x.copy() for x in lines]
    m.insert(last + 1, L(0, c, "other"))
    out.append(("after-root-%s" % root, strip(render(m))))
    return out


BAD_ESCAPES = (
    [("unknown", "\\" + c) for c in "qcdgz'1-9#,.:;=?@AGKMQRSTVWXYZ()[]{}!$%&*+<>^`|~ijklmopsw"]
    + [("truncated", s) for s in ["\\x4~", "\\x~~", "\\u12~", "\\u123~", "\\u~", "\\U0001F60~", "\\U1~", "\\x", "\\u", "\\U"]]
    + [("non-hex", s) for s in ["\\xG1", "\\x1G", "\\u00g9", "\\uZZZZ", "\\U0001F6ZZ", "\\x 1", "\\u 041"]]
    + [("non-scalar-value", s) for s in ["\\uD800", "\\uDBFF", "\\uDC00", "\\uDFFF", "\\U0000D800", "\\U00110000", "\\UFFFFFFFF"]]
)


def op10_bad_escape(lines, docs, rng):
    """[41]-[62] c-ns-esc-char: the character behind the backslash must be one of 0 a b t TAB n v f r e SPACE " / \\ N _ L P
    x u U, and x / u / U are followed by exactly 2 / 4 / 8 ns-hex-digit.  ("~" is put behind a short digit run so that no
    hex digit of the surrounding text completes it.)  Code points that are no Unicode scalar value are not c-printable."""
    out = []
    T = render(lines)
    ps = positions(T, S_ESC)
    if ps:
        for _ in range(2):
            p = rng.choice(ps)
            kind, esc = rng.choice(BAD_ESCAPES)
            if esc in ("\\x", "\\u", "\\U"):
                # directly before the closing quote: the scalar ends inside the escape
                q = T.find(S_DQ, p)
                p = q if q >= 0 else p
                nxt = strip(T[p:])[:1]
                if nxt != "\"":
                    esc += "~"
            out.append(("escape-" + kind, strip(T[:p] + esc + T[p:])))
    return out


def v_regions(line_text):
    """[(start, end)] of the replaceable scalars (sentinel positions) in a line"""
    out = []
    i = 0
    while True:
        a = line_text.find(S_V0, i)
        if a < 0:
            return out
        b = line_text.find(S_V1, a)
        out.append((a, b))
        i = b + 1


def op11_dangling_alias(lines, docs, rng):
    """YAML 1.2.2 section 3.2.2.2 / 7.1: "It is an error for an alias node to use an anchor that does not previously occur
    in the document."  Anchor names are unique in the generated stream, so an anchor of another document or one that is
    defined further down is not defined before the alias."""
    out = []
    regs = [(i, a, b) for i, l in enumerate(lines) for (a, b) in v_regions(l.text)]
    if not regs:
        return out

    def repl(i, a, b, name):
        m = [x.copy() for x in lines]
        t = lines[i].text
        m[i]["text"] = t[:a] + "*" + name + t[b + 1:]
        return strip(render(m))
    i, a, b = rng.choice(regs)
    out.append(("never-defined", repl(i, a, b, "zz9")))
    anchors = [(i, mm.start(), mm.group(1)) for i, l in enumerate(lines) for mm in re.finditer(r"&(a\d+)", l.text)]
    # anchor of an EARLIER document
    c = [(i, a, b, nm) for (i, a, b) in regs for (ai, ac, nm) in anchors if lines[ai].doc < lines[i].doc]
    if c:
        i, a, b, nm = rng.choice(c)
        out.append(("defined-in-previous-document", repl(i, a, b, nm)))
    # anchor defined LATER in the same document
    c = [(i, a, b, nm) for (i, a, b) in regs for (ai, ac, nm) in anchors
         if lines[ai].doc == lines[i].doc and (ai > i or (ai == i and ac > b))]
    if c:
        i, a, b, nm = rng.choice(c)
        out.append(("defined-later", repl(i, a, b, nm)))
    return out


def op12_undeclared_handle(lines, docs, rng):
    """[99] c-ns-shorthand-tag with a [92] c-named-tag-handle: "a named handle ... must be declared by a %TAG directive of
    the document" (6.8.2 / 6.9.1).  "!u!" is never declared by the generator; "!e!" only in documents that list it."""
    out = []
    regs = [(i, a) for i, l in enumerate(lines) for (a, b) in v_regions(l.text)]
    if not regs:
        return out

    def ins(i, a, tag):
        m = [x.copy() for x in lines]
        t = lines[i].text
        m[i]["text"] = t[:a] + tag + " " + t[a:]
        return strip(render(m))
    i, a = rng.choice(regs)
    out.append(("never-declared", ins(i, a, rng.choice(["!u!x", "!u!y-1", "!abc!def", "!u!x%41"]))))
    c = [(i, a) for (i, a) in regs if "!e!" not in docs[lines[i].doc]["handles"]
         and any("!e!" in docs[k]["handles"] for k in range(lines[i].doc))]
    if c:
        i, a = rng.choice(c)
        out.append(("declared-in-previous-document", ins(i, a, "!e!x")))
    return out


def doc_can_have_directives(docs, d):
    return docs[d]["explicit"] and (d == 0 or docs[d - 1]["ended"])


def doc_first_line(lines, d):
    for i, l in enumerate(lines):
        if l.doc == d:
            return i
    return None


def op13_repeated_yaml(lines, docs, rng):
    """6.8.1: "It is an error to specify more than one YAML directive for the same document, even if both occurrences give
    the same version number." """
    out = []
    ds = [d for d in range(len(docs)) if doc_can_have_directives(docs, d)]
    if not ds:
        return out
    d = rng.choice(ds)
    first = doc_first_line(lines, d)
    m = [x.copy() for x in lines]
    have = [i for i, l in enumerate(lines) if l.doc == d and l.role == "directive" and l.text.startswith("%YAML")]
    v = rng.choice(["%YAML 1.2", "%YAML 1.1", "%YAML 1.2 # again"])
    if have:
        pos = rng.choice([first, have[0] + 1])
        m.insert(pos, L(0, v, "directive", doc=d))
    else:
        m.insert(first, L(0, v, "directive", doc=d))
        m.insert(first, L(0, "%YAML 1.2", "directive", doc=d))
    out.append(("second-yaml-directive", strip(render(m))))
    return out


def op14_directive_without_start(lines, docs, rng):
    """[210] l-explicit-document needs c-directives-end; [209]/[211] l-directive-document ::= l-directive+ l-explicit-document:
    directives are always followed by "---".  A "%..." line at column 0 behind an open document whose last node is not a
    root plain scalar cannot continue anything ("%" is a c-indicator, no plain scalar starts with it) and a directive
    needs a preceding "..." (9.2: "l-document-suffix" before "l-directive-document")."""
    out = []
    T = strip(render(lines))
    dirs = rng.choice([["%YAML 1.2"], ["%TAG !x! tag:x.org,2000:"], ["%YAML 1.2", "%TAG !x! tag:x.org,2000:"], ["%FOO bar"]])
    tail = "\n".join(dirs) + "\n"
    ended = lines[-1].role == "docend"
    out.append(("directives-at-end-of-stream", T + ("" if ended else "...\n") + tail + rng.choice(["", "# c\n", "\n"])))
    last = lines[-1]
    if not ended and docs[-1]["root"] != "plain" and last.val not in ("flowopen", "empty", "none", "plain"):
        out.append(("directive-without-document-end-marker", T + "%YAML 1.2\n--- x\n"))
    # a document with directives loses its "---"
    ds = [d for d in range(len(docs)) if docs[d]["directives"] > 0]
    if ds:
        d = rng.choice(ds)
        m = [x.copy() for x in lines]
        for i, l in enumerate(m):
            if l.doc == d and l.role == "docstart":
                del m[i]
                out.append(("directives-then-content-without-start-marker", strip(render(m))))
                break
            if l.doc == d and l.inline_start:
                l["text"] = l.text[4:]
                out.append(("directives-then-content-without-start-marker", strip(render(m))))
                break
    return out


def op15_after_document_end(lines, docs, rng):
    """[204] c-document-end ::= "..." ; [205] l-document-suffix ::= c-document-end s-l-comments: only a comment may follow
    the marker on its line (and [206] c-forbidden keeps "... x" from being scalar content)."""
    out = []
    junk = rng.choice(["x", "'q'", "[a]", "k: v", "- a", "\"d\"", "&zz9 a", "*zz9", "!!str a", "x # c", "%YAML 1.2", "---", "..."])
    m = [x.copy() for x in lines]
    ends = [i for i, l in enumerate(lines) if l.role == "docend"]
    if ends:
        i = rng.choice(ends)
        m[i]["text"] = "... " + junk
    else:
        if lines[-1].val == "flowopen":
            return out
        m.append(L(0, "... " + junk, "docend"))
    out.append(("content-after-document-end-marker", strip(render(m))))
    return out


OPS = [
    ("01-open-quote", op01_open_quote),
    ("02-open-flow", op02_open_flow),
    ("03-mismatched-closer", op03_mismatched_closer),
    ("04-tab-indent", op04_tab_indent),
    ("05-misindent", op05_misindent),
    ("06-flow-indent", op06_flow_indent),
    ("07-multiline-key", op07_multiline_key),
    ("08-long-key", op08_long_key),
    ("09-second-root", op09_second_root),
    ("10-bad-escape", op10_bad_escape),
    ("11-dangling-alias", op11_dangling_alias),
    ("12-undeclared-handle", op12_undeclared_handle),
    ("13-repeated-yaml", op13_repeated_yaml),
    ("14-directive-without-start", op14_directive_without_start),
    ("15-after-document-end", op15_after_document_end),
]


# ------------------------------------------------------------------------------------------------
# known findings: decidable predicates on the damaged text
# ------------------------------------------------------------------------------------------------
# Three classes recorded earlier are repaired in /repo and suppress nothing any more (known_findings_c06.jsonl lists them as
# `fixed`): the stray closer behind an empty explicit key (c5ad60c), the multi-line flow pair key behind an earlier flow
# mapping (ad74b3e) and the implicit key of more than 1024 characters as single pair of a flow sequence (57aa316).  Their
# operator variants (03/stray-closer-after-empty-explicit-key, 07/*-flow-pair-key-on-two-lines, 08/flow-pair-key-*) and the
# fixed witnesses below are ordinary test streams now: an acceptance is a VIOLATION.
PREDICATES = {
    # a continuation line of a flow collection exactly AT the indentation of the enclosing block entry, not starting with
    # a plain scalar, after a plain scalar was scanned inside the collection
    "flow-continuation-at-block-indentation":
        lambda cls, var, text: cls == "06-flow-indent"
        and var == "continuation-at-block-indentation/non-plain-start/plain-scalar-before",
}


def known_classes():
    out = []
    if os.path.exists(KNOWN_FILE):
        for l in open(KNOWN_FILE):
            l = l.strip()
            if l:
                d = json.loads(l)
                if d.get("property") == "C06" and d.get("status") == "known" and d.get("class") in PREDICATES:
                    out.append(d)
    return out


def verdicts(ev_str, ev_iter, load):
    """(rejected by all three, description)"""
    fs, fi = split_line(ev_str)[1], split_line(ev_iter)[1]
    ok = fs.startswith("ERR@") and fi.startswith("ERR@") and load.startswith("ERR")
    return ok, "str:%s iter:%s load:%s" % (fs[:70], fi[:70], load[:70])


def check_C06(tier, seed):
    res = Result("C06", tier, seed)
    proof = prepare("C06", res)
    rng = gen.rng_for(seed, "C06")
    n_bases = 2500 if tier == "quick" else 30000
    sg = StreamGen(rng)
    bases = []
    seen = set()
    for _ in range(n_bases):
        lines, docs = sg.stream()
        t = strip(render(lines))
        if t not in seen:
            seen.add(t)
            bases.append((lines, docs, t))
    res.coverage["bases_generated"] = len(bases)
    rule = ("well-formed base streams from a structural generator (block mappings/sequences, 2-space indentation, plain/"
            "single/double-quoted scalars, one- and multi-line flow collections, anchors/aliases, tags, %YAML/%TAG, comments, "
            "1-3 documents), kept only if the implementation accepts them; 15 damage classes (several variants each) applied at "
            "random legal places, each constructed to be ill-formed by YAML 1.2.2 whatever surrounds it; + the 94 fail cases of "
            "the yaml-test-suite; non-trivial = distinct damaged texts whose base stream holds at least one collection or two "
            "documents")
    if not (res.harness_ok and res.model_ok):
        return res.finish(proof, rule)

    # ---- (a) the bases must be accepted ----
    bl = [enc(t) for _, _, t in bases]
    b_str = run_hx(["events", "str"], bl)
    b_iter = run_hx(["events", "iter"], bl)
    b_load = run_hx(["load", "yaml", "eager"], bl)
    b_mx = run_mx(["events", "str"], bl)
    accepted, rejected = [], []
    for k, (lines, docs, t) in enumerate(bases):
        res.evaluations += 1
        if b_str[k].endswith("|OK") and b_iter[k].endswith("|OK") and b_load[k].startswith("OK"):
            accepted.append(k)
        else:
            rejected.append(k)
        if split_line(b_mx[k])[0] != split_line(b_str[k])[0] or fin_pos(split_line(b_mx[k])[1]) != fin_pos(split_line(b_str[k])[1]):
            res.add_tie_break("correspondence on a base stream: model pipeline != implementation", case=t,
                              model=b_mx[k][-300:], impl=b_str[k][-300:])
    res.coverage["bases_accepted"] = len(accepted)
    res.coverage["bases_rejected"] = len(rejected)
    res.coverage["base_acceptance_rate"] = round(len(accepted) / max(1, len(bases)), 4)
    if rejected:
        res.coverage["rejected_base_samples"] = [dict(input=bases[k][2][:400], impl=split_line(b_str[k])[1][:120]) for k in rejected[:5]]
        res.notes.append("%d generated base streams were rejected by the implementation (generator / C03 matter, not damaged, not counted as C06 findings)" % len(rejected))
    if len(accepted) < 0.9 * len(bases):
        res.add_tie_break("the generator of well-formed streams no longer matches the implementation: only %d of %d bases accepted"
                          % (len(accepted), len(bases)), samples=[bases[k][2][:300] for k in rejected[:5]])

    # ---- (a2) legal neighbours of the repaired damage classes must stay accepted (the repairs do not reject too much;
    #      Properties/C06.v states it for the model: C06_empty_explicit_key_accepted, C06_long_flow_pair_key_text_rejected) ----
    legal = ["[ ? ]", "[ ? : x ]\n", "[ " + "k" * 1024 + ": v ]\n", "[ \"" + "k" * 1022 + "\": v ]\n",
             "{ " + "k" * 1025 + ": v }\n", "[ ? " + "k" * 1025 + " : v ]\n", "[ {" + "k" * 1025 + ": v} ]\n",
             "[ a: b, c: d ]\n", "{}\n---\n[ a: v ]\n", "[ a ]\n", "{ a: [ b ] }\n"]
    ll = [enc(t) for t in legal]
    l_str, l_iter, l_load, l_mx = (run_hx(["events", "str"], ll), run_hx(["events", "iter"], ll),
                                   run_hx(["load", "yaml", "eager"], ll), run_mx(["events", "str"], ll))
    for k, t in enumerate(legal):
        res.evaluations += 1
        if not (l_str[k].endswith("|OK") and l_iter[k].endswith("|OK") and l_load[k].startswith("OK")):
            res.add_tie_break("a legal neighbour of a repaired damage class is rejected by the implementation (the model theorems "
                              "state acceptance)", case=t[:80] + ("..." if len(t) > 80 else ""), impl=split_line(l_str[k])[1][:200])
        if split_line(l_mx[k])[0] != split_line(l_str[k])[0] or fin_pos(split_line(l_mx[k])[1]) != fin_pos(split_line(l_str[k])[1]):
            res.add_tie_break("correspondence on a legal neighbour stream: model pipeline != implementation", case=t[:80],
                              model=l_mx[k][-300:], impl=l_str[k][-300:])
    res.coverage["legal_neighbours_accepted"] = sum(1 for k in range(len(legal)) if l_str[k].endswith("|OK"))

    # ---- (b) damage ----
    cases = []      # (class, variant, text, base index)
    dseen = set()
    per_class = {}
    per_variant = {}
    rounds = 1 if tier == "quick" else 2
    for k in accepted:
        lines, docs, t = bases[k]
        for _ in range(rounds):
            for cls, op in OPS:
                for var, txt in op(lines, docs, rng):
                    if txt == t or (cls, txt) in dseen:
                        continue
                    dseen.add((cls, txt))
                    cases.append((cls, var, txt, k))
                    per_class[cls] = per_class.get(cls, 0) + 1
                    per_variant[cls + "/" + var] = per_variant.get(cls + "/" + var, 0) + 1
    # fixed witnesses of the classes (hand-written, each ill-formed by the production quoted at its operator)
    for cls, var, txt in [
        ("01-open-quote", "witness", "a: 'b\n"), ("01-open-quote", "witness", "\"abc"),
        ("02-open-flow", "witness", "[a, b\n"), ("02-open-flow", "witness", "k: {a: 1,\n"),
        ("03-mismatched-closer", "witness", "[a, b}\n"), ("03-mismatched-closer", "witness", "{a: 1]\n"),
        ("03-mismatched-closer", "witness", "k: [a]]\n"),
        # regression witnesses of /repo c5ad60c (were accepted: the ']' behind an empty explicit key was swallowed)
        ("03-mismatched-closer", "stray-closer-after-empty-explicit-key", "[ ? ] ]"),
        ("03-mismatched-closer", "stray-closer-after-empty-explicit-key", "[a, ? ] ]\n"),
        ("03-mismatched-closer", "stray-closer-after-empty-explicit-key", "k: [ ? ] ]\n"),
        ("03-mismatched-closer", "stray-closer-after-empty-explicit-key", "[ ? ] , ]\n"),
        # regression witnesses of /repo 88700d3 ("[ : } ]" was accepted as [{~: ~}]: the scanner popped the flow level at a
        # closer of the wrong kind and the parser missed the mismatch behind an implicit pair); now a scan error at the closer
        ("03-mismatched-closer", "wrong-closer-behind-implicit-pair", "[ : } ]\n"),
        ("03-mismatched-closer", "wrong-closer-behind-implicit-pair", "[ a: b } ]\n"),
        ("03-mismatched-closer", "wrong-closer-behind-implicit-pair", "[ ? a } ]\n"),
        ("03-mismatched-closer", "wrong-closer-behind-implicit-pair", "- [ : } ]\n"),
        ("03-mismatched-closer", "wrong-closer-behind-implicit-pair", "{ a: [ : } }\n"),
        ("03-mismatched-closer", "witness", "[ a }\n"), ("03-mismatched-closer", "witness", "{ a ]\n"),
        ("04-tab-indent", "witness", "a:\n\tb: 1\n"),
        # [69] s-flow-line-prefix(n) = s-indent(n) ...: a continuation line of a plain scalar inside a flow collection that is
        # nested in a block collection must be indented by SPACES beyond the block's indentation; a TAB in those columns is
        # not indentation (seeded change C06-3 dropped exactly this test for flow context)
        ("04-tab-indent", "tab-in-flow-continuation", "- [\n foo\n\tbar\n ]\n"),
        ("04-tab-indent", "tab-in-flow-continuation", "a:\n  [ foo\n\tbar ]\n"),
        ("04-tab-indent", "tab-in-flow-continuation", "k: {\n  a: foo\n\tbar\n  }\n"),
        ("04-tab-indent", "tab-in-flow-continuation", "- - [ a\n\tb ]\n"),
        ("04-tab-indent", "tab-in-flow-continuation", "- {a: b\n\tc}\n"),
        ("04-tab-indent", "tab-in-flow-continuation", "a:\n - [ p\n\t\tq ]\n"),
        ("05-misindent", "witness", "a:\n  b: 'x'\n c: 1\n"),
        ("06-flow-indent", "witness", "k:\n  j: [a,\n  b]\n"), ("06-flow-indent", "witness", "k: [a,\nb]\n"),
        ("07-multiline-key", "witness", "\"a\n  b\": 1\n"),
        # regression witnesses of /repo ad74b3e (were accepted once any '{' had been seen, also in an earlier document)
        ("07-multiline-key", "quoted-flow-pair-key-on-two-lines", "[ \"a\n b\": v ]\n"),
        ("07-multiline-key", "quoted-flow-pair-key-on-two-lines", "- {}\n- [ \"a\n b\": v ]\n"),
        ("07-multiline-key", "plain-flow-pair-key-on-two-lines", "{}\n---\n[ a\n b: v ]\n"),
        ("07-multiline-key", "quoted-flow-pair-key-on-two-lines", "[ {x: 1}, 'a\n b': v ]\n"),
        ("07-multiline-key", "plain-flow-pair-key-on-two-lines", "{ x: [ a\n b: v ] }\n"),
        ("07-multiline-key", "plain-flow-pair-key-on-two-lines", "[ ? x : y, a\n b: v ]\n"),
        ("08-long-key", "witness", "k" * 1025 + ": v\n"),
        # regression witnesses of /repo 57aa316 (were accepted: no length limit for the implicit key of a flow-sequence pair)
        ("08-long-key", "flow-pair-key-plain", "[ " + "k" * 1025 + ": v ]\n"),
        ("08-long-key", "flow-pair-key-quoted", "[ \"" + "k" * 1023 + "\": v ]\n"),
        ("08-long-key", "flow-pair-key-quoted", "[ '" + "k" * 1023 + "': v ]\n"),
        ("08-long-key", "flow-pair-key-plain", "[ a, " + "k" * 2048 + ": v ]\n"),
        ("08-long-key", "flow-pair-key-plain", "- {}\n- [ " + "k" * 1025 + ": v ]\n"),
        ("08-long-key", "flow-pair-key-plain", "{ x: [ " + "k" * 1025 + ": v ] }\n"),
        ("08-long-key", "flow-pair-key-plain", "k: [ {x: 1}, " + "k" * 1025 + ": v ]\n"),
        ("09-second-root", "witness", "'a'\n'b'\n"), ("09-second-root", "witness", "[a]\n[b]\n"),
        ("10-bad-escape", "witness", "\"\\q\"\n"), ("10-bad-escape", "witness", "\"\\x4\"\n"),
        ("11-dangling-alias", "witness", "*a\n"), ("11-dangling-alias", "witness", "&a x\n---\n*a\n"),
        ("11-dangling-alias", "witness", "- *a\n- &a x\n"),
        ("12-undeclared-handle", "witness", "!u!x a\n"),
        ("12-undeclared-handle", "witness", "%TAG !e! tag:e,\n--- !e!x a\n...\n--- !e!x b\n"),
        ("13-repeated-yaml", "witness", "%YAML 1.2\n%YAML 1.2\n--- a\n"),
        ("14-directive-without-start", "witness", "%YAML 1.2\n"), ("14-directive-without-start", "witness", "'a'\n%YAML 1.2\n--- b\n"),
        ("15-after-document-end", "witness", "a\n... b\n"),
    ]:
        if (cls, txt) not in dseen:
            dseen.add((cls, txt))
            cases.append((cls, var, txt, -1))
            per_class[cls] = per_class.get(cls, 0) + 1
    # systematic family for damage class 06 ([200] s-l+flow-in-block(n): every continuation line of a flow collection that
    # is an entry / value of a block collection at indentation n needs at least n+1 spaces): block context x node
    # properties in front of the bracket x what stands inside before the line break x continuation column 0..n x what the
    # continuation line starts with.  The variant string is the one of op06, so the recorded class (continuation exactly AT
    # the indentation, not starting with a plain scalar, behind a plain scalar) is recognised and everything else must be
    # rejected — in particular the shapes without a plain scalar in front (seeded change C06-6).
    fam = 0
    for head, n in (("- ", 0), ("k: ", 0), ("k:\n  - ", 2), ("- - ", 2), ("- k: ", 2), ("a:\n  b: ", 2), ("- - - ", 4)):
        for pr in ("", "&a ", "!t ", "&a !t "):
            for op, cl in (("[", "]"), ("{", "}")):
                for first in ("", "'x',", "\"x\",", "x,", "[y],", "&b 'y',", "x: 'y',"):
                    if op == "{" and first in ("x,", "[y],"):
                        continue
                    for x in range(0, n + 1):
                        for cont in (cl, "'z'" + cl, "\"z\"" + cl, "[z]" + cl, "z" + cl, "&c 'z'" + cl):
                            if op == "{" and cont[:1] in ("'", "\"", "[", "z", "&") and not first:
                                body = cont
                            else:
                                body = cont
                            if op == "{" and cont != cl:
                                body = "q: " + cont if cont[:1] != "z" else "z: 1" + cl
                            txt = head + pr + op + first + "\n" + " " * x + body + "\n"
                            plain_start = body[:1] not in "'\"[]{}&*!,?"
                            var = "continuation-%s-block-indentation/%s-start/%s" % (
                                "at" if x == n else "left-of", "plain" if plain_start else "non-plain",
                                "plain-scalar-before" if has_plain_scalar(op + first) else "no-plain-scalar-before")
                            if ("06-flow-indent", txt) not in dseen:
                                dseen.add(("06-flow-indent", txt))
                                cases.append(("06-flow-indent", var, txt, -1))
                                fam += 1
    res.coverage["flow_continuation_family"] = fam
    per_class["06-flow-indent"] = per_class.get("06-flow-indent", 0) + fam
    res.coverage["damaged_per_class"] = dict(sorted(per_class.items()))
    res.coverage["damaged_per_variant"] = dict(sorted(per_variant.items()))
    dl = [enc(c[2]) for c in cases]
    d_str = run_hx(["events", "str"], dl)
    d_iter = run_hx(["events", "iter"], dl)
    d_load = run_hx(["load", "yaml", "eager"], dl)
    d_mx = run_mx(["events", "str"], dl)
    known = known_classes()
    known_hits = {}
    err_msgs = {}
    accepted_per_class = {}
    for j, (cls, var, txt, k) in enumerate(cases):
        res.evaluations += 1
        ok, desc = verdicts(d_str[j], d_iter[j], d_load[j])
        if ok:
            msg = fin_msg(split_line(d_str[j])[1])
            err_msgs.setdefault(cls, {})
            err_msgs[cls][msg] = err_msgs[cls].get(msg, 0) + 1
            if k >= 0 and (len(bases[k][1]) >= 2 or bases[k][1][0]["root"] in ("map", "seq", "flow")):
                res.nontrivial.add((cls, txt))
        else:
            accepted_per_class[cls] = accepted_per_class.get(cls, 0) + 1
            hit = None
            for kf in known:
                if PREDICATES[kf["class"]](cls, var, txt):
                    hit = kf
                    break
            abnormal = not all(x.endswith("|OK") or split_line(x)[1].startswith("ERR@") for x in (d_str[j], d_iter[j]))
            if hit is not None and not abnormal:
                known_hits.setdefault(hit["class"], []).append(txt)
            else:
                res.add_violation("ill-formed input (damage class %s, variant %s) is not rejected by all of events/str, events/iter, load"
                                  % (cls, var), dict(input=txt, codepoints=dl[j], damage_class=cls, variant=var,
                                                     base=bases[k][2] if k >= 0 else None), verdicts=desc)
        ms, is_ = split_line(d_mx[j]), split_line(d_str[j])
        if ms[0] != is_[0] or fin_pos(ms[1]) != fin_pos(is_[1]):
            res.add_tie_break("correspondence on a damaged stream: model pipeline != implementation (events or verdict/position)",
                              case=txt, damage_class=cls, model=d_mx[j][-300:], impl=d_str[j][-300:])
    res.coverage["accepted_damaged_per_class"] = accepted_per_class
    res.coverage["error_messages_per_class"] = {c: dict(sorted(m.items(), key=lambda kv: -kv[1])[:6]) for c, m in sorted(err_msgs.items())}
    for c, hits in sorted(known_hits.items()):
        kf = [x for x in known if x["class"] == c][0]
        res.known.append("class=%s cases=%d first=%s -- %s (see known_findings_c06.jsonl)"
                         % (c, len(hits), json.dumps(min(hits, key=len))[:160], kf["what"][:200]))
    res.coverage["known_finding_hits"] = {c: len(h) for c, h in known_hits.items()}

    # ---- (c) the error cases of the official test suite ----
    fails = [t for t in gen.suite() if t.get("fail")]
    fl = [enc(t["yaml"]) for t in fails]
    f_str = run_hx(["events", "str"], fl)
    f_iter = run_hx(["events", "iter"], fl)
    f_load = run_hx(["load", "yaml", "eager"], fl)
    f_mx = run_mx(["events", "str"], fl)
    suite_acc = []
    for j, t in enumerate(fails):
        res.evaluations += 1
        ok, desc = verdicts(f_str[j], f_iter[j], f_load[j])
        if not ok:
            suite_acc.append(t.get("name"))
            res.add_violation("error case of the yaml-test-suite is not rejected", dict(input=t["yaml"], codepoints=fl[j], name=t.get("name")),
                              verdicts=desc)
        else:
            res.nontrivial.add(("suite", t["yaml"]))
        if fin_pos(split_line(f_mx[j])[1]) != fin_pos(split_line(f_str[j])[1]) or split_line(f_mx[j])[0] != split_line(f_str[j])[0]:
            res.add_tie_break("correspondence on a suite error case: model pipeline != implementation", case=t["yaml"],
                              model=f_mx[j][-300:], impl=f_str[j][-300:])
    res.coverage["suite_fail_cases"] = len(fails)
    res.coverage["suite_fail_cases_rejected"] = len(fails) - len(suite_acc)
    res.coverage["suite_fail_cases_accepted"] = suite_acc
    res.coverage["traces_validated_against_impl"] = len(bases) + len(cases) + len(fails)
    res.coverage["input_distribution"] = dict(bases=len(bases), damaged=len(cases), suite=len(fails),
                                              documents_per_base={str(n): sum(1 for b in bases if len(b[1]) == n) for n in (1, 2, 3)})
    step = max(1, len(cases) // 7)
    for j in range(0, len(cases), step):
        cls, var, txt, k = cases[j]
        res.samples.append(dict(damage_class=cls, variant=var, input=txt[:300], impl=split_line(d_str[j])[1][:100]))
    if tier == "thorough" and proof.get("ok"):
        with core.Lock():
            ok, out = core.coqchk("C06")
        res.coverage["coqchk"] = "ok" if ok else "FAILED"
        if not ok:
            res.add_tie_break("coqchk rejects the compiled proofs", error=out[-1500:])
    return res.finish(proof, rule)
