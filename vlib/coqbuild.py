"""python3 -m vlib.coqbuild [targets...]  — build Coq targets (default: everything) under the build lock."""
import sys
from . import core

with core.Lock():
    core.gen_tables()
    ok, out = core.coq_build(sys.argv[1:]) if len(sys.argv) > 1 else core.coq_build([])
print(out[-6000:])
sys.exit(0 if ok else 1)
