"""Case generators.  Every random choice derives from one random.Random(seed)."""
import itertools
import json
import os
import random

from .core import VERIF

INDICATORS = "-?:,[]{}#&*!|>'\"%@`a1 \t\n\r"          # 24 symbols
INDICATORS_SMALL = "-?:,[]{}#&*!|>'\"a \n"            # 19 symbols (quick tier, length 4)
TOKENS = ["- ", "? ", ": ", ", ", "[", "]", "{", "}", "# c", "&a ", "*a ", "!t ", "!!str ", "| ", ">- ", "'q'",
          "\"d\"", "%YAML 1.2", "---", "...", "a", "b c", "1", " ", "  ", "\t", "\n", "\n  ", "\n    ", "\r\n",
          "\"a\\n b\"", "'it''s'", "\\", "\u00e9", "%TAG !e! tag:e,", "!e!x ", "\"\\x41\\u00e9\"", "|2\n", "key: ",
          "- - ", "a: b\n", "\u2028", "\ufeff", "\U0001f600", "!<v> ", "? a\n: b\n", "[a, b]", "{a: b}", "&b", "*b",
          "|+\n", ">2-\n", "'", "\"", "\\u00e9", "\\U0001F600", "\\x4", "%FOO bar", "!", "!!", "-", "?", ":", "~", "null",
          "0x1F", "1.5e3", ".inf", "true", "\n...\n", "\n---\n", "\r"]


def exhaustive(alphabet, maxlen):
    for n in range(maxlen + 1):
        for t in itertools.product(alphabet, repeat=n):
            yield "".join(t)


def soups(n, rng, maxtok=12):
    out = []
    for _ in range(n):
        k = 1 + rng.randrange(maxtok)
        out.append("".join(rng.choice(TOKENS) for _ in range(k)))
    return out


LINE_ITEMS = ["- ", "- a", "a: b", "a:", "? k", ": v", "[a, b]", "{a: b, c}", "# comment", "", "  ", "|", ">", "|-", "|+",
              "text", "'q'", "\"dq\"", "&x a", "*x", "!t a", "- - a", "- a: b", "a: - b", "---", "...", "--- a", "%YAML 1.2",
              "\ttab", "a: |", "- >", "x: [", "]", "{", "}", "? - a", ": - b", "a: &x", "k: *x", "- ? a", "\"multi", "line\"",
              "'multi", "line'", "a b  c", "a #c", "a: b #c", "a:\tb", "-\ta", "?\tk", ":\tv", "a : b", "a: b: c"]


def line_soups(n, rng, maxlines=7):
    out = []
    for _ in range(n):
        k = 1 + rng.randrange(maxlines)
        ind = 0
        lines = []
        for _ in range(k):
            r = rng.random()
            if r < 0.3:
                ind += rng.choice([1, 2, 2, 4])
            elif r < 0.55:
                ind = max(0, ind - rng.choice([1, 2, 2, 4]))
            lines.append(" " * ind + rng.choice(LINE_ITEMS))
        nl = rng.choice(["\n", "\n", "\n", "\r\n", "\r"])
        s = nl.join(lines)
        if rng.random() < 0.7:
            s += nl
        out.append(s)
    return out


def flow_soups(n, rng, maxdepth=4):
    """random flow collections with explicit keys, omitted keys/values, trailing commas, properties: mostly well-formed"""
    atoms = ["a", "b", "'q'", "\"d\"", "*x", "1", "a b"]
    props = ["", "", "", "&x ", "!t ", "&x !t ", "!!str "]

    def node(d):
        r = rng.random()
        if d <= 0 or r < 0.45:
            return rng.choice(props) + rng.choice(atoms) if rng.random() < 0.9 else rng.choice(props).strip()
        sp = lambda: rng.choice(["", " ", " ", "\n ", "  "])
        if r < 0.72:
            items = []
            for _ in range(rng.randrange(0, 4)):
                k = rng.random()
                if k < 0.45:
                    items.append(node(d - 1))
                elif k < 0.6:
                    items.append("? " + node(d - 1) + sp() + ":" + rng.choice([" ", ""]) + rng.choice([node(d - 1), ""]))
                elif k < 0.7:
                    items.append("? " + rng.choice([node(d - 1), ""]))
                elif k < 0.9:
                    items.append(rng.choice([node(d - 1), ""]) + sp() + ": " + rng.choice([node(d - 1), ""]))
                else:
                    items.append("")
            body = ("," + sp()).join(items)
            if rng.random() < 0.2:
                body += ","
            return rng.choice(props) + "[" + sp() + body + sp() + "]"
        items = []
        for _ in range(rng.randrange(0, 4)):
            k = rng.random()
            if k < 0.5:
                items.append(node(d - 1) + sp() + ": " + rng.choice([node(d - 1), ""]))
            elif k < 0.7:
                items.append("? " + node(d - 1) + sp() + ": " + node(d - 1))
            elif k < 0.8:
                items.append("? " + rng.choice([node(d - 1), ""]))
            elif k < 0.9:
                items.append(node(d - 1))
            else:
                items.append(": " + node(d - 1))
        body = ("," + sp()).join(items)
        if rng.random() < 0.2:
            body += ","
        return rng.choice(props) + "{" + sp() + body + sp() + "}"
    out = []
    for _ in range(n):
        s = node(maxdepth)
        r = rng.random()
        if r < 0.25:
            s = "k: " + s + "\n"
        elif r < 0.4:
            s = "- " + s + "\n"
        elif r < 0.5:
            s = "--- " + s + "\n...\n"
        if rng.random() < 0.12 and s:
            # a small mutation: drop or duplicate one character
            p = rng.randrange(len(s))
            s = s[:p] + (s[p] * 2 if rng.random() < 0.5 else "") + s[p + 1:]
        out.append(s)
    return out


_suite = None


def suite():
    global _suite
    if _suite is None:
        _suite = []
        with open(os.path.join(VERIF, "corpus", "suite.jsonl")) as f:
            for l in f:
                _suite.append(json.loads(l))
    return _suite


def suite_variants():
    """suite inputs plus CRLF and truncation/suffix variants"""
    out = []
    for t in suite():
        y = t["yaml"]
        out.append(y)
        out.append(y.replace("\n", "\r\n"))
        n = len(y)
        for k in (n // 3, n // 2, 2 * n // 3):
            out.append(y[:k])
            out.append(y[k:])
    return out


def mutated_suite(n, rng):
    docs = [t["yaml"] for t in suite()]
    out = []
    for _ in range(n):
        y = list(rng.choice(docs))
        for _ in range(1 + rng.randrange(3)):
            r = rng.random()
            pos = rng.randrange(len(y) + 1)
            if r < 0.35 and y:
                del y[min(pos, len(y) - 1)]
            elif r < 0.7:
                y.insert(pos, rng.choice(INDICATORS))
            elif y:
                y[min(pos, len(y) - 1)] = rng.choice(INDICATORS)
        out.append("".join(y))
    return out


def corpus_file(name):
    """minimised past disagreements / seeds: one JSON string per line"""
    p = os.path.join(VERIF, "corpus", name)
    out = []
    if os.path.exists(p):
        for l in open(p):
            l = l.strip()
            if l and not l.startswith("#"):
                out.append(json.loads(l))
    return out


def geometry(tier, rng):
    """Layouts whose integer parameters (indentation, widths of blank-only lines, trailing padding, word and comment
    lengths, numbers of marker lines) are swept SYSTEMATICALLY through every value around the look-ahead sizes of the
    input back-ends (BufferedInput: 16 characters; plain-scalar chunks: 128), in the three break styles.  Random soups
    practically never produce "exactly 15 spaces on a blank line inside a block scalar indented 20"; the paths that
    depend on what is left in the look-ahead buffer only show on such inputs.  quick: a stride-sampled subset
    (every value of each single parameter still occurs), thorough: the full products."""
    full = tier != "quick"
    out = []
    NL = ["\n", "\r\n", "\r"]
    R = list(range(0, 36)) + [47, 48, 49, 63, 64, 65, 127, 128, 129]
    small = [0, 1, 2, 7, 13, 14, 15, 16, 17, 18, 31, 32, 33]

    def pick(seq, k):
        """all of seq (thorough) or k values of it including both ends, drawn deterministically from rng (quick)"""
        seq = list(seq)
        if full or len(seq) <= k:
            return seq
        return sorted(set([seq[0], seq[-1]] + rng.sample(seq, k - 2)))

    for nl in NL:
        # block scalars: content indentation c, a blank-only line of b spaces between two content lines, line length l
        for c in R:
            for b in pick(R, 9):
                for (ind, style) in (("|", 0), (">", 1), ("|+", 2), (">-", 3)):
                    if not full and (c + b + style) % 4:
                        continue
                    out.append(ind + nl + " " * c + "a" + nl + " " * b + nl + " " * c + "b" + nl)
                    if c >= 2:
                        out.append("k:" + nl + " " * (c - 1) + "j: " + ind + nl + " " * c + "a" + nl + " " * b + nl + " " * c + "b" + nl
                                   + " " * (c - 1) + "m: n" + nl)
                        out.append("- " + ind + nl + " " * c + "a" + nl + " " * c + "b" + nl + " " * b + nl)
        for c in R:
            for l in pick(small, 5):
                out.append("k: |" + nl + " " * (c + 1) + "x" * l + nl + " " * (c + 1) + "y" * (l + 1) + nl)
                out.append("|" + nl + " " * c + "\u00e9" * l + nl + " " * c + "z" + nl + "..." + nl + "w" + nl)
                if c in range(1, 10):
                    out.append("k: |" + str(c) + nl + " " * c + " " * l + "x" + nl + " " * c + "y" + nl)
        # a block scalar without content, followed by a line of the enclosing collections (indentation p, sibling at q)
        for p in pick(range(0, 20), 8):
            for q in range(0, p + 3):
                for ind in ("|", ">", "|+", "|-"):
                    if not full and (p + q + len(ind)) % 2:
                        continue
                    out.append("a:" + nl + " " * p + " b: " + ind + nl + " " * q + "c: d" + nl)
                    out.append("a:" + nl + " " * p + " - " + ind + nl + " " * q + "- x" + nl)
                    out.append("a:" + nl + " " * p + " b: " + ind + nl + nl + " " * q + "c: d" + nl)
        # multi-line plain and quoted scalars: t trailing blanks, a blank-only line of j blanks, continuation indent i
        for t in pick(R, 8):
            for j in pick(R, 8):
                for i in pick(small[1:], 4):
                    for (o, cl) in (("", ""), ("\"", "\""), ("'", "'")):
                        out.append("k: " + o + "abc" + " " * t + nl + " " * j + nl + " " * i + "def" + cl + nl + "m: n" + nl)
                    out.append("k: \"abc" + " " * t + "\\" + nl + " " * j + nl + " " * i + "def\"" + nl)
                    out.append("k: abc" + "\t" * (t % 3) + " " * t + nl + "\t" * (j % 2) + " " * j + nl + " " * i + "def" + nl)
        for i in R:
            out.append("k:" + nl + " " * (i + 1) + "abc" + nl + " " * (i + 1) + nl + " " * (i + 1) + "def" + nl)
            out.append("- [" + nl + " " * i + "foo" + nl + " " * i + "bar" + nl + " " * i + "]" + nl)
            out.append("k: {" + nl + " " * i + "a: foo" + nl + "\t" + " " * i + "bar" + nl + "  }" + nl)
            out.append("- [" + nl + " foo" + nl + " " * (i % 3) + "\tbar" + nl + " ]" + nl)
        # words, comments, properties and directives of every length around the buffer sizes
        for a in R:
            for b in pick(small, 4):
                out.append("k: " + "p" * a + "#" + "q" * b + nl)
                out.append("k: v" + " " * a + "#" + "c" * b + nl + "m: n" + nl)
                out.append("k: v" + "\t" * (1 + a % 3) + "#" + "c" * b + nl)
                out.append("!" + "t" * a + " x" + nl)
                out.append("&" + "a" * a + " x" + nl + "*" + "a" * a + nl)
                out.append("%TAG !" + "h" * a + "! tag:" + "u" * b + nl + "--- !" + "h" * a + "!s x" + nl)
                out.append("%" + "D" * (a + 1) + " " + "p" * b + nl + "---" + nl)
                out.append("[" + " " * a + "a" + " " * b + "," + nl + " " * b + "b" + " " * a + "]" + nl)
                out.append("\"" + "d" * a + "\\x41" + "e" * b + "\"" + nl)
                out.append("? " + "k" * a + nl + ":" + " " * (b + 1) + "v" + nl)
        # non-ASCII letters and digits in every token class that is scanned by a character-class loop
        for w in ("\u00e9", "\u00fc\u00df", "\u65e5\u672c", "\u0661", "\U0001d7d9", "a\u00e9", "\u00e9a"):
            for tail in (" one", ""):
                out += ["- !" + w + tail + nl + "- two" + nl, "!" + w + "!x y" + nl, "%TAG !" + w + "! tag:x," + nl + "--- !" + w + "!s v" + nl,
                        "%" + w + " 1" + nl + "--- a" + nl, "%FOO" + w + " bar" + nl + "--- a" + nl, "&" + w + tail + nl, "- &" + w + " a" + nl + "- *" + w + nl,
                        "!<" + w + ">" + tail + nl, "!!" + w + tail + nl, "k: v # " + w + nl + "m: n" + nl, "# " + w + nl + "a: b" + nl,
                        "- |" + nl + " " + w + nl + "- x" + nl, "'" + w + "': \"" + w + "\"" + nl + w + ": " + w + nl, "%YAML 1." + w + nl + "---" + nl]
    # characters that Unicode calls white space (or a line break) but YAML does not, at every place where the scanner
    # skips blanks: they are content (or an error) for every back-end alike; std helpers such as str::trim_start,
    # char::is_whitespace or str::lines disagree with YAML about them
    for w in ("\u00a0", "\u2003", "\u3000", "\u1680", "\u2028", "\u2029", "\u0085", "\x0b", "\x0c", "\x1c", "\ufeff", "\u200b", "\n", "\r", "\r\n", "\t", " \t ",
              " \n ", "\t\n"):
        for t in ("%%YAML%s1.2\n---\na\n", "%%YAML 1.2%s\n---\na\n", "%%TAG%s!e! tag:x,\n--- !e!a b\n", "%%TAG !e!%stag:x,\n--- !e!a b\n", "%%FOO%sbar\n--- a\n",
                  "-%sa\n- b\n", "k:%sv\nm: n\n", "?%sk\n:%sv\n", "[a,%sb]\n", "{k:%sv}\n", "a%s# c\nb\n", "|%s\n x\ny\n", "---%sa\n", "&a%sx\n", "!t%sx\n",
                  "'q'%s: v\n", "a\n...%s\nb\n", "%sa: b\n", "a: b%s\n", "- a%s\n- b\n", "\"x%sy\"\n", "k: |\n  a%s\n  b\n", "# c%sd\nv\n", "*a%s\n"):
            out.append(t.replace("%s", w).replace("%%", "%"))
    # implicit keys around the 1024-character limit, in block context (limited, one line), as the single pair of a flow
    # sequence (limited) and inside flow mappings (unlimited, may span lines): on one line and over several lines, so that the
    # distance to the ':' is below the limit with one-character breaks and above it with CR LF
    for L in (990, 1020, 1022, 1023, 1024, 1025, 1026, 1060, 1100, 2100):
        k = "k" * L
        out += [k + ": v\n", "\"" + k + "\": v\n", "{" + k + ": v}\n", "{\"" + k + "\": 1}\n", "{ '" + k + "' : 1 }\n", "[" + k + ": v]\n",
                "[\"" + k + "\": v]\n", "- {a: 1, " + k + ": v}\n", "x: [1, {" + k + ": [" + k + "]}]\n", "{? " + k + " : v}\n", "[? " + k + " : v]\n"]
    for nlines in (38, 39, 40, 41, 42, 44):
        body = ("abcdefghijklmnopqrstuvwx\n" * nlines)[:-1]
        for nl in ("\n", "\r\n", "\r"):
            b = body.replace("\n", nl)
            out += ["{" + nl + "\"" + b + "\": v }" + nl, "{ '" + b + "': v }" + nl, "[" + nl + "\"" + b + "\": v ]" + nl,
                    "{ a: 1," + nl + " " + b.replace(nl, nl + " ") + ": v }" + nl]
    # runs of document markers between, before and behind documents
    A = ["a: 1\n", "- x\n", "", "# c\n", "--- a\n", "a\n...\n", "%YAML 1.2\n--- a\n", "|\n x\n", "[a]\n", "--- |\n", "&x a\n",
         "%TAG !e! tag:e,\n--- !e!a b\n"]
    for a in A:
        for b in A + ["*x\n", "!e!c d\n"]:
            for k in range(0, 5):
                if not full and (len(a) + len(b) + k) % 3 == 1:
                    continue
                out.append(a + "...\n" * k + b)
                out.append(a + "...\n# c\n" * k + b)
                if k:
                    out.append(a + "...\n" * k + "---\n" + b)
    return out


def parse_space(tier, rng):
    """The C01 input space: (label, [strings])"""
    groups = []
    groups.append(("corpus", corpus_file("parse_seeds.jsonl")))
    if tier == "quick":
        groups.append(("exhaustive<=3/24", list(exhaustive(INDICATORS, 3))))
        groups.append(("soups", soups(6000, rng)))
        groups.append(("line-soups", line_soups(6000, rng)))
        groups.append(("flow-soups", flow_soups(5000, rng)))
        groups.append(("suite-variants", suite_variants()))
        groups.append(("mutated-suite", mutated_suite(3000, rng)))
        groups.append(("geometry", geometry(tier, rng)))
    else:
        groups.append(("exhaustive<=4/24", list(exhaustive(INDICATORS, 4))))
        groups.append(("soups", soups(150000, rng)))
        groups.append(("line-soups", line_soups(150000, rng)))
        groups.append(("flow-soups", flow_soups(120000, rng)))
        groups.append(("suite-variants", suite_variants()))
        groups.append(("mutated-suite", mutated_suite(60000, rng)))
        groups.append(("geometry", geometry(tier, rng)))
    return groups


def rng_for(seed, pid):
    return random.Random("%s/%s" % (seed, pid))
