"""Case generators.  Every random choice derives from one random.Random(seed)."""
import itertools
import json
import os
import random

from .core import VERIF

INDICATORS = "-?:,[]{}#&*!|>'\"%@`a1 \t\n\r"          # 24 symbols
INDICATORS_SMALL = "-?:,[]{}#&*!|>'\"a \n"            # 19 symbols (quick tier, length 4)
TOKENS = ["- ", "? ", ": ", ", ", "[", "]", "{", "}", "# c", "&a ", "*a ", "!t ", "!!str ", "| ", ">- ", "'q'",
          "\"d\"", "%YAML 1.2", "---", "...", "a", "b c", "1", " ", "  ", "\t", "\n", "\n  ", "\n    ", "\r\n",
          "\"a\\n b\"", "'it''s'", "\\", "\u00e9", "%TAG !e! tag:e,", "!e!x ", "\"\\x41\\u00e9\"", "|2\n", "key: ",
          "- - ", "a: b\n", "\u2028", "\ufeff", "\U0001f600", "!<v> ", "? a\n: b\n", "[a, b]", "{a: b}", "&b", "*b",
          "|+\n", ">2-\n", "'", "\"", "\\u00e9", "\\U0001F600", "\\x4", "%FOO bar", "!", "!!", "-", "?", ":", "~", "null",
          "0x1F", "1.5e3", ".inf", "true", "\n...\n", "\n---\n", "\r"]


def exhaustive(alphabet, maxlen):
    for n in range(maxlen + 1):
        for t in itertools.product(alphabet, repeat=n):
            yield "".join(t)


def soups(n, rng, maxtok=12):
    out = []
    for _ in range(n):
        k = 1 + rng.randrange(maxtok)
        out.append("".join(rng.choice(TOKENS) for _ in range(k)))
    return out


LINE_ITEMS = ["- ", "- a", "a: b", "a:", "? k", ": v", "[a, b]", "{a: b, c}", "# comment", "", "  ", "|", ">", "|-", "|+",
              "text", "'q'", "\"dq\"", "&x a", "*x", "!t a", "- - a", "- a: b", "a: - b", "---", "...", "--- a", "%YAML 1.2",
              "\ttab", "a: |", "- >", "x: [", "]", "{", "}", "? - a", ": - b", "a: &x", "k: *x", "- ? a", "\"multi", "line\"",
              "'multi", "line'", "a b  c", "a #c", "a: b #c", "a:\tb", "-\ta", "?\tk", ":\tv", "a : b", "a: b: c"]


def line_soups(n, rng, maxlines=7):
    out = []
    for _ in range(n):
        k = 1 + rng.randrange(maxlines)
        ind = 0
        lines = []
        for _ in range(k):
            r = rng.random()
            if r < 0.3:
                ind += rng.choice([1, 2, 2, 4])
            elif r < 0.55:
                ind = max(0, ind - rng.choice([1, 2, 2, 4]))
            lines.append(" " * ind + rng.choice(LINE_ITEMS))
        nl = rng.choice(["\n", "\n", "\n", "\r\n", "\r"])
        s = nl.join(lines)
        if rng.random() < 0.7:
            s += nl
        out.append(s)
    return out


def flow_soups(n, rng, maxdepth=4):
    """random flow collections with explicit keys, omitted keys/values, trailing commas, properties: mostly well-formed"""
    atoms = ["a", "b", "'q'", "\"d\"", "*x", "1", "a b"]
    props = ["", "", "", "&x ", "!t ", "&x !t ", "!!str "]

    def node(d):
        r = rng.random()
        if d <= 0 or r < 0.45:
            return rng.choice(props) + rng.choice(atoms) if rng.random() < 0.9 else rng.choice(props).strip()
        sp = lambda: rng.choice(["", " ", " ", "\n ", "  "])
        if r < 0.72:
            items = []
            for _ in range(rng.randrange(0, 4)):
                k = rng.random()
                if k < 0.45:
                    items.append(node(d - 1))
                elif k < 0.6:
                    items.append("? " + node(d - 1) + sp() + ":" + rng.choice([" ", ""]) + rng.choice([node(d - 1), ""]))
                elif k < 0.7:
                    items.append("? " + rng.choice([node(d - 1), ""]))
                elif k < 0.9:
                    items.append(rng.choice([node(d - 1), ""]) + sp() + ": " + rng.choice([node(d - 1), ""]))
                else:
                    items.append("")
            body = ("," + sp()).join(items)
            if rng.random() < 0.2:
                body += ","
            return rng.choice(props) + "[" + sp() + body + sp() + "]"
        items = []
        for _ in range(rng.randrange(0, 4)):
            k = rng.random()
            if k < 0.5:
                items.append(node(d - 1) + sp() + ": " + rng.choice([node(d - 1), ""]))
            elif k < 0.7:
                items.append("? " + node(d - 1) + sp() + ": " + node(d - 1))
            elif k < 0.8:
                items.append("? " + rng.choice([node(d - 1), ""]))
            elif k < 0.9:
                items.append(node(d - 1))
            else:
                items.append(": " + node(d - 1))
        body = ("," + sp()).join(items)
        if rng.random() < 0.2:
            body += ","
        return rng.choice(props) + "{" + sp() + body + sp() + "}"
    out = []
    for _ in range(n):
        s = node(maxdepth)
        r = rng.random()
        if r < 0.25:
            s = "k: " + s + "\n"
        elif r < 0.4:
            s = "- " + s + "\n"
        elif r < 0.5:
            s = "--- " + s + "\n...\n"
        if rng.random() < 0.12 and s:
            # a small mutation: drop or duplicate one character
            p = rng.randrange(len(s))
            s = s[:p] + (s[p] * 2 if rng.random() < 0.5 else "") + s[p + 1:]
        out.append(s)
    return out


_suite = None


def suite():
    global _suite
    if _suite is None:
        _suite = []
        with open(os.path.join(VERIF, "corpus", "suite.jsonl")) as f:
            for l in f:
                _suite.append(json.loads(l))
    return _suite


def suite_variants():
    """suite inputs plus CRLF and truncation/suffix variants"""
    out = []
    for t in suite():
        y = t["yaml"]
        out.append(y)
        out.append(y.replace("\n", "\r\n"))
        n = len(y)
        for k in (n // 3, n // 2, 2 * n // 3):
            out.append(y[:k])
            out.append(y[k:])
    return out


def mutated_suite(n, rng):
    docs = [t["yaml"] for t in suite()]
    out = []
    for _ in range(n):
        y = list(rng.choice(docs))
        for _ in range(1 + rng.randrange(3)):
            r = rng.random()
            pos = rng.randrange(len(y) + 1)
            if r < 0.35 and y:
                del y[min(pos, len(y) - 1)]
            elif r < 0.7:
                y.insert(pos, rng.choice(INDICATORS))
            elif y:
                y[min(pos, len(y) - 1)] = rng.choice(INDICATORS)
        out.append("".join(y))
    return out


def corpus_file(name):
    """minimised past disagreements / seeds: one JSON string per line"""
    p = os.path.join(VERIF, "corpus", name)
    out = []
    if os.path.exists(p):
        for l in open(p):
            l = l.strip()
            if l and not l.startswith("#"):
                out.append(json.loads(l))
    return out


def parse_space(tier, rng):
    """The C01 input space: (label, [strings])"""
    groups = []
    groups.append(("corpus", corpus_file("parse_seeds.jsonl")))
    if tier == "quick":
        groups.append(("exhaustive<=3/24", list(exhaustive(INDICATORS, 3))))
        groups.append(("soups", soups(6000, rng)))
        groups.append(("line-soups", line_soups(6000, rng)))
        groups.append(("flow-soups", flow_soups(5000, rng)))
        groups.append(("suite-variants", suite_variants()))
        groups.append(("mutated-suite", mutated_suite(3000, rng)))
    else:
        groups.append(("exhaustive<=4/24", list(exhaustive(INDICATORS, 4))))
        groups.append(("soups", soups(150000, rng)))
        groups.append(("line-soups", line_soups(150000, rng)))
        groups.append(("flow-soups", flow_soups(120000, rng)))
        groups.append(("suite-variants", suite_variants()))
        groups.append(("mutated-suite", mutated_suite(60000, rng)))
    return groups


def rng_for(seed, pid):
    return random.Random("%s/%s" % (seed, pid))
