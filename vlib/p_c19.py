"""C19 — all node types and loading modes hold the same data.

Implementation-side oracle (no model needed): for every accepted input and every synthetic sentence the dumps of
Yaml, YamlOwned, MarkedYaml, MarkedYamlOwned are identical (same error text/position when the load fails);
deferred + parse_representation_recursive == eager for each of the four; deferred trees contain representations
only; every marked node carries the span of the event that created it (alias copies: the alias event's span);
equality and hashing of marked nodes ignore spans (same text behind a comment/blank line; same sentence with
shifted spans); resolving resolved trees changes nothing; scalars survive borrowed <-> owned.
Tie: Model/Nodes.v (generic loader at ryaml / myaml, r_resolve / m_resolve), extracted (build/ocaml_c07/mx all):
eager, deferred, resolved dumps and the marked dumps WITH spans must equal the implementation's."""
import json
import os
import re

from . import core, gen
from .core import Result, enc, prepare, run_bin, run_hx, run_mx, split_line
from .p_c07 import (F_NAMES, canon, impl_fields, mx_fields, strip_spans, synthetic, zero_sign_blind, has_collection)
from .props import abnormal, dedupe, size_hist

KNOWN_FILE = os.path.join(core.VERIF, "known_findings_c19.jsonl")

_VALUE_TOK = re.compile(r"^(N|B[01]|I-?0x[0-9a-f]+|F[0-9a-f]{16}|S[0-9.]*)$")
_SPAN = r"@(\d+:\d+:\d+-\d+:\d+:\d+)"


def known_classes():
    out = []
    if os.path.exists(KNOWN_FILE):
        for l in open(KNOWN_FILE):
            l = l.strip()
            if l:
                out.append(json.loads(l))
    return out


def deferred_ok(dump):
    """every leaf of a deferred dump is a representation R<style>,<tag>,<cps> or X (alias without target)"""
    if not dump.startswith("OK"):
        return True
    body = dump[3:]
    leaf = re.compile(r"R[PSDLF],(?:-|h=[0-9.]*/s=[0-9.]*),[0-9.]*|X")
    rest = leaf.sub("", body)
    return re.fullmatch(r"[QM\[\]{},=; ]*", rest) is not None


def preorder_spans(dump):
    """spans of the nodes of a `+spans` dump in creation (pre-)order, per document; None if unparsable"""
    if not dump.startswith("OK"):
        return None
    docs = []
    for d in dump[3:].split(" ; ") if len(dump) > 3 else []:
        pos = [0]
        out = []

        def span():
            m = re.compile(_SPAN).match(d, pos[0])
            if not m:
                raise ValueError("span")
            pos[0] = m.end()
            return m.group(1)

        def node():
            i = pos[0]
            slot = len(out)
            out.append(None)
            if d.startswith("Q[", i):
                pos[0] = i + 2
                if d[pos[0]] == "]":
                    pos[0] += 1
                else:
                    while True:
                        node()
                        c = d[pos[0]]
                        pos[0] += 1
                        if c == "]":
                            break
            elif d.startswith("M{", i):
                pos[0] = i + 2
                if d[pos[0]] == "}":
                    pos[0] += 1
                else:
                    while True:
                        node()
                        assert d[pos[0]] == "="
                        pos[0] += 1
                        node()
                        c = d[pos[0]]
                        pos[0] += 1
                        if c == "}":
                            break
            else:
                m = re.compile(r"R[PSDLF],(?:-|h=[0-9.]*/s=[0-9.]*),[0-9.]*|X|N|B[01]|I-?0x[0-9a-f]+|F[0-9a-f]{16}|S[0-9.]*").match(d, i)
                if not m:
                    raise ValueError("leaf")
                pos[0] = m.end()
            out[slot] = span()
        try:
            node()
            if pos[0] != len(d):
                return None
        except (ValueError, IndexError, AssertionError):
            return None
        docs.append(out)
    return docs


def event_node_spans(evs):
    """spans of the node-creating events (scalar, alias, collection start) per document"""
    docs, cur = [], None
    for e in evs:
        b, _, sp = e.rpartition("@")
        if b.startswith("DS"):
            cur = []
        elif b == "DE":
            docs.append(cur)
            cur = None
        elif b[:2] in ("SC", "AL", "QS", "MS") and cur is not None:
            cur.append(sp)
    return docs


def spans_direct_eligible(evs):
    """the pre-order of the loaded tree is exactly the order of the node events when nothing can be dropped
    (no mapping: no duplicate keys) and no alias copies a collection (an alias to a scalar, to an unknown id or
    to a still-open collection yields ONE node, which must carry the alias event's span)"""
    coll = set()
    for e in evs:
        b = e.rsplit("@", 1)[0]
        if b.startswith("MS"):
            return False
        if b.startswith("QS"):
            coll.add(b[2:].split(",")[0])
    return not any(e.startswith("AL") and e.rsplit("@", 1)[0][2:] in coll for e in evs)


def check_spans_direct(res, case, evs, dump, events_txt):
    got = preorder_spans(dump)
    if got is None:
        res.add_tie_break("cannot parse a +spans dump", case=case, dump=dump[-300:])
        return False
    if got != event_node_spans(evs):
        res.add_violation("a marked node does not carry the span of the event that created it (alias copies: the "
                          "alias event's span)", case, marked=dump[-600:], events=events_txt[-600:])
        return False
    return True


def check_C19(tier, seed):
    res = Result("C19", tier, seed)
    proof = prepare("C19", res, model_tags=("", "C07"))
    rng = gen.rng_for(seed, "C19")
    groups = gen.parse_space(tier, rng)
    groups.append(("directed-texts", ["{0.0: a, -0.0: b, 0.0: c}\n", "{1: a, 2: b, 0x1: c}\n", "{!!int a: 1, b: 2}\n",
                                      "&a [*a, &b x, *b, {k: *b, k: 1, 0x1: b, 1: c}]\n--- *a\n", "- !!float 1\n- !!str 1\n- '1'\n",
                                      "? [1, 0x1]\n: a\n? [0x1, 1]\n: b\n"]))
    cases, dist = dedupe(groups)
    lines = [enc(s) for s in cases]
    sents, sdist = dedupe(synthetic(tier, rng))
    res.coverage["input_distribution"] = dict(texts=dict(groups=dist, sizes=size_hist(cases)), sentences=dict(groups=sdist))
    known = known_classes()
    known_hits = {}

    def resolved_vs_eager(what, case, eager, resolved, eq_holds):
        """dump identity; the listed known class: identical up to the sign of float zeros while == holds"""
        if resolved == eager:
            return
        if known and eq_holds and zero_sign_blind(resolved) == zero_sign_blind(eager):
            k = known[0]["class"]
            known_hits.setdefault(k, []).append(case)
            return
        res.add_violation(what, case, eager=eager[-600:], resolved=resolved[-600:])

    if res.harness_ok and res.model_ok:
        # ---------------- (1) real inputs ----------------
        ev = run_hx(["push", "str:multi"], lines)
        out = {(t, h): run_hx(["load", t, h], lines) for t in F_NAMES for h in ("eager", "deferred", "resolved")}
        api = run_bin("hx_c07", ["api"], lines)
        sp_m = run_hx(["load", "marked", "eager+spans"], lines)
        sp_mo = run_hx(["load", "markedowned", "eager+spans"], lines)
        sp_mr = run_hx(["load", "marked", "resolved+spans"], lines)
        acc = [i for i in range(len(cases)) if out[("yaml", "eager")][i].startswith("OK")]
        eqh = dict(zip(acc, run_bin("hx_c07", ["eqhash"], [lines[i] for i in acc])))
        mx = dict(zip(acc, run_mx(["all"], [ev[i].rsplit("|", 1)[0] for i in acc], tag="C07")))
        counts = dict(accepted=len(acc), rejected=len(cases) - len(acc), spans_direct=0, spans_model=0, eqhash=0,
                      eqhash_vacuous=0)
        for i, s in enumerate(cases):
            res.evaluations += 1
            case = dict(input=s, codepoints=lines[i])
            base = out[("yaml", "eager")][i]
            if not (base.startswith("OK") or base.startswith("ERR@")):
                res.add_violation("load ended abnormally", case, out=base[-300:])
                continue
            for t in F_NAMES:
                for h in ("eager", "deferred", "resolved"):
                    o = out[(t, h)][i]
                    ref = out[("yaml", h)][i]
                    if o != ref:
                        res.add_violation("node type %s (%s) holds different data / reports a different error than Yaml" % (t, h),
                                          case, yaml=ref[-500:], other=o[-500:])
            a = api[i].split("|")
            if len(a) != 6 or len(set(a[:4])) != 1 or a[0][:2] != base[:2] or (base.startswith("OK") and a[0] != base):
                res.add_violation("load_from_str of the four node types disagree (with each other or with the loader "
                                  "driven by Parser::load)", case, api=api[i][-600:], load=base[-300:])
            if not base.startswith("OK"):
                # same error (text and position) in every mode
                for h in ("deferred", "resolved"):
                    if out[("yaml", h)][i] != base:
                        res.add_violation("a failing load reports a different error with early_parse off", case,
                                          eager=base[-300:], other=out[("yaml", h)][i][-300:])
                continue
            for t in F_NAMES:
                resolved_vs_eager("deferred + parse_representation_recursive differs from the eager load (%s)" % t,
                                  case, out[(t, "eager")][i], out[(t, "resolved")][i], True)
                if not deferred_ok(out[(t, "deferred")][i]):
                    res.add_violation("a deferred load contains something else than representations (%s)" % t, case,
                                      deferred=out[(t, "deferred")][i][-500:])
            # spans: both marked types agree; stripping the spans gives the plain dump; resolution keeps spans
            if sp_mo[i] != sp_m[i]:
                res.add_violation("MarkedYaml and MarkedYamlOwned carry different spans", case, marked=sp_m[i][-500:], owned=sp_mo[i][-500:])
            if re.sub(_SPAN, "", sp_m[i]) != base:
                res.add_violation("marked dump without its spans is not the plain dump", case, marked=sp_m[i][-500:], plain=base[-500:])
            evs, fin = split_line(ev[i])
            if fin != "OK":
                res.add_violation("load succeeds although event delivery fails", case, events=ev[i][-300:])
                continue
            # direct: node spans = spans of the creating events, in document order (no alias, no mapping: nothing
            # can be dropped or copied)
            if spans_direct_eligible(evs):
                counts["spans_direct"] += check_spans_direct(res, case, evs, sp_m[i], ev[i])
            # through the model (every shape): spans, deferred and resolved trees
            m = mx_fields(mx[i])
            if m is None:
                res.add_tie_break("model driver failed on the implementation's events", case=s, out=mx[i][-300:])
            else:
                pairs = [("m_eager", sp_m[i], "marked eager+spans"), ("m_resolved", sp_mr[i], "marked resolved+spans"),
                         ("deferred", out[("yaml", "deferred")][i], "deferred"), ("resolved", out[("yaml", "resolved")][i], "resolved"),
                         ("eager", base, "eager")]
                for key, impl, what in pairs:
                    if canon(m[key]) != canon(impl):
                        res.add_tie_break("correspondence: Nodes.v model != implementation (%s)" % what, case=s,
                                          model=m[key][-500:], impl=impl[-500:])
                if m["eq"] != "1":
                    res.add_tie_break("model: resolved is not == eager (contradicts C19_deferred_resolved_is_eager)", case=s)
                counts["spans_model"] += 1
            # equality and hashing ignore spans
            e = eqh[i]
            if e.startswith("|PANIC"):
                res.add_violation("eq/hash check panicked", case, out=e)
            else:
                for part, t in zip(e.split("|"), ("marked", "markedowned")):
                    if part == "SKIP":
                        continue
                    if not (part.startswith("EQ1 H1")):
                        res.add_violation("equality or hash of %s nodes depends on spans (same text shifted by a comment)" % t,
                                          case, out=e)
                    counts["eqhash"] += 1
                    counts["eqhash_vacuous"] += part.endswith("SP0")
            if has_collection(base):
                res.nontrivial.add(base)
        # equality of the marked types IS equality of the data (C19_marked_eq_ignores_spans, both directions): pairs of
        # texts of the same shape whose nodes occupy the SAME spans but hold different data (one character of a scalar
        # replaced by another of its class), identical pairs, and neighbours in the case list
        prng = __import__("random").Random("%s/C19-eqpair" % seed)
        pairs = []
        accl = [i for i in acc if 0 < len(cases[i]) <= 400]
        for i in accl[:3000 if tier == "quick" else 60000]:
            t = cases[i]
            pos = [k for k, ch in enumerate(t) if ch.isalnum()]
            if pos:
                k = prng.choice(pos)
                repl = prng.choice("0123456789") if t[k].isdigit() else prng.choice("abcxyzABC")
                if repl != t[k]:
                    pairs.append((t, t[:k] + repl + t[k + 1:], "edited"))
            pairs.append((t, t, "same"))
        for a_, b_ in zip(accl[:1500], accl[1:1501]):
            pairs.append((cases[a_], cases[b_], "neighbours"))
        # the same tag written two ways (deferred leaves keep handle and suffix as written: equal only if both agree)
        for a_, b_ in (("!!str a\n", "!<tag:yaml.org,2002:str> a\n"), ("- !!int 1\n", "- !<tag:yaml.org,2002:int> 1\n"),
                       ("%TAG !e! tag:x,\n--- !e!ab c\n", "%TAG !e! tag:x,a\n--- !e!b c\n"), ("k: !local v\n", "k: !<!local> v\n"),
                       ("%TAG !y! tag:yaml.org,2002:\n--- !y!str a\n", "!!str a\n"), ("{!!str a: !!int 1}\n", "{!<tag:yaml.org,2002:str> a: !<tag:yaml.org,2002:int> 1}\n")):
            pairs.append((a_, b_, "tag-spelling"))
        pairs += [("port: 8080\n", "port: 8081\n", "edited"), ("[a, b]\n", "[c, d, e, f]\n", "edited"), ("- true\n- b\n", "- null\n- b\n", "edited"),
                  ("{a: 1}\n", "{a: 2}\n", "edited"), ("'x'\n", "'y'\n", "edited")]
        ep = run_bin("hx_c07", ["eqpair"], ["%s#%s" % (enc(a_), enc(b_)) for a_, b_, _ in pairs])
        kinds = {}
        for (a_, b_, kind), o in zip(pairs, ep):
            res.evaluations += 1
            f = o.split("|")
            if o.startswith("|PANIC") or len(f) != 4:
                res.add_violation("eq/hash of two loaded texts panicked", dict(input=a_, other=b_), out=o[:200])
                continue
            if "SKIP" in f:
                continue
            kinds[kind + ("/equal" if f[0][:2] == "E1" else "/different")] = kinds.get(kind + ("/equal" if f[0][:2] == "E1" else "/different"), 0) + 1
            for t, r in zip(("yaml", "owned", "marked", "markedowned"), f):
                if r[:2] != f[0][:2] or r[4:6] != f[0][4:6]:
                    res.add_violation("equality of %s nodes is not the equality of the data (Yaml says %s/%s, %s says %s/%s)"
                                      % (t, f[0][:2], f[0][4:6], t, r[:2], r[4:6]), dict(input=a_, other=b_, node=t, pair=kind), out=o)
                elif (r[:2] == "E1" and r[2:4] != "H1") or (r[4:6] == "D1" and r[6:8] != "G1"):
                    res.add_violation("equal %s nodes hash differently (E/H eager, D/G deferred)" % t, dict(input=a_, other=b_, node=t, pair=kind), out=o)
        counts["eq_pairs"] = kinds
        res.coverage["verdicts"] = counts
        # ---------------- (2) synthetic sentences ----------------
        si = run_bin("hx_c07", ["load"], sents)
        sm = run_mx(["all"], sents, tag="C07")
        for j, sen in enumerate(sents):
            res.evaluations += 1
            case = dict(sentence=strip_spans(sen))
            f, m = impl_fields(si[j]), mx_fields(sm[j])
            if f is None:
                res.add_violation("the real loader failed on a synthetic sentence", case, out=si[j][-300:])
                continue
            if any(not f[t][h].startswith("OK") for t in F_NAMES for h in ("eager", "deferred", "resolved")):
                res.add_violation("a load of a grammatical sentence panicked", case, out=si[j][-400:])
                continue
            for t in F_NAMES[1:]:
                for h in ("eager", "deferred", "resolved"):
                    if f[t][h] != f["yaml"][h]:
                        res.add_violation("node type %s (%s) holds different data than Yaml for one sentence" % (t, h), case,
                                          yaml=f["yaml"][h][-500:], other=f[t][h][-500:])
            flags = [x for x in f["flags"].split(",") if x and x != "ok"]
            for t in F_NAMES:
                resolved_vs_eager("deferred + parse_representation_recursive differs from the eager load (%s)" % t, case,
                                  f[t]["eager"], f[t]["resolved"], not any(x in ("eq" + t, "hasheq" + t) for x in flags))
                if not deferred_ok(f[t]["deferred"]):
                    res.add_violation("a deferred load contains something else than representations (%s)" % t, case,
                                      deferred=f[t]["deferred"][-500:])
            if flags:
                res.add_violation("side conditions failed: %s (eq*: resolved != eager under ==; eqhash*: equality/hash depend on "
                                  "spans; idem*: resolving a resolved tree changed it; rt*: scalar borrowed<->owned)" % ",".join(flags),
                                  case, out=si[j][-400:])
            sp = f["spans"]
            if sp["markedowned_eager"] != sp["marked_eager"]:
                res.add_violation("MarkedYaml and MarkedYamlOwned carry different spans", case, marked=sp["marked_eager"][-400:],
                                  owned=sp["markedowned_eager"][-400:])
            if re.sub(_SPAN, "", sp["marked_eager"]) != f["marked"]["eager"]:
                res.add_violation("marked dump without its spans is not the plain dump", case)
            sevs = sen.split(";")
            if spans_direct_eligible(sevs):
                counts["spans_direct"] += check_spans_direct(res, case, sevs, sp["marked_eager"], sen)
                check_spans_direct(res, case, sevs, sp["marked_deferred"], sen)
                check_spans_direct(res, case, sevs, sp["marked_resolved"], sen)
            if m is None:
                res.add_tie_break("model driver failed on a synthetic sentence", case=case, out=sm[j][-300:])
                continue
            for key, impl, what in (("eager", f["yaml"]["eager"], "eager"), ("deferred", f["yaml"]["deferred"], "deferred"),
                                    ("resolved", f["yaml"]["resolved"], "resolved"), ("m_eager", sp["marked_eager"], "marked eager+spans"),
                                    ("m_deferred", sp["marked_deferred"], "marked deferred+spans"),
                                    ("m_resolved", sp["marked_resolved"], "marked resolved+spans")):
                if canon(m[key]) != canon(impl):
                    res.add_tie_break("correspondence: Nodes.v model != implementation on a synthetic sentence (%s)" % what,
                                      case=case, model=m[key][-500:], impl=impl[-500:])
            if m["eq"] != "1":
                res.add_tie_break("model: resolved is not == eager (contradicts C19_deferred_resolved_is_eager)", case=case)
            if has_collection(f["yaml"]["eager"]):
                res.nontrivial.add(f["yaml"]["eager"])
        res.coverage["traces_validated_against_impl"] = counts["spans_model"] + len(sents)
        res.coverage["configurations"] = ["%s/%s" % (t, h) for t in F_NAMES for h in ("eager", "deferred", "resolved")]
        for k, hits in known_hits.items():
            res.known.append("class=%s cases=%d first=%s (see known_findings_c19.jsonl)" % (k, len(hits), json.dumps(hits[0])[:200]))
        res.coverage["known_finding_hits"] = {k: len(v) for k, v in known_hits.items()}
        for i in (acc[len(acc) // 4] if acc else None, acc[3 * len(acc) // 4] if acc else None):
            if i is not None:
                res.samples.append(dict(input=cases[i], marked_with_spans=sp_m[i][:300], deferred=out[("yaml", "deferred")][i][:200]))
        for j in (4, len(sents) // 2):
            if 0 <= j < len(sents):
                res.samples.append(dict(sentence=strip_spans(sents[j])[:300], resolved=si[j].split("|")[2][:200]))
    if tier == "thorough" and proof.get("ok"):
        with core.Lock():
            ok, out = core.coqchk("C19")
        res.coverage["coqchk"] = "ok" if ok else "FAILED"
        if not ok:
            res.add_tie_break("coqchk rejects the compiled proofs", error=out[-1500:])
    rule = ("the C01 input space (accepted inputs: all comparisons; rejected: same error in all 12 configurations) and synthetic "
            "event sentences (every mapping of <=4 entries over 8 key kinds incl. 1/0x1, 0.0/-0.0, BadValue, complex, alias keys; "
            "random trees) x {Yaml, YamlOwned, MarkedYaml, MarkedYamlOwned} x {eager, deferred, deferred+resolved}; "
            "non-trivial = distinct eager document lists containing a collection")
    return res.finish(proof, rule)
