"""C09 - emit then load returns the same tree (round trip).  See coq/Properties/C09.v for what is proved about the
emitter model (need_quotes / escape_str / number text, the literal-block guard against the block-scalar
specification, implicit-key length, the block-layout grammar).  known_findings_c09.jsonl lists the defect classes
this check found in the literal-block (`multiline_strings`) mode and in long keys: all are `fixed` now, nothing is
suppressed, and the streams that exhibited them stay as regression inputs (a regression is a VIOLATION)."""
import itertools
import struct

from . import core, gen
from .core import Result, prepare, run_bin, run_mx

PID = "C09"

# ------------------------------------------------------------------------------------------------
# trees: ("N",) ("B",0|1) ("I",int) ("F",bits) ("S",str) ("Q",[nodes]) ("M",[(k,v)...])
# ------------------------------------------------------------------------------------------------
N = ("N",)


def S(s):
    return ("S", s)


def I(i):
    return ("I", i)


def F(x):
    if isinstance(x, float):
        x = struct.unpack("<Q", struct.pack("<d", x))[0]
    return ("F", x)


def Q(*items):
    return ("Q", list(items))


def M(*pairs):
    return ("M", list(pairs))


def cps(s):
    return ".".join(str(ord(c)) for c in s)


def uncps(t):
    return "".join(chr(int(x)) for x in t.split(".")) if t else ""


NAN_BITS = 0x7ff8000000000000


def is_nan_bits(b):
    return (b >> 52) & 0x7ff == 0x7ff and b & ((1 << 52) - 1) != 0


def encode(t):
    """prefix token encoding understood by hx_c09 and the OCaml driver"""
    k = t[0]
    if k == "N":
        return "N"
    if k == "B":
        return "B%d" % t[1]
    if k == "I":
        return "I%d" % t[1]
    if k == "F":
        return "F%016x" % t[1]
    if k == "S":
        return "S" + cps(t[1])
    if k == "Q":
        return " ".join(["Q%d" % len(t[1])] + [encode(x) for x in t[1]])
    return " ".join(["M%d" % len(t[1])] + [encode(a) + " " + encode(b) for a, b in t[1]])


def dump(t, loose=False):
    """the harness' canonical dump; loose: -0.0 == 0.0 (NaN payloads are always canonical), as OrderedFloat compares"""
    k = t[0]
    if k == "N":
        return "N"
    if k == "B":
        return "B%d" % t[1]
    if k == "I":
        return "I%s0x%x" % ("-" if t[1] < 0 else "", abs(t[1]))
    if k == "F":
        b = NAN_BITS if is_nan_bits(t[1]) else t[1]
        if loose and b == 1 << 63:
            b = 0
        return "F%016x" % b
    if k == "S":
        return "S" + cps(t[1])
    if k == "Q":
        return "Q[" + ",".join(dump(x, loose) for x in t[1]) + "]"
    return "M{" + ",".join(dump(a, loose) + "=" + dump(b, loose) for a, b in t[1]) + "}"


def loosen(d):
    """-0.0 -> 0.0 inside a dump string"""
    return d.replace("F8000000000000000", "F0000000000000000")


def strings_of(t, key=False, out=None):
    """[(string, in_key_position)] for every string leaf; key position = the node itself is a mapping key"""
    if out is None:
        out = []
    k = t[0]
    if k == "S":
        out.append((t[1], key))
    elif k == "Q":
        for x in t[1]:
            strings_of(x, False, out)
    elif k == "M":
        for a, b in t[1]:
            strings_of(a, True, out)
            strings_of(b, False, out)
    return out


def has_float(t):
    k = t[0]
    return k == "F" or (k == "Q" and any(has_float(x) for x in t[1])) or \
        (k == "M" and any(has_float(a) or has_float(b) for a, b in t[1]))


def depth(t):
    k = t[0]
    if k == "Q":
        return 1 + max([depth(x) for x in t[1]] + [0])
    if k == "M":
        return 1 + max([max(depth(a), depth(b)) for a, b in t[1]] + [0])
    return 0


# ------------------------------------------------------------------------------------------------
# the former defect classes (all repaired): decidable predicates on (settings, tree), used only to LABEL the cases for
# the coverage report -- a failing case is a violation whatever its label
# ------------------------------------------------------------------------------------------------
def literal_ok_char(c):
    """char_traits::is_valid_literal_block_scalar (as written in /repo: the last range really ends at U+D7FFF)"""
    o = ord(c)
    return o in (9, 10) or 0x20 <= o <= 0x7e or o == 0x85 or 0xa0 <= o <= 0xd7fff


def literal_emitted(s):
    """multiline_strings considers a literal block for s (before the guards of `is_literal_block`)"""
    return "\n" in s and all(literal_ok_char(c) for c in s)


def rust_lines(s):
    """str::lines() for strings without '\\r'"""
    p = s.split("\n")
    if p[-1] == "":
        p.pop()
    return p


def leaf_contexts(t, key=False, last=True, root=True, out=None):
    """[(string, ctx)] with ctx in {"key", "root", "last", "inner"}: how the emitter places each string leaf.
    key   : the node is a (scalar) mapping key -> emit_node(k) directly followed by ':'
    root  : the node is the whole document (literal block content at indentation 0)
    last  : nothing is emitted after the node (the text ends with it)
    inner : some text follows"""
    if out is None:
        out = []
    k = t[0]
    if k == "S":
        out.append((t[1], "key" if key else "root" if root else "last" if last else "inner"))
    elif k == "Q":
        n = len(t[1])
        for i, x in enumerate(t[1]):
            leaf_contexts(x, False, last and i == n - 1, False, out)
    elif k == "M":
        n = len(t[1])
        for i, (a, b) in enumerate(t[1]):
            if a[0] in "QM":
                leaf_contexts(a, False, False, False, out)
            else:
                leaf_contexts(a, True, False, False, out)
            leaf_contexts(b, False, last and i == n - 1, False, out)
    return out


def trailing_newlines(s):
    return len(s) - len(s.rstrip("\n"))


def literal_classes(s, ctx):
    """the former defect classes (names) that string s, in context ctx, falls into"""
    if not literal_emitted(s):
        return []
    if ctx == "key":
        return ["K1-literal-block-as-mapping-key"]
    out = []
    lines = rust_lines(s)
    t = trailing_newlines(s)
    j = next((i for i, l in enumerate(lines) if l.strip(" ") != ""), None)
    if j is None:
        # only spaces and line feeds: there is no content line for the scanner to find
        out.append("K5-only-spaces-and-newlines")
        return out
    if any(l.startswith(" ") for l in lines[:j + 1]):
        out.append("K2-leading-space-before-or-on-first-content-line")
    if t >= 2:
        out.append("K3-trailing-newlines-lost")
    if ctx == "root":
        if s[0] == "\t":
            out.append("K4a-root-block-starts-with-tab")
        if any(l[:3] in ("...", "---") and (len(l) == 3 or l[3] in " \t") for l in lines):
            out.append("K4b-root-block-line-is-document-end-marker")
    return out


def tree_classes(m, t):
    if not m:
        return []
    out = []
    for s, ctx in leaf_contexts(t):
        for c in literal_classes(s, ctx):
            if c not in out:
                out.append(c)
    return out


G1 = "G1-implicit-key-longer-than-1024"
KEY_LIMIT = 1024


def long_keys(t):
    """some scalar mapping key of t is a string of more than 170 characters, i.e. one for which `is_long_key` has to look
    at the emitted text (it may or may not exceed the implicit-key limit) -- a label for the coverage report only"""
    k = t[0]
    if k == "Q":
        return any(long_keys(x) for x in t[1])
    if k == "M":
        return any((a[0] == "S" and len(a[1]) > 170) or long_keys(a) or long_keys(b) for a, b in t[1])
    return False


# ------------------------------------------------------------------------------------------------
# case generation
# ------------------------------------------------------------------------------------------------
# 20 symbols: 16 indicators (`]`/`}` behave like `[`/`{`, `@` like `%` for the emitter and the scanner), the two
# blanks, the line feed and a digit
A20 = list("-?:,[]{#&*!|>'\"% \t\n1")
# the remaining indicators, other separators / escapes and the type-like words, as atoms
A_EXTRA = ["}", "@", "`", "\\", ".", "=", "<", "a", "~", "null", "true", "1.5", "0x1", ".inf", "\r", "\u0085", "\ufeff", "\u00e9"]
A38 = A20 + A_EXTRA
LINE_ATOMS = ["", " ", "a", " a", "  a", "a ", "---", "...", "--- a", "... a", "....", "#c", "- a", "a: b", "\t", "\ta",
              " \t", "|", "%D", "\u00e9", "\ufeff", "\u00a0", "\u0085", "  "]


def atoms_upto(alpha, n):
    for k in range(n + 1):
        for t in itertools.product(alpha, repeat=k):
            yield "".join(t)


def base_positions(s):
    x = S(s)
    return [("root", x), ("item", Q(x, I(7))), ("key", M((x, I(7)))), ("value", M((S("k"), x), (S("z"), I(7))))]


def nested_positions(s):
    x = S(s)
    return [("last-item", Q(Q(I(7), x))), ("last-value", M((S("k"), M((S("z"), x))))),
            ("in-complex-key", M((Q(x), S("v")), (M((S("q"), x)), N))), ("map-in-seq", Q(M((x, x)), I(7)))]


def line_family(maxlines, rng, sample=None):
    out = []
    for k in range(1, maxlines + 1):
        for ls in itertools.product(LINE_ATOMS, repeat=k):
            body = "\n".join(ls)
            for t in range(4):
                out.append(body + "\n" * t)
    out = [s for s in dict.fromkeys(out) if "\n" in s]
    if sample is not None and len(out) > sample:
        out = rng.sample(out, sample)
    return out


def rand_char(rng):
    r = rng.random()
    if r < 0.30:
        return chr(rng.randrange(0x20, 0x7f))
    if r < 0.42:
        return rng.choice("-?:,[]{}#&*!|>'\"%@`\\ \t\n\r.=<~")
    if r < 0.50:
        return chr(rng.choice(list(range(0, 0x20)) + [0x7f]))
    if r < 0.56:
        return chr(rng.randrange(0x80, 0xa1))
    if r < 0.64:
        return rng.choice("\u0085\u2028\u2029\ufeff\u00a0\ufffe\uffff\ud7ff\ue000\ufffd\u200b\u3000")
    if r < 0.80:
        c = rng.randrange(0xa0, 0xffff)
        return chr(c) if not 0xd800 <= c <= 0xdfff else "\u00e9"
    if r < 0.93:
        return chr(rng.randrange(0x10000, 0x110000))
    return rng.choice(["\U000d7fff", "\U000d8000", "\U0010ffff", "\U00010000", "\U0001f600"])


def rand_string(rng, maxlen=12):
    n = rng.randrange(1, maxlen + 1)
    if rng.random() < 0.1:
        n = rng.randrange(20, 200)
    return "".join(rand_char(rng) for _ in range(n))


WORDS = ["", "null", "Null", "NULL", "~", "true", "True", "false", "FALSE", "yes", "no", "on", "off", "y", "n", "1", "-1", "+1",
         "1.5", "1e3", ".5", "0x1F", "0o7", "0b1", ".inf", "-.inf", "+.inf", ".nan", "inf", "nan", "NaN", "infinity", "1_000",
         "0", "00", "9223372036854775807", "9223372036854775808", "-9223372036854775808", "1e400", "0x", "0o", "+", "-", ".",
         "..", "...", "---", "--- a", "... a", "a: b", "a #b", "a:b", "a#b", "- a", "? a", ": a", "a ", " a", "a  b", "a\tb",
         "\ta", "a\t", "key", "x y", "it's", "say \"hi\"", "back\\slash", "[a]", "{a: b}", "a, b", "&a", "*a", "!t", "|", ">",
         "%D", "@a", "`a", "=", "<<", "2001-01-01", "12:30", "a\nb", "a\nb\n", "a\n\nb", "a\n b\n", "\u00e9\u00e8", "\u4e2d\u6587",
         "\U0001f600", "a\u0085b", "a\u2028b", "\ufeffa", "a\ufeff", "a\x07b", "a\x0bb", "a\x0cb", "a\x1bb", "a\x7fb", "a\x00b",
         "a\rb", "a\r\nb", "a\nb\r", "#", "# a", "a\n#b", "a\n---\nb", "a\n- b", "a\n\tb", "a \nb ", "a\n  b\n c"]
BAD_MULTI = [" a\nb", "a\n\n", "\n", "\n\n", " \n", "\na\n\n\n", "  a\n  b", " \na", "\n a"]
INTS = [0, 1, -1, 7, 42, -42, 2 ** 31 - 1, -2 ** 31, 2 ** 31, 2 ** 53, 2 ** 63 - 1, -2 ** 63, 2 ** 63 - 2, -2 ** 63 + 1, 10 ** 18,
        -10 ** 18, 255, 1000000]
FLOATS = [0.0, -0.0, 1.0, -1.0, 1e300, 1e-300, 5e-324, float("inf"), float("-inf"), float("nan"), 0.1, 1.0 / 3.0, 1.5,
          -2.5e-7, 1e21, 1e16, 1e15, 123456789.125, 2.0 ** 63, -2.0 ** 63, 1.7976931348623157e308, 2.2250738585072014e-308,
          1e22, 1e23, 9007199254740993.0, 0.30000000000000004, 6.02214076e23]
FLOAT_BITS = [0x7ff8000000000001, 0xfff8000000000000, 0x7ff0000000000001, 0x0000000000000001, 0x8000000000000001,
              0x000fffffffffffff, 0x7fefffffffffffff]


def boundary_numbers():
    out = []
    for i in INTS:
        out.append(I(i))
    for f in FLOATS:
        out.append(F(f))
    for b in FLOAT_BITS:
        out.append(("F", b))
    return out


def rand_scalar(rng, multi_ok):
    r = rng.random()
    if r < 0.08:
        return N
    if r < 0.14:
        return ("B", rng.randrange(2))
    if r < 0.26:
        return I(rng.choice(INTS) if rng.random() < 0.6 else rng.randrange(-2 ** 63, 2 ** 63))
    if r < 0.36:
        if rng.random() < 0.7:
            return F(rng.choice(FLOATS))
        b = rng.getrandbits(64)
        return ("F", b)
    if r < 0.75:
        s = rng.choice(WORDS)
    elif r < 0.80 and multi_ok:
        s = rng.choice(BAD_MULTI)
    else:
        s = rand_string(rng)
    return S(s)


def rand_tree(rng, d, multi_ok=True, key=False, top=False):
    """random tree of depth <= d; collections may be empty; keys may be collections"""
    r = rng.random()
    if d == 0 or (not top and r < (0.45 if key else 0.3)):
        return rand_scalar(rng, multi_ok)
    if top:
        r = 0.3 + 0.7 * r
    n = rng.choice([0, 1, 1, 2, 2, 3, 4])
    if r < 0.65:
        return ("Q", [rand_tree(rng, d - 1, multi_ok) for _ in range(n)])
    pairs, seen = [], set()
    for _ in range(n):
        for _try in range(5):
            k = rand_tree(rng, d - 1, multi_ok, key=True)
            dk = dump(k, loose=True)
            if dk not in seen:
                seen.add(dk)
                pairs.append((k, rand_tree(rng, d - 1, multi_ok)))
                break
    return ("M", pairs)


def chain(t, n, kind):
    for _ in range(n):
        t = Q(t) if kind == "Q" else M((S("k"), t)) if kind == "M" else M((Q(t), I(1))) if kind == "CK" else Q(I(1), t)
    return t


def special_trees():
    out = [Q(), M(), Q(Q()), Q(M()), M((Q(), M())), M((M(), Q())), M((Q(Q()), N)), Q(Q(Q(), M()), M((N, N))),
           M((N, N)), M((("B", 1), ("B", 0))), M((I(1), S("1"))), M((S("1"), I(1)), (I(1), S("1"))),
           M((F(1.0), I(1)), (I(1), F(1.0)), (S("1.0"), S("1"))), M((F(float("nan")), F(float("nan")))),
           M((S(""), S(""))), Q(S(""), S(" "), S("~")), M((S("~"), N), (N, S("~"))),
           M((M((S("a"), I(1))), M((S("b"), I(2)))), (Q(I(1), I(2)), Q(I(3)))),
           M((Q(M((Q(S("deep")), N))), S("v")))]
    for kind in ("Q", "M", "CK", "Q2"):
        # every depth up to 20: the indentation of a nested multi-line string runs through every value around the
        # look-ahead sizes of the input back-ends (a literal block 8 levels deep is indented 16 columns)
        for n in range(1, 21):
            for s in ("a", "a\nb", "a\nb\n", "x y", "", "a\n\nb", "line one\nline two\n\n"):
                out.append(chain(S(s), n, kind))
    return out


def long_key_trees():
    """around the loader's implicit-key limit of 1024 characters (former finding G1: longer keys take the explicit
    `? key` form), around the byte-length shortcut of `is_long_key` ((1024 - 2) / 6 = 170 bytes), multi-line long
    keys, and long values (fine)"""
    out = []
    for s in ["a" * 1024, "a" * 1025, " " + "a" * 1021, " " + "a" * 1022, "\x01" * 170, "\x01" * 171, "\x01" * 172,
              "\x01" * 173, "\u00e9" * 85, "\u00e9" * 86, "\u00e9" * 1024, "\u00e9" * 1025, "\U0001f600" * 1024,
              "\U0001f600" * 1025, "\"" * 511, "\"" * 512, "a" * 3000, "a\n" * 512, "a\nb" * 400, "a: b\n" * 300 + "c",
              "\n" + "a" * 1100, " a\n" * 400, "a" * 1100 + "\n\n"]:
        out.append(M((S(s), I(7))))
        out.append(Q(M((S("k"), M((S(s), S(s)))))))
        out.append(M((S("k"), S(s))))
        out.append(M((Q(S(s)), S(s))))
    return out


def c09_groups(tier, rng):
    """[(label, [tree])]"""
    quick = tier == "quick"
    g = []
    n20, n38 = (3, 2) if quick else (4, 3)
    g.append(("exhaustive<=%d/A20 x root,item,key,value" % n20,
              (t for s in atoms_upto(A20, n20) for _, t in base_positions(s))))
    g.append(("exhaustive<=%d/A20 x nested positions" % (n20 - 1),
              (t for s in atoms_upto(A20, n20 - 1) for _, t in nested_positions(s))))
    g.append(("exhaustive<=%d/A38 x root,item,key,value" % n38,
              (t for s in atoms_upto(A38, n38) for _, t in base_positions(s))))
    fam = line_family(2, rng) + (line_family(3, rng, 4000) if quick else line_family(3, rng))
    fam = list(dict.fromkeys(fam))
    g.append(("line-family(<=3 lines of %d line atoms, 0-3 trailing LF) x 8 positions" % len(LINE_ATOMS),
              (t for s in fam for _, t in base_positions(s) + nested_positions(s))))
    g.append(("type-like words and separators x 8 positions",
              (t for s in WORDS + BAD_MULTI for _, t in base_positions(s) + nested_positions(s))))
    rs = [rand_string(rng) for _ in range(4000 if quick else 60000)]
    g.append(("random Unicode strings x root,item,key,value", (t for s in rs for _, t in base_positions(s))))
    nums = boundary_numbers()
    g.append(("boundary numbers x root,item,key,value",
              [x for v in nums for x in (v, Q(v, v), M((v, v)), M((S("k"), v), (v, S("k"))))]))
    g.append(("special trees (empty / complex-key collections, nesting chains)", special_trees()))
    g.append(("implicit-key limit", long_key_trees()))
    g.append(("random trees depth<=5", [rand_tree(rng, rng.randrange(1, 6), top=True) for _ in range(6000 if quick else 100000)]))
    g.append(("random trees depth<=5 without defective multi-line strings",
              [rand_tree(rng, rng.randrange(1, 6), multi_ok=False, top=True) for _ in range(3000 if quick else 50000)]))
    return g


SETTINGS = [(c, m) for c in (0, 1) for m in (0, 1)]


# ------------------------------------------------------------------------------------------------
# the check
# ------------------------------------------------------------------------------------------------
def model_line(c, m, t, float_texts):
    """case line for the model: float leaves carry the text the implementation's number formatting produced"""
    toks = encode(t).split(" ")
    if float_texts:
        it = iter(float_texts)
        toks = ["T" + next(it, "") if x[0] == "F" else x for x in toks]
    return "c%d m%d %s" % (c, m, " ".join(toks))


def short(t, n=300):
    e = encode(t)
    return e if len(e) <= n else e[:n] + "...(%d chars)" % len(e)


def describe(c, m, t):
    return dict(settings=dict(compact=bool(c), multiline_strings=bool(m)), tree=short(t, 1500), dump=dump(t)[:1500],
                case_line=("c%d m%d %s" % (c, m, encode(t)))[:6000])


def oracle(f, t):
    """the property on the implementation's output; returns '' or what failed"""
    if f[0] != "OK":
        return "emitter: " + f[0][:120]
    if len(f) < 8:
        return "harness output truncated"
    if not f[3].startswith("L"):
        return "emitted text does not load: " + f[3][:120]
    if f[3] != "L1":
        return "emitted text loads as %s documents" % f[3][1:]
    if loosen(f[4]) != loosen(f[1]):
        return "reloaded tree differs from the original"
    if f[5] != "1":
        return "reloaded tree prints the same but is not == to the original"
    if f[6] != f[2]:
        return "emitting the reloaded tree gives a different text"
    return ""


def check_C09(tier, seed):
    res = Result(PID, tier, seed)
    proof = prepare(PID, res, model_tags=("C09",))
    if tier == "thorough" and not proof["broken"]:
        with core.Lock():
            ok, out = core.coqchk(PID)
        res.coverage["coqchk"] = "ok" if ok else "FAILED"
        if not ok:
            res.add_tie_break("coqchk rejects the compiled proofs", error=out[-1500:])
    rng = gen.rng_for(seed, PID)
    groups = c09_groups(tier, rng)
    dist, verdicts, style = {}, {}, {"plain": 0, "double-quoted": 0, "literal-block": 0}
    cls_stat = {}           # former defect class -> [cases in class, failing cases in class, unused]
    max_implicit_key = [0]
    seen = set()
    nontrivial = set()
    n_model_rt = n_strings = 0
    rt_budget = 60000 if tier == "quick" else 400000
    viol_cap = 40
    if res.harness_ok and res.model_ok:
        for label, trees in groups:
            batch = []
            count = 0

            def flush():
                nonlocal n_model_rt
                if not batch:
                    return
                lines = ["c%d m%d %s" % (c, m, encode(t)) for (c, m, t) in batch]
                impl = run_bin("hx_c09", [], lines)
                fs = [l.split("|") for l in impl]
                mlines = [model_line(c, m, t, f[7].split(",") if len(f) > 7 and f[7] else [])
                          for (c, m, t), f in zip(batch, fs)]
                model = run_mx(["emit"], mlines, tag="C09")
                # the whole model pipeline (emitter model -> scanner/parser/loader models) on a share of the cases
                step = max(1, (len(batch) * len(groups)) // max(1, rt_budget))
                idx = list(range(0, len(batch), step))
                rt = dict(zip(idx, run_mx(["rt"], [mlines[i] for i in idx], tag="C09")))
                n_model_rt += len(idx)
                for i, ((c, m, t), f) in enumerate(zip(batch, fs)):
                    res.evaluations += 1
                    what = oracle(f, t)
                    if f[0] == "OK" and len(f) > 1 and f[1] != dump(t):
                        res.add_tie_break("harness decoded a different tree than generated", case=short(t), got=f[1][:300])
                        continue
                    if f[0] == "DUPKEY":
                        res.add_tie_break("generator produced duplicate keys", case=short(t))
                        continue
                    mo = model[i].split("|")
                    maxkey = int(mo[1]) if len(mo) == 2 and mo[1].isdigit() else -1
                    # --- the tie: model emitter text == implementation text
                    if len(f) > 2 and f[0] == "OK":
                        if len(mo) != 2 or mo[0] != f[2]:
                            if len(res.tie_breaks) < viol_cap:
                                res.add_tie_break("correspondence: emitter model text != implementation text",
                                                  case=describe(c, m, t), model=mo[0][:400], impl=f[2][:400])
                        txt = f[2]
                        if t[0] == "S":
                            body = txt[len("45.45.45.10"):].lstrip(".")
                            k = "plain" if body == cps(t[1]) and t[1] else \
                                "literal-block" if body.startswith("124") and m and "\n" in t[1] else "double-quoted"
                            style[k] += 1
                        if ".34." in txt or ".124." in txt or txt.count(".10.") >= 3:
                            nontrivial.add(hash(txt))
                    if i in rt:
                        r = rt[i].split("|")
                        if len(r) != 2 or r[0] != "1":
                            res.add_tie_break("generated tree is not well-formed for the model (wf_node)", case=short(t),
                                              model=rt[i][:200])
                        elif (r[1] == "1") != (what == ""):
                            if len(res.tie_breaks) < viol_cap:
                                res.add_tie_break("correspondence: round trip through the model pipeline %s but the "
                                                  "implementation %s" % ("succeeds" if r[1] == "1" else "fails",
                                                                         "fails: " + what if what else "succeeds"),
                                                  case=describe(c, m, t))
                    # --- the property, on the implementation (no class of failures is suppressed; the former defect
                    #     classes only label the cases for the coverage report)
                    classes = tree_classes(m, t)
                    if long_keys(t):
                        classes.append(G1)
                    for k in classes:
                        st = cls_stat.setdefault(k, [0, 0, None])
                        st[0] += 1
                    if maxkey > max_implicit_key[0]:
                        max_implicit_key[0] = maxkey
                    verdicts["ok" if not what else "fail"] = verdicts.get("ok" if not what else "fail", 0) + 1
                    if not what and maxkey > KEY_LIMIT:
                        what = "model: an implicit key of %d characters was emitted" % maxkey
                    if what:
                        for k in classes:
                            cls_stat[k][1] += 1
                        if len(res.violations) < viol_cap:
                            res.add_violation(what + (" [regression of the repaired class(es) %s]" % ", ".join(classes)
                                                      if classes else ""),
                                              describe(c, m, t), emitted=uncps(f[2])[:400] if len(f) > 2 else "",
                                              reloaded=f[4][:400] if len(f) > 4 else "", impl="|".join(f)[:800])
                del batch[:]

            for t in trees:
                e = encode(t)
                if e in seen:
                    continue
                seen.add(e)
                count += 1
                for c, m in SETTINGS:
                    batch.append((c, m, t))
                if len(batch) >= 200000:
                    flush()
            flush()
            dist[label] = count
        res.samples = [dict(case="c1 m0 " + short(Q(S("a: b"), M((Q(N), F(1.0)))))),
                       dict(case="c0 m1 " + short(M((S("k"), S("a\nb"))))),
                       dict(case="c1 m1 " + short(M((S("a\nb"), S(" a\nb")))))]
    res.nontrivial = nontrivial
    res.coverage["input_distribution"] = dict(groups=dist, settings=["compact x multiline_strings: 4 per tree"],
                                              distinct_trees=len(seen))
    res.coverage["verdicts"] = verdicts
    res.coverage["root_string_styles"] = style
    res.coverage["repaired_classes"] = {k: dict(cases_in_class=v[0], failing=v[1]) for k, v in sorted(cls_stat.items())}
    res.coverage["longest_implicit_key_emitted_by_the_model"] = max_implicit_key[0]
    res.coverage["traces_validated_against_impl"] = res.evaluations
    res.coverage["model_pipeline_round_trips_compared"] = n_model_rt
    res.coverage["exhaustive"] = False
    res.assumptions = [
        "float leaves: the text of Rust's {:?} formatting is an input of the emitter model (passed through from the "
        "implementation); that it is the shortest round-tripping decimal is checked only by the reload oracle",
        "the theorems are about the Gallina model; the emitter model is tied to emitter.rs by the regenerated tables and "
        "by comparing its text with the implementation's on every generated case",
        "C09_full (tree-level round trip through the scanner/parser/loader models) is stated, not proved: what is proved is "
        "that the emitted text is a sentence of the block-layout grammar (Spec/BlockLayout.v) denoting the tree, for trees "
        "without U+FEFF in multi-line strings; the model pipeline is evaluated on a share of the cases and must agree with "
        "the implementation's verdict",
    ]
    rule = ("trees: every string over a 20-symbol alphabet (16 indicators, space, tab, LF, digit) up to length %d in root / "
            "sequence item / mapping key / mapping value position (and up to %d in 4 nested positions), a 38-atom alphabet with "
            "type-like words up to %d atoms, a family of multi-line strings built from line atoms, random Unicode strings, "
            "boundary integers and floats, empty and complex-key collections, nesting chains, keys around the 1024-character "
            "implicit-key limit, random trees to depth 5; each under compact x multiline_strings; non-trivial = distinct "
            "emitted texts that contain a quoted or literal scalar or at least 3 line breaks"
            % ((3, 2, 2) if tier == "quick" else (4, 3, 3)))
    return res.finish(proof, rule)
