"""C10, byte level: every public `Input` method of the real `StrInput` (parser/src/input/str.rs) at every offset of short
strings, against (1) the extracted byte-level model coq/Model/StrBytes.v (tie: model = implementation, probe by probe)
and (2) the character-level definition of the provided methods of the `Input` trait, computed here independently
(oracle on the implementation: the string back-end answers what the generic definition answers — the statement of
C10_str_bytes_refines_chars).  Called from check_C10 (vlib/props.py) through the hook

        from .p_c10x import str_methods
        str_methods(res, cases, lines)

inside `if res.harness_ok and res.model_ok:`.  The helper builds its own extraction unit (coq/Extract/ExtractC10.v +
ocaml/driver_c10.ml -> build/ocaml_c10/mx); the harness binary hx_c10 is built with the others by prepare().

Implementation side: harness/src/bin/hx_c10.rs (`hx_c10 methods`), one line per case `<k> <la> <code points>`:
the input is advanced by skip_n(k), lookahead(la) is called if la > 0, then EACH method is called on a fresh input and
its value, the remaining byte length and buflen() are printed.

The three places where `StrInput` really differs from the provided methods (proved as C10_bytes_plain_scalar_panics_on_empty,
C10_bytes_next_2_are_nul_differs, C10_bytes_consuming_overrides_skip_lookahead; none reachable from the scanner) are part
of the reference below: next_can_be_plain_scalar panics on the empty buffer; next_2_are/next_3_are are false when they
run off the end (the provided methods compare with the '\\0' padding); the four consuming overrides leave buflen() alone."""
import random
from . import core, gen

ALPHABET = [":", "-", ".", "#", ",", "[", "]", "{", "}", "?", "!", "&", "*", "|", ">", "'", '"', "%", "@", "`",
            " ", "\t", "\n", "\r", "\0", "a", "Z", "0", "_", "~", "\x7f",
            "\u00e9", "\u0080", "\u0085", "\u00a0", "\u07ff", "\u0800", "\u20ac", "\u2028", "\ufeff", "\uffff",
            "\U00010000", "\U0001f600", "\U0010ffff"]
CORE = [":", "-", ".", "#", ",", " ", "\t", "\n", "\r", "\0", "a", "\u00e9", "\u20ac", "\U0001f600"]
PATTERNS = ["---", "...", "--- ", "...\n", "---\r", "...\r", "---\t", "...\t", "...\0", "-.-", "..-", "---\u00e9", "--\u00e9", "-\u00e9-", "\u00e9--", "---\0", "....", "----",
            " #", "\t#", " \t #c\u00e9\n", "#", "# \u20ac\r\n", "  \t", "\t  x", " \u00e9", ": ", ":\t", ":\n", ":\0", ":",
            ":\u00e9", ":,", ":]", ":a", "\u00e9:", "a\u00e9_-\u20ac", "az09_-", "az09_-\U0001f600", "a\u00e9", "\r\n",
            "\n", "\r", "x\r", "\u0085", "\u2028", "\ufeff", "  ", "\t\t", " \t "]


def blank(c): return c in (32, 9)
def brk(c): return c in (10, 13)
def breakz(c): return c in (10, 13, 0)
def blankz(c): return blank(c) or breakz(c)
def flow(c): return c in (44, 91, 93, 123, 125)
def digit(c): return 48 <= c <= 57
def alpha(c): return digit(c) or 97 <= c <= 122 or 65 <= c <= 90 or c in (95, 45)
def blen(r): return sum(1 if c < 0x80 else 2 if c < 0x800 else 3 if c < 0x10000 else 4 for c in r)
def b(x): return "1" if x else "0"


def reference(cs, k, la):
    """the result line of hx_c10 according to the provided methods of `Input` run on the characters (plus the three
    documented deviations of StrInput)"""
    r0 = cs[k:]
    out = []

    def nth(r, n): return r[n] if n < len(r) else 0
    def put(name, v, r, look): out.append("%s=%s|%d/%d" % (name, v, blen(r), look))
    a = [nth(r0, i) for i in range(3)]
    put("state", "", r0, la)
    put("lookahead3_1", "", r0, max(la, 3))
    put("bufmaxlen", "128", r0, la)
    put("buf_is_empty", b(la == 0), r0, la)
    put("raw_read_ch", str(nth(r0, 0)), r0[1:], la)
    if r0 and not breakz(r0[0]):
        put("raw_read_non_breakz_ch", str(r0[0]), r0[1:], la)
    else:
        put("raw_read_non_breakz_ch", "-", r0, la)
    put("skip", "", r0[1:], la)
    for n in range(4):
        put("skip_n%d" % n, "", r0[n:], la)
    put("peek", str(nth(r0, 0)), r0, la)
    for n in range(5):
        put("peek_nth%d" % n, str(nth(r0, n)), r0, la)
    put("look_ch", str(nth(r0, 0)), r0, max(la, 1))
    put("next_char_is.self", b(nth(r0, 0) == a[0]), r0, la)
    put("next_char_is.colon", b(nth(r0, 0) == 58), r0, la)
    put("next_char_is.nul", b(nth(r0, 0) == 0), r0, la)
    for n in (1, 2):
        put("nth_char_is%d.self" % n, b(True), r0, la)
        put("nth_char_is%d.nul" % n, b(nth(r0, n) == 0), r0, la)

    def are(*xs):      # StrInput: false when the buffer ends first (deviation 2)
        return len(r0) >= len(xs) and all(r0[i] == x for i, x in enumerate(xs))
    put("next_2_are.self", b(are(a[0], a[1])), r0, la)
    put("next_2_are.dash", b(are(45, 45)), r0, la)
    put("next_2_are.self_nul", b(are(a[0], 0)), r0, la)
    put("next_3_are.self", b(are(a[0], a[1], a[2])), r0, la)
    put("next_3_are.dash", b(are(45, 45, 45)), r0, la)
    put("next_3_are.dot", b(are(46, 46, 46)), r0, la)
    put("next_3_are.self_nul", b(are(a[0], a[1], 0)), r0, la)

    def n3(x): return nth(r0, 0) == x and nth(r0, 1) == x and nth(r0, 2) == x
    e4 = blankz(nth(r0, 3))
    put("next_is_document_indicator", b(e4 and (n3(46) or n3(45))), r0, la)
    put("next_is_document_start", b(n3(45) and e4), r0, la)
    put("next_is_document_end", b(n3(46) and e4), r0, la)
    for nm, tabs in (("yes", True), ("no", False)):
        r, n, tab, ws, err = r0, 0, False, False, False
        while True:        # the provided skip_ws_to_eol
            c = nth(r, 0)
            if c == 32:
                ws = True
                r = r[1:]
            elif c == 9 and tabs:
                tab = True
                r = r[1:]
            elif c == 35 and not tab and not ws:
                err = True
                break
            elif c == 35:
                r = r[1:]
                while not breakz(nth(r, 0)):
                    r = r[1:]
                    n += 1
            else:
                break
            n += 1
        put("skip_ws_to_eol." + nm, ("%d,err" % n) if err else "%d,ok,%s,%s" % (n, b(tab), b(ws)), r, la)
    for nm, fl in (("block", False), ("flow", True)):
        if not r0:
            out.append("next_can_be_plain_scalar.%s=PANIC" % nm)      # deviation 1
            continue
        c, nc = nth(r0, 0), nth(r0, 1)
        if c == 58 and (blankz(nc) or (fl and flow(nc))):
            v = False
        elif fl and flow(c):
            v = False
        else:
            v = True
        put("next_can_be_plain_scalar." + nm, b(v), r0, la)
    p = nth(r0, 0)
    put("next_is_blank_or_break", b(blank(p) or brk(p)), r0, la)
    put("next_is_blank_or_breakz", b(blankz(p)), r0, la)
    put("next_is_blank", b(blank(p)), r0, la)
    put("next_is_break", b(brk(p)), r0, la)
    put("next_is_breakz", b(breakz(p)), r0, la)
    put("next_is_z", b(p == 0), r0, la)
    put("next_is_flow", b(flow(p)), r0, la)
    put("next_is_digit", b(digit(p)), r0, la)
    put("next_is_alpha", b(alpha(p)), r0, la)
    r, n = r0, 0
    while not breakz(nth(r, 0)):
        r, n = r[1:], n + 1
    put("skip_while_non_breakz", str(n), r, la)
    r, n = r0, 0
    while blank(nth(r, 0)):
        r, n = r[1:], n + 1
    put("skip_while_blank", str(n), r, la)
    r, n, o = r0, 0, [120]
    while alpha(nth(r, 0)):
        o.append(r[0])
        r, n = r[1:], n + 1
    put("fetch_while_is_alpha", "%d,%s" % (n, ".".join(map(str, o))), r, la)
    return ";".join(out)


def first_diff(x, y):
    xs, ys = x.split(";"), y.split(";")
    for p, q in zip(xs, ys):
        if p != q:
            return p, q
    return ("<%d probes>" % len(xs)), ("<%d probes>" % len(ys))


def make_texts(tier, seed):
    rng = gen.rng_for(seed, "C10-bytes")
    texts = [""] + [c for c in ALPHABET] + [x + y for x in ALPHABET for y in ALPHABET]
    texts += [x + y + z for x in CORE for y in CORE for z in CORE]
    texts += PATTERNS + [p + q for p in PATTERNS for q in ("", "\n", " ", "\u00e9", "\0")]
    n_random = 2500 if tier == "quick" else 40000
    for _ in range(n_random):
        n = rng.randint(3, 9)
        pool = ALPHABET if rng.random() < 0.5 else CORE
        s = "".join(rng.choice(pool) for _ in range(n))
        if rng.random() < 0.4:
            i = rng.randint(0, len(s))
            s = s[:i] + rng.choice(PATTERNS) + s[i:]
        texts.append(s)
    seen, res = set(), []
    for t in texts:
        if t not in seen:
            seen.add(t)
            res.append(t)
    return res


def str_methods(res, cases, lines):
    """res: the Result of check_C10; cases/lines: its inputs and their code-point encodings (a sample of them is probed at a
    few offsets, on top of the generated short strings, which are probed at EVERY offset)."""
    with core.Lock():
        ok, out = core.build_model("C10")
    if not ok:
        res.add_tie_break("the executable byte-level model of StrInput no longer builds (unit 'C10')", error=out[-2000:])
        return
    rng = gen.rng_for(res.seed, "C10-bytes-offsets")
    texts = make_texts(res.tier, res.seed)
    probes = []                         # (text, k, la)
    for t in texts:
        for k in range(len(t) + 2):     # every offset, the end, and one beyond
            probes.append((t, k, 0 if (k + len(t)) % 2 == 0 else 4))
    corpus = [c for c in cases if 0 < len(c) <= 400]
    rng.shuffle(corpus)
    for c in corpus[:300 if res.tier == "quick" else 3000]:
        for k in sorted(set([0, len(c) - 1, len(c)] + [rng.randint(0, len(c)) for _ in range(4)])):
            probes.append((c, k, rng.choice((0, 1, 4))))
    plines = ["%d %d %s" % (k, la, core.enc(t)) for t, k, la in probes]
    impl = core.run_bin("hx_c10", ["methods"], plines)
    model = core.run_mx(["methods"], plines, tag="C10")
    n_multi = 0
    for i, (t, k, la) in enumerate(probes):
        res.evaluations += 1
        cs = [ord(c) for c in t]
        ref = reference(cs, k, la)
        case = dict(input=t, codepoints=core.enc(t), offset=k, lookahead=la, api="StrInput: every Input method after skip_n(offset)")
        if impl[i] != ref:
            got, want = first_diff(impl[i], ref)
            res.add_violation("StrInput answers differently from the provided (character-level) definition of the Input method",
                              case, implementation=got, generic_definition=want)
        if model[i] != impl[i]:
            got, want = first_diff(model[i], impl[i])
            res.add_tie_break("correspondence: byte-level model of StrInput (Model/StrBytes.v) != implementation",
                              case=case, model=got, impl=want)
        if any(ord(c) >= 0x80 for c in t[k:k + 4]):
            n_multi += 1
            res.nontrivial.add("bytes:%d:%s" % (k, t))
    res.coverage["str_methods"] = dict(texts=len(texts), probes=len(probes), methods_per_probe=impl[0].count(";") + 1 if impl else 0,
                                       multibyte_within_4_chars=n_multi, alphabet=[ord(c) for c in ALPHABET])
    if probes:
        j = len(probes) // 3
        res.samples.append(dict(input=probes[j][0], offset=probes[j][1], str_methods=impl[j][:300]))


def _standalone(exe):
    """python3 -m vlib.p_c10x <path to an hx_c10 binary>: the quick-tier probes against the reference only (used by
    tools/c10_bytes_mutants.sh to evaluate hx_c10 builds of mutated copies of /repo)"""
    import subprocess
    texts = make_texts("quick", 1)
    probes = [(t, k, 0 if (k + len(t)) % 2 == 0 else 4) for t in texts for k in range(len(t) + 2)]
    plines = ["%d %d %s" % (k, la, core.enc(t)) for t, k, la in probes]
    out = subprocess.run([exe, "methods"], input=("\n".join(plines) + "\n").encode(), stdout=subprocess.PIPE).stdout.decode().split("\n")
    bad, first = 0, None
    for i, (t, k, la) in enumerate(probes):
        ref = reference([ord(c) for c in t], k, la)
        if i >= len(out) or out[i] != ref:
            bad += 1
            if first is None:
                first = (t, k, la, first_diff(out[i] if i < len(out) else "", ref))
    print("probes %d mismatches %d first %r" % (len(probes), bad, first))
    return 1 if bad else 0


if __name__ == "__main__":
    import sys
    sys.exit(_standalone(sys.argv[1]))
