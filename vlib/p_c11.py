"""C11 — Nesting depth cannot crash the process.

What is proved (coq/Properties/C11.v) is what a model can carry: recursion depth / heap-stack length as functions of the
nesting depth; for EVERY token stream the parser nests at most twice as deep as the tokens; for EVERY input the scanner model
keeps flow_level <= FLOW_LEVEL_MAX, at most BLOCK_NESTING_MAX block indents, and its token stream never has more open
collection-start tokens than these stacks hold (Gen/Consts.v, generated from the Rust source); composed: for EVERY text the
events of the model pipeline nest at most NEST_BOUND deep — a CONSTANT.  Bytes of stack per activation and the 8 MiB limit are
run-time facts, so the property itself is checked here:

  implementation  build/cargo/{debug,release}/hx_c11 <shape> <depth> <api> — ONE scenario per child process, run on a
                  thread with an explicit 8 MiB stack; a stack overflow kills the child with a signal, which is the
                  observation (exit status + the `STAGE` lines printed before it died + the runtime's message on stderr).
  oracle          per scenario: the child must end with `OK` or `ERR <message>` (an error VALUE); flow nesting and block nesting
                  must be `OK` up to depth 255 and `ERR ... recursion limit exceeded` from depth 256 on; the repaired bypass
                  families (qflow, colons, colonsok, cbrace) must end with their error value at every depth; anything else
                  (killed by a signal, PANIC, timeout, strange exit status, nesting > 255 accepted) is a VIOLATION with the
                  scenario as replay.  known_findings_c11.jsonl holds only `fixed` entries now (they suppress nothing); the
                  mechanism for `known` entries (a decidable predicate on shape, api, depth) is kept for future findings.
  tie             the witness family of theorem C11_parser_alone_has_no_nesting_limit_remark is the real scanner's output up to
                  the limit: `hx tokens` on "- " * d + "a" (d <= 255) is compared with
                  StreamStart (BlockSequenceStart BlockEntry)^d Scalar BlockEnd^d StreamEnd, beyond the limit model pipeline and
                  implementation must give the same error at the same position; the extracted parser model is run on the real
                  tokens and on the text (events == implementation's events), the depth reported by hx_c11 equals the intended
                  depth for every shape, and the flow and block limits of model (Err site 45 / 46) and implementation coincide
                  in position and verdict; Gen/Consts.v FLOW_LEVEL_MAX = BLOCK_NESTING_MAX = 255.

  oracle 2        the extracted Coq function [c11_oracle] (Model/Depth.v; theorem C11_oracle_holds_on_model says it cannot fail on
                  the model) is run on the IMPLEMENTATION's tokens (`hx tokens`) and events (`hx events str`) of generated inputs
                  (the families at small depths, at the limit boundary and DEEP (1000, 20000 levels), token / line / flow soups of
                  vlib/gen.py, nesting soups): (h) the flow level along the real token stream stays within 255, (g) the real
                  events nest at most twice as deep as the real tokens, (i) both combined, (k) NEW: the real events nest at most
                  NEST_BOUND deep — the constant of theorem C11_text_nesting_bounded; a real input nested deeper is a VIOLATION.

History of the recorded classes (all repaired; each keeps its scenarios as REGRESSION scenarios with an oracle of its own):
  qflow    "[ ? ] , " repeated           c5ad60c   must be "did not find expected <document start>"
  seq/map/qkey/alt/mix (block nesting)   99c201b   must be OK up to the limit, "recursion limit exceeded" beyond
  colons / colonsok ("[ : : : ..")       597a354   d >= 2: "did not find expected node content" / the scan error of the '}'
  cbrace   "[ : } , " repeated           88700d3   must be "while parsing a flow sequence, expected ',' or ']'"

Known finding (recorded, not repaired): C11-alias-chain-tree-depth, shape `alias` ("- &a0 [x]" / "- &a<i> [*a<i-1>]").  The events nest
2 deep, so no nesting limit applies; the loader clones the anchored node at every alias, the loaded tree is d + 1 deep (~d^2/2 nodes)
and Clone (inside Yaml::load_from_str), Drop and the emitter recurse once per level: stack overflow from d = 6546 (debug) / 7702
(release) on, at 4 - 5.6 GB RSS.  An abort is attributed to that class iff  shape in entry.shapes  and  api in entry.apis  and
depth >= entry.min_depth // MARGIN  and the child died of SIGABRT/SIGSEGV after the runtime reported a stack overflow (MARGIN = 4:
frame sizes move with profile and compiler version).  The scenarios run two at a time under a 12 GB address-space cap; an allocation
failure is kind OOM (reported as inconclusive), never the recorded class.  The quick tier stays below the threshold (depth <= 4000,
1.5 GB), so the KNOWN-FINDING line appears in the thorough tier only.  Model: theorems C11_alias_chain_family,
C11_tree_depth_not_bounded_by_nesting_refuted, C11_loaded_tree_depth_bounded_by_collection_starts.
"""
import concurrent.futures
import json
import os
import re
import resource
import signal
import subprocess
import time

from . import core, gen
from .core import Result, enc, ev_kind, fin_pos, prepare, run_hx, run_mx, split_line

ID = "C11"
KNOWN_FILE = os.path.join(core.VERIF, "known_findings_c11.jsonl")
MARGIN = 4
FLOW_LIMIT = 255                      # the property's number; cross-checked with Gen/Consts.v FLOW_LEVEL_MAX
BLOCK_LIMIT = 255                     # cross-checked with Gen/Consts.v BLOCK_NESTING_MAX
BLOCK_SHAPES = ["seq", "map", "qkey", "alt", "mix"]
PURE_BLOCK_SHAPES = ["seq", "map", "qkey", "alt"]      # d block levels; `mix` has d - min(d, 100) block levels
FLOW_SHAPES = ["fseq", "fmap"]
# repaired bypass families: must be the error value of the repaired code at every depth, through every api
#   shape -> (commit, text of the error value, smallest depth from which the text must be rejected)
REGRESSION = {
    "qflow": ("c5ad60c", "did not find expected <document start>", 1),
    "colons": ("597a354", "did not find expected node content", 2),
    "colonsok": ("597a354", "", 1),        # d = 1: the '}' (88700d3); d >= 2: the second ':' or the '}', whichever the api meets first
    "cbrace": ("88700d3", "while parsing a flow sequence, expected ',' or ']'", 1),
}
COLONSOK_ERRORS = ("did not find expected node content", "while parsing a flow sequence, expected ',' or ']'")
REGRESSION_SHAPES = list(REGRESSION)
SHAPES = BLOCK_SHAPES + FLOW_SHAPES + REGRESSION_SHAPES
# ALIAS CHAIN: "- &a0 [x]" / "- &a<i> [*a<i-1>]": event nesting 2 (no nesting limit applies), loaded tree d + 1 deep, ~d^2/2 nodes.
# Memory is quadratic in d (1.5 GB at 4000, 3.4 GB at 6000, 5.6 GB at 7700): these scenarios run at most ALIAS_POOL at a time under an
# address-space cap, an allocation failure is reported as OOM (inconclusive), never confused with the stack abort.
ALIAS_SHAPE = "alias"
ALIAS_APIS = ["iter", "load", "drop", "emit"]
ALIAS_TREE_APIS = ["drop", "emit"]
ALIAS_LIGHT = [1, 2, 10, 100, 1000]
ALIAS_FLAT_EXTRA = [6000, 100000]                 # iter / load build no tree
ALIAS_TREE_QUICK = [3000, 4000]
ALIAS_TREE_THOROUGH = [3000, 4000, 5000, 6000, 7000, 8000, 9000]
ALIAS_MEM_CAP_GB = 12
ALIAS_POOL = 2
APIS = ["iter", "load", "drop", "emit"]
AUX_APIS = ["pdrop", "pemit"]         # drop / emit of a tree built WITHOUT Parser::load: their own thresholds
RECURSIVE_APIS = ["load", "drop", "emit", "pdrop", "pemit"]
SHAPE_TEXT = {"seq": "'- ' per level", "map": "'a:' + newline per level, indentation growing by one",
              "qkey": "'? ' per level", "alt": "alternating '- ' / '? '", "fseq": "'[' per level, closed",
              "fmap": "'{a: ' per level, closed", "mix": "'- ' levels around a core of (at most) 100 '[' levels",
              "qflow": "'[ ? ] , ' per level then d closing ']' (regression: was accepted as d nested flow sequences before c5ad60c; must be an error value)",
              "colons": "'[' + ' :' per level + ']' (regression: d nested synthetic flow mappings at scanner flow level 1 before 597a354; must be an error value for d >= 2)",
              "colonsok": "'[' + ' :' per level + ' ' + '}' per level + ']' (regression: accepted with d nested synthetic flow mappings before 597a354; must be an error value)",
              "alias": "'- &a0 [x]' then '- &a<i> [*a<i-1>]' per level (alias chain: event nesting 2, loaded tree depth d + 1, ~d^2/2 nodes)",
              "cbrace": "'[ : } , ' per level then d closing ']' (regression: accepted as d nested flow sequences at scanner flow level 1 before 88700d3; must be an error value)"}
# the `map` input has d*(d+5)/2 bytes (10^5 levels = 5 GB): capped
MAP_CAP = {"quick": 20000, "thorough": 40000}
QUICK_DEPTHS = [1, 10, 100, 255, 256, 257, 1000, 3000, 10000, 30000, 100000]
THOROUGH_EXTRA = [2, 3, 5, 20, 50, 200, 254, 258, 300, 500, 2000, 5000, 7000, 15000, 20000, 25000, 40000, 50000, 70000]
TIMEOUT = 300
POOL = 16


def build_input(shape, d):
    """the same text hx_c11 builds (used for replay files and the tie; never for depths where it is huge)"""
    if shape == "seq":
        return "- " * d + "a"
    if shape == "qkey":
        return "? " * d + "a"
    if shape == "alt":
        return "".join("- " if i % 2 == 0 else "? " for i in range(d)) + "a"
    if shape == "map":
        return "".join(" " * i + "a:\n" for i in range(d)) + " " * d + "x\n"
    if shape == "fseq":
        return "[" * d + "a" + "]" * d
    if shape == "fmap":
        return "{a: " * d + "b" + "}" * d
    if shape == "mix":
        f = min(d, 100)
        return "- " * (d - f) + "[" * f + "a" + "]" * f
    if shape == "qflow":
        return "[ ? ] , " * (d - 1) + ("[ ? ] " if d else "") + "]" * d
    if shape == "alias":
        return "".join("- &a0 [x]\n" if i == 0 else "- &a%d [*a%d]\n" % (i, i - 1) for i in range(d))
    if shape == "cbrace":
        return "[ : } , " * (d - 1) + ("[ : } " if d else "") + "]" * d
    if shape == "colons":
        return "[" + " :" * d + "]"
    if shape == "colonsok":
        return "[" + " :" * d + " " + "}" * d + "]"
    raise ValueError(shape)


def exe(profile):
    return os.path.join(core.CARGO_TARGET, profile, "hx_c11")


def run_child(profile, shape, depth, api):
    """one scenario in its own process -> observation dict"""
    t0 = time.time()
    cap = None
    if shape == ALIAS_SHAPE:
        def cap():
            lim = ALIAS_MEM_CAP_GB * (1 << 30)
            resource.setrlimit(resource.RLIMIT_AS, (lim, lim))
    try:
        p = subprocess.run([exe(profile), shape, str(depth), api], stdin=subprocess.DEVNULL, stdout=subprocess.PIPE,
                           stderr=subprocess.PIPE, timeout=TIMEOUT, env=core.ENV, preexec_fn=cap)
        rc, out, err = p.returncode, p.stdout.decode("utf-8", "replace"), p.stderr.decode("utf-8", "replace")
    except subprocess.TimeoutExpired as e:
        rc, out, err = None, (e.stdout or b"").decode("utf-8", "replace"), (e.stderr or b"").decode("utf-8", "replace")
    except OSError as e:
        rc, out, err = -999, "", "cannot run: %s" % e
    lines = [l for l in out.split("\n") if l]
    stages = [l[6:] for l in lines if l.startswith("STAGE ")]
    verdict = next((l for l in reversed(lines) if not l.startswith("STAGE ")), "")
    overflow = "overflowed its stack" in err or "stack overflow" in err
    oom = (not overflow) and ("memory allocation of" in err or "failed to spawn thread" in err or "Cannot allocate memory" in err)
    if rc is None:
        kind = "TIMEOUT"
    elif oom:
        kind = "OOM"
    elif rc == 0 and verdict.startswith("OK"):
        kind = "OK"
    elif rc == 0 and verdict.startswith("ERR"):
        kind = "ERR"
    elif rc == 0 and verdict.startswith("PANIC"):
        kind = "PANIC"
    elif rc < 0 and rc != -999:
        kind = "ABORT"
    else:
        kind = "EXIT"
    sig = ""
    if rc is not None and rc < 0 and rc != -999:
        try:
            sig = signal.Signals(-rc).name
        except ValueError:
            sig = "SIG%d" % -rc
    return dict(profile=profile, shape=shape, depth=depth, api=api, kind=kind, rc=rc, signal=sig, stack_overflow=overflow,
                stages=stages, verdict=verdict[:200], stderr=err.strip().replace("\n", " | ")[:240],
                secs=round(time.time() - t0, 2))


def load_known():
    out = []
    if os.path.exists(KNOWN_FILE):
        for l in open(KNOWN_FILE):
            l = l.strip()
            if l:
                d = json.loads(l)
                if d.get("property") == ID and d.get("status") == "known":
                    out.append(d)
    return out


def known_entry(known, o):
    """the recorded class: a decidable predicate on (shape, api, depth) + the way the child died"""
    if o["kind"] != "ABORT" or o["signal"] not in ("SIGABRT", "SIGSEGV") or not o["stack_overflow"]:
        return None
    for e in known:
        if o["shape"] in e["shapes"] and o["api"] in e["apis"] and o["depth"] >= e["min_depth"] // MARGIN:
            return e
    return None


def scenario_depths(tier, shape, api, depths):
    cap = None
    if shape == "map":
        cap = MAP_CAP[tier]
    ds = sorted(set(min(d, cap) if cap else d for d in depths))
    return ds


def reported_depth(verdict):
    m = re.search(r"depth=(\d+)", verdict)
    return int(m.group(1)) if m else None


def block_levels(shape, depth):
    """number of block collections the scanner has to open for the text of a block shape"""
    return depth - min(depth, 100) if shape == "mix" else depth


def judge(res, o, known, hits):
    """apply the oracle to one observation"""
    shape, depth, api, kind = o["shape"], o["depth"], o["api"], o["kind"]
    case = dict(scenario="hx_c11 %s %d %s (%s profile)" % (shape, depth, api, o["profile"]), shape=SHAPE_TEXT[shape],
                depth=depth, api=api, profile=o["profile"],
                input=build_input(shape, depth) if depth <= 300 and shape not in ("map", ALIAS_SHAPE) else "(see scenario: generated by hx_c11)")
    if kind == "ABORT":
        e = known_entry(known, o)          # no `known` entry is recorded today: every abort is a violation
        if e is not None:
            hits.setdefault((e["class"], shape), []).append(o)
            return
        why = ("killed by %s%s" % (o["signal"], " (stack overflow)" if o["stack_overflow"] else ""))
        if shape in REGRESSION:
            why += " for the repaired family `%s` (%s), which must end with an error value at every depth" % (shape, REGRESSION[shape][0])
        elif shape == ALIAS_SHAPE:
            why += (" for the ALIAS CHAIN outside the recorded class (depth below min_depth/%d of the known-findings entry, api without a tree, "
                    "or not a stack overflow)" % MARGIN)
        elif api == "iter":
            why += " through the ITERATOR api, which must not depend on the call stack"
        elif shape in FLOW_SHAPES:
            why += " for FLOW nesting, which must fail with an error value at depth %d" % (FLOW_LIMIT + 1)
        else:
            why += (" for BLOCK nesting, which must fail with the error value 'recursion limit exceeded' beyond %d levels "
                    "(regression of 99c201b?)" % BLOCK_LIMIT)
        res.add_violation("process aborted: " + why, case, observation=o)
        return
    if kind == "OOM":
        # inconclusive, not a verdict: recorded in the evidence (notes, coverage), never attributed to the stack-overflow class
        res.notes.append("INCONCLUSIVE %s: out of memory under the %d GB address-space cap (not a stack overflow; the alias-chain tree needs "
                         "~d^2/2 nodes): %s" % (case["scenario"], ALIAS_MEM_CAP_GB, o["stderr"][:120]))
        res.coverage.setdefault("inconclusive_oom", []).append(case["scenario"])
        return
    if kind in ("PANIC", "TIMEOUT", "EXIT"):
        res.add_violation("scenario ended with %s instead of success or an error value (%s)" % (kind, o["verdict"] or o["stderr"] or o["rc"]),
                          case, observation=o)
        return
    # OK / ERR
    if shape in REGRESSION:
        commit, text, from_depth = REGRESSION[shape]
        if depth >= from_depth and kind == "OK":
            res.add_violation("regression of %s: the `%s` text of depth %d is ACCEPTED again (flow nesting that bypasses the scanner's "
                              "flow-level limit)" % (commit, shape, depth), case, observation=o)
        elif depth >= from_depth:
            texts = COLONSOK_ERRORS if shape == "colonsok" else (text,)
            if not any(t in o["verdict"] for t in texts):
                res.add_tie_break("the `%s` text is rejected, but not with the error value of the repaired code (%s)" % (shape, " / ".join(texts)),
                                  case=case, observation=o)
        elif kind != "OK":
            res.add_tie_break("the `%s` text of depth %d (below the depth from which it must be rejected) is not accepted" % (shape, depth),
                              case=case, observation=o)
    if shape in FLOW_SHAPES:
        if depth > FLOW_LIMIT and kind == "OK":
            res.add_violation("flow nesting deeper than %d accepted (the scanner's flow-level limit is gone)" % FLOW_LIMIT, case, observation=o)
        elif depth > FLOW_LIMIT and "recursion limit exceeded" not in o["verdict"]:
            res.add_tie_break("flow nesting beyond the limit is rejected, but not by the flow-level limit the model describes",
                              case=case, observation=o)
        elif depth <= FLOW_LIMIT and kind != "OK":
            res.add_tie_break("flow nesting within the limit of the model (FLOW_LEVEL_MAX) is rejected by the implementation",
                              case=case, observation=o)
    if shape in BLOCK_SHAPES:
        bl = block_levels(shape, depth)
        if bl > BLOCK_LIMIT and kind == "OK":
            res.add_violation("block nesting deeper than %d accepted (regression of 99c201b: the limit of roll_indent is gone)" % BLOCK_LIMIT,
                              case, observation=o)
        elif bl > BLOCK_LIMIT and "recursion limit exceeded" not in o["verdict"]:
            res.add_tie_break("block nesting beyond the limit is rejected, but not by the limit of roll_indent the model describes (site 46)",
                              case=case, observation=o)
        elif bl <= BLOCK_LIMIT and kind != "OK":
            res.add_tie_break("block nesting within the limit of the model (BLOCK_NESTING_MAX) is rejected by the implementation",
                              case=case, observation=o)
    if shape == ALIAS_SHAPE and kind != "OK":
        res.add_violation("the alias chain of %d lines (event nesting 2) ended with an error value: it is well-formed YAML" % depth, case, observation=o)
    if kind == "OK" and api in ("iter", "load"):
        rd = reported_depth(o["verdict"])
        # colons / colonsok of depth 1: one mapping inside the one sequence; alias chain: the events nest 2 deep whatever d
        if rd != (2 if shape == ALIAS_SHAPE else depth + 1 if shape in ("colons", "colonsok") else depth):
            res.add_tie_break("the generated input does not have the intended nesting depth", case=case, observation=o)


def sweep(profile, tier, depths, shapes, apis, pool):
    jobs = []
    for sh in shapes:
        for api in apis:
            for d in scenario_depths(tier, sh, api, depths):
                jobs.append((profile, sh, d, api))
    # long ones first
    jobs.sort(key=lambda j: -(j[2] * (50 if j[1] in ("qkey", "alt", "map") else 1)))
    return list(pool.map(lambda j: run_child(*j), jobs))


def alias_jobs(profile, tier):
    jobs = []
    for api in ALIAS_APIS:
        ds = list(ALIAS_LIGHT)
        if api in ALIAS_TREE_APIS:
            ds += ALIAS_TREE_QUICK if tier == "quick" else ALIAS_TREE_THOROUGH
        else:
            ds += ALIAS_FLAT_EXTRA
        jobs += [(profile, ALIAS_SHAPE, d, api) for d in sorted(set(ds))]
    jobs.sort(key=lambda j: -j[2] if j[3] in ALIAS_TREE_APIS else 0)
    return jobs


def bracket(obs, profile, shape, api):
    """(largest surviving depth, smallest aborting depth) of a sweep"""
    mine = [o for o in obs if o["profile"] == profile and o["shape"] == shape and o["api"] == api]
    ab = [o["depth"] for o in mine if o["kind"] == "ABORT"]
    if not ab:
        return None
    hi = min(ab)
    ok = [o["depth"] for o in mine if o["kind"] in ("OK", "ERR") and o["depth"] < hi]
    return (max(ok) if ok else 0), hi


def bisect(profile, shape, api, lo, hi, rel):
    """smallest aborting depth in (lo, hi], to a relative resolution; every probe is an observation of its own"""
    probes = []
    last = None
    while hi - lo > max(1, int(hi * rel)):
        mid = (lo + hi) // 2
        o = run_child(profile, shape, mid, api)
        probes.append(o)
        if o["kind"] == "ABORT":
            hi, last = mid, o
        elif o["kind"] in ("OK", "ERR"):
            lo = mid
        else:
            break
    return lo, hi, last, probes


def _retry(f, n=4):
    """the shared executables may be mid-rebuild by a concurrent check (it holds the build lock): wait for the lock, retry"""
    for i in range(n):
        try:
            return f()
        except (TypeError, OSError):
            if i == n - 1:
                raise
            with core.Lock():
                pass
            time.sleep(1 + i)


def tie_checks(res, tier):
    """model <-> implementation for what the theorems speak about"""
    n = 0
    ds = list(range(0, 13)) + [50, 255, 256, 1000] + ([3000] if tier == "thorough" else [])
    texts = ["- " * d + "a" for d in ds]
    lines = [enc(s) for s in texts]
    toks = _retry(lambda: run_hx(["tokens"], lines))
    evs = _retry(lambda: run_hx(["events", "str"], lines))
    m_tok = _retry(lambda: run_mx(["parse-tokens"], toks))
    m_full = _retry(lambda: run_mx(["events", "str"], lines))

    def kinds(line):
        e, fin = split_line(line)
        return ";".join(ev_kind(x) for x in e) + "|" + fin.split("@")[0].split("#")[0]
    for d, s, t, e, mt, mf in zip(ds, texts, toks, evs, m_tok, m_full):
        n += 1
        tk, tfin = split_line(t)
        got = [x.rsplit("@", 1)[0] for x in tk]
        ek = kinds(e)
        if d <= BLOCK_LIMIT:
            want = ["SS"] + ["BSS", "BEN"] * d + ["SCP,97"] + ["BE"] * d + ["SE"]
            if got != want or tfin != "END":
                res.add_tie_break("the real scanner's tokens for '- '*%d+'a' are not the witness family of C11_parser_alone_has_no_nesting_limit_remark" % d,
                                  got=";".join(got)[:300], want=";".join(want)[:300])
            want_ev = ["SS", "DS0"] + ["QS,0"] * d + ["SC,0"] + ["QE"] * d + ["DE", "SE"]
            if ek != ";".join(want_ev) + "|OK":
                res.add_tie_break("the implementation's events for '- '*%d+'a' are not the sentence of the theorem (seq_events)" % d, got=ek[:300])
        else:
            # beyond the limit of roll_indent: the 256th BlockSequenceStart is never delivered
            efin = split_line(e)[1]
            if not tfin.startswith("ERR") or "recursion limit exceeded" not in tfin or got.count("BSS") > BLOCK_LIMIT:
                res.add_violation("the real scanner does not reject '- '*%d+'a' with 'recursion limit exceeded' after at most %d BlockSequenceStart tokens "
                                  "(regression of 99c201b)" % (d, BLOCK_LIMIT), dict(input="'- ' * %d + 'a'" % d, depth=d),
                                  got=(";".join(got)[-200:] + "|" + tfin)[:300])
            if not efin.startswith("ERR") or ek.count("QS,0") > BLOCK_LIMIT:
                res.add_violation("the implementation's events for '- '*%d+'a' nest deeper than %d or do not end in an error value" % (d, BLOCK_LIMIT),
                                  dict(input="'- ' * %d + 'a'" % d, depth=d), got=ek[-300:])
            if fin_pos(split_line(mf)[1]) != fin_pos(efin) or "#s46" not in split_line(mf)[1]:
                res.add_tie_break("block limit: model (site 46) and implementation disagree (verdict / error position)", depth=d,
                                  impl=efin[:120], model=split_line(mf)[1][:120])
        if kinds(mt) != ek and d <= BLOCK_LIMIT:
            res.add_tie_break("correspondence: parser model on the real tokens != real events", depth=d, model=kinds(mt)[:300], impl=ek[:300])
        if kinds(mf) != ek:
            res.add_tie_break("correspondence: model pipeline != real events", depth=d, model=kinds(mf)[:300], impl=ek[:300])
    # block limit for the other block shapes: model and implementation, verdict and position
    bl = [1, 2, 254, 255, 256, 257, 300]
    btx = [build_input(sh, d) for sh in ("qkey", "alt", "mix") for d in bl] + [build_input("map", d) for d in (1, 2, 40, 100)]   # 33 KB at 255 levels: too much for the extracted model (nat fuel)
    bln = [enc(x) for x in btx]
    bi = _retry(lambda: run_hx(["events", "str"], bln))
    bm = _retry(lambda: run_mx(["events", "str"], bln))
    for x, i_, m_ in zip(btx, bi, bm):
        n += 1
        ifin, mfin = split_line(i_)[1], split_line(m_)[1]
        if kinds(i_) != kinds(m_) or fin_pos(ifin) != fin_pos(mfin):
            res.add_tie_break("block limit: model pipeline and implementation disagree (events / verdict / error position)",
                              input=x[:60], bytes=len(x), impl=ifin[:120], model=mfin[:120])
        if ifin.startswith("ERR") and ("recursion limit exceeded" in ifin) != ("#s46" in mfin or "#s45" in mfin):
            res.add_tie_break("block limit: the implementation's 'recursion limit exceeded' is not the model's site 45/46", input=x[:60],
                              impl=ifin[:120], model=mfin[:120])
    # the repaired families: the real scanner's tokens of qflow are the Coq witnesses (qflow_tokens), rejected after nine events
    # (theorem C11_qflow_family_rejected); colons / colonsok / cbrace: model pipeline and implementation give the same events and
    # the same error at the same position, nothing nests deeper than 2, and from the depth of REGRESSION on the text is rejected
    bd = [1, 2, 3, 4, 5, 6, 255, 256, 300]
    fams = ["qflow", "colons", "colonsok", "cbrace"]
    btexts = [build_input(sh, d) for sh in fams for d in bd]
    blines = [enc(x) for x in btexts]
    btoks = _retry(lambda: run_hx(["tokens"], blines))
    bevs = _retry(lambda: run_hx(["events", "str"], blines))
    bm_tok = _retry(lambda: run_mx(["parse-tokens"], btoks))
    bm_full = _retry(lambda: run_mx(["events", "str"], blines))
    bm_toks = _retry(lambda: run_mx(["tokens"], blines))

    def span_empty(x):
        a, b = x.rsplit("@", 1)[1].split("-")
        return a.split(":")[0] == b.split(":")[0]
    i = -1
    for sh in fams:
        for d in bd:
            i += 1
            n += 1
            ek = kinds(bevs[i])
            tk_, tfin = split_line(btoks[i])
            got = [x.rsplit("@", 1)[0] for x in tk_]
            if sh == "qflow":
                want = ["SS"] + ["FSS", "K", "FSE", "FEN"] * (d - 1) + ["FSS", "K", "FSE"] + ["FSE"] * d + ["SE"]
                if got != want or tfin != "END":
                    res.add_tie_break("the real scanner's tokens for the qflow text of depth %d are not the Coq witness family qflow_tokens" % d,
                                      got=";".join(got)[:300], want=";".join(want)[:300])
                want_ev = ["SS", "DS0", "QS,0", "MS,0", "SC,0", "SC,0", "ME", "QE", "DE"]
                if ek != ";".join(want_ev) + "|ERR":
                    res.add_violation("regression of c5ad60c: the '[ ? ] , ' text of depth %d is not rejected after its first '[ ? ]' "
                                      "(events must be one sequence holding one empty pair, then an error)" % d,
                                      dict(input=btexts[i], depth=d), got=ek[:300])
            else:
                commit, _text, from_depth = REGRESSION[sh]
                opens = ek.count("MS,0") + ek.count("QS,0")
                if d >= from_depth and not ek.endswith("|ERR"):
                    res.add_violation("regression of %s: the `%s` text of depth %d is not rejected" % (commit, sh, d),
                                      dict(input=btexts[i], depth=d), got=ek[:300])
                if opens > 2 or got.count("FMS") > 1:
                    res.add_violation("regression of %s: the `%s` text of depth %d nests again (%d collection starts in the events, %d FlowMappingStart "
                                      "tokens at one flow level)" % (commit, sh, d, opens, got.count("FMS")), dict(input=btexts[i], depth=d), got=ek[:300])
                mt_, mtfin = split_line(bm_toks[i])
                if [x.rsplit("@", 1)[0] for x in mt_] != got or fin_pos(mtfin) != fin_pos(tfin):
                    res.add_tie_break("correspondence (%s): scanner model tokens != real tokens" % sh, depth=d, model=bm_toks[i][-200:], impl=btoks[i][-200:])
            # what tells a synthetic FlowMappingStart from a real one (Model/Depth.v real_flow_open): the span
            for x in tk_:
                kind = x.rsplit("@", 1)[0]
                if kind == "FMS" and not span_empty(x):
                    res.add_tie_break("a FlowMappingStart token of a text without '{' has a non-empty span (real_flow_open would count it)",
                                      shape=sh, depth=d, token=x)
                if kind == "FSS" and span_empty(x):
                    res.add_tie_break("a FlowSequenceStart token has an empty span", shape=sh, depth=d, token=x)
            if tfin == "END" and kinds(bm_tok[i]) != ek:
                res.add_tie_break("correspondence (%s): parser model on the real tokens != real events" % sh, depth=d, model=kinds(bm_tok[i])[:300], impl=ek[:300])
            if kinds(bm_full[i]) != ek or fin_pos(split_line(bm_full[i])[1]) != fin_pos(split_line(bevs[i])[1]):
                res.add_tie_break("correspondence (%s): model pipeline != real events" % sh, depth=d, model=kinds(bm_full[i])[:300], impl=ek[:300])
    # flow limit: model and implementation, verdict and position
    fl = [1, 2, 254, 255, 256, 257, 300]
    ftexts = [build_input(sh, d) for sh in FLOW_SHAPES for d in fl]
    flines = [enc(s) for s in ftexts]
    fi = _retry(lambda: run_hx(["events", "str"], flines))
    fm = _retry(lambda: run_mx(["events", "str"], flines))
    k = 0
    for sh in FLOW_SHAPES:
        for d in fl:
            n += 1
            ifin, mfin = split_line(fi[k])[1], split_line(fm[k])[1]
            if fin_pos(ifin) != fin_pos(mfin) or (d > FLOW_LIMIT) != ifin.startswith("ERR"):
                res.add_tie_break("flow limit: model and implementation disagree (verdict / error position)", shape=sh, depth=d,
                                  impl=ifin[:120], model=mfin[:120])
            k += 1
    # the generated constants the theorems are about
    try:
        txt = open(os.path.join(core.COQ, "Gen", "Consts.v")).read()
        m = re.search(r"FLOW_LEVEL_MAX : N := (\d+)\.", txt)
        if not m or int(m.group(1)) != FLOW_LIMIT:
            res.add_tie_break("Gen/Consts.v FLOW_LEVEL_MAX is not %d: the declared type of Scanner::flow_level changed" % FLOW_LIMIT,
                              found=m.group(1) if m else None)
        m = re.search(r"BLOCK_NESTING_MAX : N := (\d+)\.", txt)
        if not m or int(m.group(1)) != BLOCK_LIMIT:
            res.add_tie_break("Gen/Consts.v BLOCK_NESTING_MAX is not %d: the constant of scanner.rs changed (adapt BLOCK_LIMIT; the theorems follow Gen/Consts.v)" % BLOCK_LIMIT,
                              found=m.group(1) if m else None)
    except OSError as e:
        res.add_tie_break("Gen/Consts.v unreadable", error=str(e))
    return n


NEST_PIECES = ["[", "[", "]", "]", "{", "}", ", ", ",", ": ", ":", " :", "? ", "?", "- ", "a", "b", "a: ", " ", "\n", "\n  ", "[ ? ]",
               "[ ? ] , ", "{a: ", "'q'", "&x ", "*x", "!t ", "# c\n", "---\n", "|\n x\n"]


def nest_soups(n, rng, maxlen=30):
    out = []
    for _ in range(n):
        k = 1 + rng.randrange(maxlen)
        out.append("".join(rng.choice(NEST_PIECES) for _ in range(k)))
    return out


DEEP_ORACLE_DEPTHS = [1000, 20000]    # the iterator api does not recurse: the in-process `hx tokens` / `hx events` survive these


def oracle_checks(res, tier, rng):
    """theorems (g), (h), (i), (h'), (k) of Properties/C11.v as an executable oracle on the implementation's tokens and events"""
    n = 1500 if tier == "quick" else 25000
    groups = []
    fam = []
    for sh in SHAPES:
        for d in list(range(1, 13)) + ([254, 255, 256, 257, 300] if sh != "map" else [40]):
            fam.append(build_input(sh, d))
    fam += ["[ ? [ ? [ ? a ] ] ]", "[a: b: c: d]", "[ ? ]", "[ ? ] ]", "[ ? : x ]", "a:\n- b\n- c\n", "? - a\n: - b\n",
            "[" * 300, "{" * 300, "[{" * 150, "{a: [" * 130 + "x" + "]}" * 130]
    groups.append(("families", fam))
    # DEEP inputs: far beyond every limit; the real events must stay within the constant of theorem (k)
    deep = [build_input(sh, d) for sh in SHAPES if sh != "map" for d in DEEP_ORACLE_DEPTHS] + [build_input("map", 300)]
    # the deepest nesting the limits allow in one text: block levels around single-pair flow levels
    deep += ["- " * 255 + "[ ? " * 255 + "a" + " ]" * 255, "- " * 255 + "[a: " * 255 + "b" + "]" * 255,
             "? " * 255 + "{a: [ b: " * 127 + "c" + "]}" * 127, "- " * 300 + "[" * 300, "- " * 254 + "a: [ ? [ b: {c: [" * 60]
    groups.append(("deep", deep))
    groups.append(("nest-soups", nest_soups(n, rng)))
    groups.append(("soups", gen.soups(n, rng)))
    groups.append(("line-soups", gen.line_soups(n, rng)))
    groups.append(("flow-soups", gen.flow_soups(n, rng, maxdepth=6)))
    res.coverage["oracle_input_distribution"] = {g: len(t) for g, t in groups}
    texts = [t for _, t in groups for t in t]
    lines = [enc(t) for t in texts]
    toks = _retry(lambda: run_hx(["tokens"], lines))
    evs = _retry(lambda: run_hx(["events", "str"], lines))
    cases = []
    idx = []
    for i, (t, e) in enumerate(zip(toks, evs)):
        tk, tfin = split_line(t)
        ek, efin = split_line(e)
        if "CRASH" in tfin or "TIMEOUT" in tfin or "CRASH" in efin or "TIMEOUT" in efin:
            res.add_violation("the scanner / the pull parser did not end with success or an error value (%s / %s)" % (tfin[:40], efin[:40]),
                              dict(input=texts[i] if len(texts[i]) <= 400 else texts[i][:400] + "...", bytes=len(texts[i])))
            continue
        cases.append(";".join(tk) + "\t" + ";".join(ek))
        idx.append(i)
    out = _retry(lambda: run_mx(["oracle"], cases, tag="C11"))
    deepest = 0
    stats = dict(cases=len(cases), flow_max=0, tight=0, deepest_token_nesting=0)
    for i, o in zip(idx, out):
        res.evaluations += 1
        m = re.match(r"^([01])([01])([01])([01])([01]) flow=(\d+) nest=(\d+) other=(\d+) depth=(\d+) tokbound=(\d+) bound=(\d+)$", o)
        if not m:
            res.add_tie_break("the C11 oracle could not read the implementation's tokens / events", input=texts[i][:200], got=o[:200])
            continue
        h, g, c, tb_ok, kb_ok = m.group(1), m.group(2), m.group(3), m.group(4), m.group(5)
        fl, ne, ot, de, tbound, bound = (int(m.group(j)) for j in range(6, 12))
        stats["token_nesting_bound"], stats["event_nesting_bound"] = tbound, bound
        case = dict(input=texts[i] if len(texts[i]) <= 400 else texts[i][:400] + "...", bytes=len(texts[i]), flow_level_max=fl, token_nesting=ne,
                    uncounted_starts=ot, event_nesting=de, token_nesting_bound=tbound, event_nesting_bound=bound)
        if h != "1":
            res.add_violation("the scanner delivered more than %d unmatched '[' / '{' tokens (flow level %d): the flow-level limit is gone" % (FLOW_LIMIT, fl), case)
        if g != "1":
            res.add_violation("the events nest deeper (%d) than twice the nesting of the tokens (%d): the parser opened a collection without a "
                              "collection-start token or consumed a collection-end token without closing (the class of defect repaired by c5ad60c)" % (de, ne), case)
        if tb_ok != "1":
            res.add_violation("the scanner delivered a token stream with %d collection starts open at once, more than the constant NEST_TOK_BOUND = %d of "
                              "theorem C11_scanner_token_nesting_bounded: a nesting limit of the scanner is gone or bypassed" % (ne, tbound), case)
        if kb_ok != "1":
            res.add_violation("the implementation's events nest %d deep, deeper than the constant NEST_BOUND = %d of theorem C11_text_nesting_bounded: "
                              "nesting depth is not bounded by the limits of the scanner" % (de, bound), case)
        if h == "1" and g == "1" and c != "1":
            res.add_tie_break("oracle (i) fails although (g) and (h) hold: the arithmetic of the oracle is broken", case=case)
        if g == "1" and tb_ok == "1" and kb_ok != "1":
            res.add_tie_break("oracle (k) fails although (g) and (h') hold: the arithmetic of the oracle is broken", case=case)
        if de >= 3:
            res.nontrivial.add(("oracle", texts[i]))
        stats["flow_max"] = max(stats["flow_max"], fl)
        stats["deepest_token_nesting"] = max(stats["deepest_token_nesting"], ne)
        if de == 2 * ne and ne > 0:
            stats["tight"] += 1
        deepest = max(deepest, de)
    stats["deepest_event_nesting"] = deepest
    if stats.get("token_nesting_bound") not in (None, BLOCK_LIMIT + 3 * FLOW_LIMIT + 1):
        res.add_tie_break("the extracted NEST_TOK_BOUND is not BLOCK_NESTING_MAX + 3 * FLOW_LEVEL_MAX + 1 for the limits this check assumes",
                          found=stats.get("token_nesting_bound"))
    res.coverage["oracle"] = stats
    return len(cases)


def check_C11(tier, seed):
    res = Result(ID, tier, seed)
    proof = prepare(ID, res, need_release=(tier == "thorough"), model_tags=("", "C11"))
    rng = gen.rng_for(seed, ID)
    known = load_known()
    depths = list(QUICK_DEPTHS)
    if tier == "thorough":
        depths += THOROUGH_EXTRA
    # seeded extra depths, log-uniform in 1..10^5
    extra = sorted(set(int(round(10 ** rng.uniform(0, 5))) for _ in range(3 if tier == "quick" else 40)))
    depths = sorted(set(depths + extra))
    res.coverage["input_distribution"] = dict(
        shapes=SHAPE_TEXT, apis=APIS + AUX_APIS, depths=depths, seeded_extra_depths=extra,
        alias_chain=dict(apis=ALIAS_APIS, depths_all=ALIAS_LIGHT, depths_iter_load=ALIAS_FLAT_EXTRA,
                         depths_drop_emit=ALIAS_TREE_QUICK if tier == "quick" else ALIAS_TREE_THOROUGH,
                         mem_cap_gb=ALIAS_MEM_CAP_GB, concurrent=ALIAS_POOL),
        caps=dict(map=MAP_CAP[tier]),
        profiles=["debug"] + (["release"] if tier == "thorough" else []), stack="8 MiB thread (explicit)")
    res.coverage["known_findings_file"] = dict(path=os.path.relpath(KNOWN_FILE, core.VERIF), entries=len(known), margin=MARGIN)
    if res.harness_ok:
        hits = {}
        obs = []
        thresholds = []
        t0 = time.time()
        with concurrent.futures.ThreadPoolExecutor(max_workers=POOL) as pool:
            profiles = ["debug"] + (["release"] if tier == "thorough" else [])
            for prof in profiles:
                obs += sweep(prof, tier, depths, SHAPES, APIS, pool)
                # the aux apis only where they add information: block shapes, from 1000 levels on
                obs += sweep(prof, tier, [d for d in depths if d >= 1000], BLOCK_SHAPES + ["qflow", "colonsok", "cbrace"], AUX_APIS, pool)
            # the alias chain: few at a time (gigabytes each)
            with concurrent.futures.ThreadPoolExecutor(max_workers=ALIAS_POOL) as apool:
                for prof in profiles:
                    obs += list(apool.map(lambda j: run_child(*j), alias_jobs(prof, tier)))
                atodo = []
                for prof in profiles:
                    for api in ALIAS_TREE_APIS:
                        b = bracket(obs, prof, ALIAS_SHAPE, api)
                        if b:
                            atodo.append((prof, ALIAS_SHAPE, api, b[0], b[1]))
                afuts = {apool.submit(bisect, p, s_, a, lo, hi, 0.01): (p, s_, a, hi) for (p, s_, a, lo, hi) in atodo}
                for f in concurrent.futures.as_completed(afuts):
                    p, s_, a, hi0 = afuts[f]
                    lo, hi, last, probes = f.result()
                    obs += probes
                    if last is None:
                        last = next(o for o in obs if o["profile"] == p and o["shape"] == s_ and o["api"] == a and o["depth"] == hi)
                    thresholds.append(dict(profile=p, shape=s_, api=a, largest_surviving=lo, smallest_aborting=hi,
                                           signal=last["signal"], died_after_stage=(last["stages"] or ["-"])[-1],
                                           input_bytes=next((x.split("=")[1] for x in last["stages"] if x.startswith("input bytes=")), "?")))
            # thresholds: refine every (largest surviving, smallest aborting) bracket
            rel = 0.05 if tier == "quick" else 0.004
            todo = []
            for prof in profiles:
                for sh in SHAPES:
                    for api in APIS + AUX_APIS:
                        b = bracket(obs, prof, sh, api)
                        if b:
                            todo.append((prof, sh, api, b[0], b[1]))
            futs = {pool.submit(bisect, p, s, a, lo, hi, rel): (p, s, a) for (p, s, a, lo, hi) in todo}
            for f in concurrent.futures.as_completed(futs):
                p, s, a = futs[f]
                lo, hi, last, probes = f.result()
                obs += probes
                if last is None:
                    last = next(o for o in obs if o["profile"] == p and o["shape"] == s and o["api"] == a and o["depth"] == hi)
                thresholds.append(dict(profile=p, shape=s, api=a, largest_surviving=lo, smallest_aborting=hi,
                                       signal=last["signal"], died_after_stage=(last["stages"] or ["-"])[-1],
                                       input_bytes=next((x.split("=")[1] for x in last["stages"] if x.startswith("input bytes=")), "?")))
        sweep_secs = round(time.time() - t0, 1)
        kinds = {}
        # shallowest scenarios first: the first violation reported is the smallest one
        obs.sort(key=lambda o: (o["depth"], o["shape"], o["api"], o["profile"]))
        for o in obs:
            res.evaluations += 1
            kinds[o["kind"]] = kinds.get(o["kind"], 0) + 1
            if o["depth"] >= 1000 or o["depth"] in (255, 256, 257):
                res.nontrivial.add((o["profile"], o["shape"], o["depth"], o["api"]))
            judge(res, o, known, hits)
        thresholds.sort(key=lambda t: (t["profile"], t["shape"], t["api"]))
        res.coverage["outcomes"] = kinds
        res.coverage["scenarios"] = len(obs)
        res.coverage["thresholds"] = thresholds
        res.coverage["sweep_wall_s"] = sweep_secs
        res.coverage["slowest"] = [dict(scenario="%s %s %d %s" % (o["profile"], o["shape"], o["depth"], o["api"]), secs=o["secs"], kind=o["kind"])
                                   for o in sorted(obs, key=lambda o: -o["secs"])[:5]]
        # known-finding lines: one per (class, shape)
        for (cls, sh), os_ in sorted(hits.items()):
            first = min(os_, key=lambda o: o["depth"])
            apis = sorted(set(o["api"] for o in os_))
            per_api = ", ".join("%s>=%d" % (a, min(o["depth"] for o in os_ if o["api"] == a)) for a in apis)
            e = next(k for k in known if k["class"] == cls and sh in k["shapes"])
            extra = ""
            if sh == ALIAS_SHAPE:
                extra = ("; the events of this input nest only 2 deep (no nesting limit applies): the loader clones the anchored node at every alias, the "
                         "loaded tree is depth + 1 deep and Clone / Drop / the emitter recurse once per level; memory is quadratic (GBs at the threshold: "
                         "hosts with less memory hit OOM first)")
            res.known.append("class=%s shape=%s (%s): %d scenario(s) aborted with a stack overflow (%s) through the recursive apis; "
                             "smallest aborting depth per api in this run: %s; recorded min_depth=%d, attributed from depth %d on; "
                             "witness: hx_c11 %s %d %s [%s]%s" % (
                                 cls, sh, SHAPE_TEXT[sh], len(os_), first["signal"], per_api, e["min_depth"], e["min_depth"] // MARGIN,
                                 sh, first["depth"], first["api"], first["profile"], extra))
        for o in obs:
            if o["depth"] in (255, 256, 30000) and o["shape"] in ("seq", "fseq") and o["profile"] == "debug" and len(res.samples) < 8:
                res.samples.append(dict(scenario="%s %d %s" % (o["shape"], o["depth"], o["api"]), kind=o["kind"], signal=o["signal"],
                                        stages=o["stages"], verdict=o["verdict"][:80]))
        if res.model_ok:
            n = tie_checks(res, tier)
            res.evaluations += n
            res.coverage["traces_validated_against_impl"] = n
            res.coverage["oracle_cases"] = oracle_checks(res, tier, rng)
    rule = ("[alias chain: 4 apis x depths up to 4000 (quick) / 9000 + bisection (thorough), 2 at a time under a 12 GB cap] "
            "one child process per scenario: nesting depth (fixed ladder 1..10^5 incl. 255/256/257 + seeded log-uniform depths, "
            "+ bisection of every crash threshold, should one appear) x 11 shapes (the six of the property + block-around-flow + the four repaired "
            "flow-limit-bypass families qflow / colons / colonsok / cbrace as regression scenarios that must be an error value) x 4 apis (+ 2 auxiliary "
            "apis isolating drop / emit from Parser::load) on an 8 MiB thread; non-trivial = distinct scenarios of depth >= 1000 or at "
            "the limit boundary 255/256/257; the `map` shape is capped (input is quadratic in the depth); plus the extracted oracle of theorems "
            "(g)/(h)/(i) and of the constant bound (k) on the implementation's tokens and events of the families (incl. deep ones), nesting soups and "
            "the token / line / flow soups of the C01 space "
            "(non-trivial there = event nesting >= 3)")
    return res.finish(proof, rule)
