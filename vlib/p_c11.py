"""C11 — Nesting depth cannot crash the process.

What is proved (coq/Properties/C11.v) is what a model can carry: recursion depth / heap-stack length as functions of the
nesting depth; for EVERY token stream the parser nests at most twice as deep as the tokens; for EVERY input the flow level of
the scanned token stream stays within FLOW_LEVEL_MAX (generated Gen/Consts.v); composed: for EVERY text the nesting is at most
2 * (255 + block collection starts + synthetic FlowMappingStart tokens); the refutation of any bound on block nesting and of
"flow level <= L bounds the nesting"; the repaired '[ ? ] ,' family is rejected.  Bytes of stack per activation and the
8 MiB limit are run-time facts, so the property itself is checked here:

  implementation  build/cargo/{debug,release}/hx_c11 <shape> <depth> <api> — ONE scenario per child process, run on a
                  thread with an explicit 8 MiB stack; a stack overflow kills the child with a signal, which is the
                  observation (exit status + the `STAGE` lines printed before it died + the runtime's message on stderr).
  oracle          per scenario: the child must end with `OK` or `ERR <message>` (an error VALUE); flow nesting must be `OK`
                  up to depth 255 and `ERR ... recursion limit exceeded` from depth 256 on; anything else (killed by a
                  signal, PANIC, timeout, strange exit status, flow depth > 255 accepted) is a violation — EXCEPT the
                  recorded class of known_findings_c11.jsonl (a decidable predicate on shape, api, depth, see below).
  tie             the witness family of theorem C11_block_family_accepted is the real scanner's output: `hx tokens` on
                  "- " * d + "a" is compared with  StreamStart (BlockSequenceStart BlockEntry)^d Scalar BlockEnd^d StreamEnd,
                  the extracted parser model is run on those real tokens and on the text (events == implementation's events,
                  nesting depth d), the depth reported by hx_c11 equals the intended depth for every shape, and the flow
                  limit of model (Err site 45 at FLOW_LEVEL_MAX) and implementation coincide in position and verdict.

  oracle 2        the extracted Coq function [c11_oracle] (Model/Depth.v; theorem C11_oracle_holds_on_model says it cannot fail on
                  the model) is run on the IMPLEMENTATION's tokens (`hx tokens`) and events (`hx events str`) of generated inputs
                  (the families at small depths and at the flow-limit boundary, token / line / flow soups of vlib/gen.py, nesting
                  soups): (h) the flow level along the real token stream stays within 255, (g) the real events nest at most twice as
                  deep as the real tokens — what the defect repaired by c5ad60c violated: a regression of it is reported by this
                  oracle with the failing input, (i) both combined.

Known finding (recorded, not repaired): block nesting has no limit and Parser::load, the destructor of the loaded tree and
YamlEmitter recurse once per level, so a few dozen kilobytes of block-nested input overflow the 8 MiB stack and abort the
process.  An abort is attributed to that class iff   shape in entry.shapes  and  api in entry.apis  and
depth >= entry.min_depth // MARGIN  and the child died of SIGABRT/SIGSEGV after the runtime reported a stack overflow.
A second recorded class, C11-flow-limit-bypass (shapes `colons`, `colonsok`), is handled in exactly the same way: flow-only inputs that
nest without raising the scanner's flow_level above 1 ("[" + " :" repeated: one synthetic FlowMappingStart per bare colon; closed by a
"]" the parse ends in an error at the "]", closed by as many "}" and a "]" the text is ACCEPTED), so the 255 limit never triggers and
load / drop / emit overflow.
The former first member of that class, shape `qflow` ("[ ? ] , " repeated: the parser consumed the "]" as the end of the empty key), was
repaired by c5ad60c; its scenarios stay as REGRESSION scenarios with an oracle of their own: every one of them, at every depth and
through every api, must end with the error VALUE "did not find expected <document start>" — an accepted text or an abort is a violation
(known_findings_c11.jsonl holds a `fixed` entry for it, which suppresses nothing).
MARGIN = 4: min_depth is the smallest aborting depth measured over both profiles (debug opt-level 1, release opt-level 2);
frame sizes move with profile and compiler version (measured release/debug threshold ratios 0.93-1.14; an unoptimised build may
need 2-3 times the stack per level),
ASLR and environment size move the threshold by a few levels; a factor 4 below the recorded minimum is outside all of that,
so an abort there (or through the iterator, or for flow nesting, or of any other kind) is reported as a violation.
"""
import concurrent.futures
import json
import os
import re
import signal
import subprocess
import time

from . import core, gen
from .core import Result, enc, ev_kind, fin_pos, prepare, run_hx, run_mx, split_line

ID = "C11"
KNOWN_FILE = os.path.join(core.VERIF, "known_findings_c11.jsonl")
MARGIN = 4
FLOW_LIMIT = 255                      # the property's number; cross-checked with Gen/Consts.v FLOW_LEVEL_MAX
BLOCK_SHAPES = ["seq", "map", "qkey", "alt", "mix"]
FLOW_SHAPES = ["fseq", "fmap"]
# flow-only inputs that nest without raising the scanner's flow_level above 1 (the 255 limit never triggers)
BYPASS_SHAPES = ["colons", "colonsok"]
# repaired (c5ad60c): must be an error value at every depth
REGRESSION_SHAPES = ["qflow"]
SHAPES = BLOCK_SHAPES + FLOW_SHAPES + BYPASS_SHAPES + REGRESSION_SHAPES
APIS = ["iter", "load", "drop", "emit"]
AUX_APIS = ["pdrop", "pemit"]         # drop / emit of a tree built WITHOUT Parser::load: their own thresholds
RECURSIVE_APIS = ["load", "drop", "emit", "pdrop", "pemit"]
SHAPE_TEXT = {"seq": "'- ' per level", "map": "'a:' + newline per level, indentation growing by one",
              "qkey": "'? ' per level", "alt": "alternating '- ' / '? '", "fseq": "'[' per level, closed",
              "fmap": "'{a: ' per level, closed", "mix": "'- ' levels around a core of (at most) 100 '[' levels",
              "qflow": "'[ ? ] , ' per level then d closing ']' (regression: was accepted as d nested flow sequences before c5ad60c; must be an error value)",
              "colons": "'[' + ' :' per level + ']' (d nested synthetic flow mappings at scanner flow level 1; ends in a parse error)",
              "colonsok": "'[' + ' :' per level + ' ' + '}' per level + ']' (d nested synthetic flow mappings at scanner flow level 1; accepted)"}
# the `map` input has d*(d+5)/2 bytes (10^5 levels = 5 GB): capped
MAP_CAP = {"quick": 20000, "thorough": 40000}
# inputs whose recursive consumers are quadratic in time (every level re-hashes its whole key): aux apis capped
SLOW_CAP = 12000
QUICK_DEPTHS = [1, 10, 100, 255, 256, 257, 1000, 3000, 10000, 30000, 100000]
THOROUGH_EXTRA = [2, 3, 5, 20, 50, 200, 254, 258, 300, 500, 2000, 5000, 7000, 15000, 20000, 25000, 40000, 50000, 70000]
COLONSOK_PEMIT_CAP = 40000
QFLOW_ERROR = "did not find expected <document start>"
TIMEOUT = 300
POOL = 16


def build_input(shape, d):
    """the same text hx_c11 builds (used for replay files and the tie; never for depths where it is huge)"""
    if shape == "seq":
        return "- " * d + "a"
    if shape == "qkey":
        return "? " * d + "a"
    if shape == "alt":
        return "".join("- " if i % 2 == 0 else "? " for i in range(d)) + "a"
    if shape == "map":
        return "".join(" " * i + "a:\n" for i in range(d)) + " " * d + "x\n"
    if shape == "fseq":
        return "[" * d + "a" + "]" * d
    if shape == "fmap":
        return "{a: " * d + "b" + "}" * d
    if shape == "mix":
        f = min(d, 100)
        return "- " * (d - f) + "[" * f + "a" + "]" * f
    if shape == "qflow":
        return "[ ? ] , " * (d - 1) + ("[ ? ] " if d else "") + "]" * d
    if shape == "colons":
        return "[" + " :" * d + "]"
    if shape == "colonsok":
        return "[" + " :" * d + " " + "}" * d + "]"
    raise ValueError(shape)


def exe(profile):
    return os.path.join(core.CARGO_TARGET, profile, "hx_c11")


def run_child(profile, shape, depth, api):
    """one scenario in its own process -> observation dict"""
    t0 = time.time()
    try:
        p = subprocess.run([exe(profile), shape, str(depth), api], stdin=subprocess.DEVNULL, stdout=subprocess.PIPE,
                           stderr=subprocess.PIPE, timeout=TIMEOUT, env=core.ENV)
        rc, out, err = p.returncode, p.stdout.decode("utf-8", "replace"), p.stderr.decode("utf-8", "replace")
    except subprocess.TimeoutExpired as e:
        rc, out, err = None, (e.stdout or b"").decode("utf-8", "replace"), (e.stderr or b"").decode("utf-8", "replace")
    except OSError as e:
        rc, out, err = -999, "", "cannot run: %s" % e
    lines = [l for l in out.split("\n") if l]
    stages = [l[6:] for l in lines if l.startswith("STAGE ")]
    verdict = next((l for l in reversed(lines) if not l.startswith("STAGE ")), "")
    overflow = "overflowed its stack" in err or "stack overflow" in err
    if rc is None:
        kind = "TIMEOUT"
    elif rc == 0 and verdict.startswith("OK"):
        kind = "OK"
    elif rc == 0 and verdict.startswith("ERR"):
        kind = "ERR"
    elif rc == 0 and verdict.startswith("PANIC"):
        kind = "PANIC"
    elif rc < 0 and rc != -999:
        kind = "ABORT"
    else:
        kind = "EXIT"
    sig = ""
    if rc is not None and rc < 0 and rc != -999:
        try:
            sig = signal.Signals(-rc).name
        except ValueError:
            sig = "SIG%d" % -rc
    return dict(profile=profile, shape=shape, depth=depth, api=api, kind=kind, rc=rc, signal=sig, stack_overflow=overflow,
                stages=stages, verdict=verdict[:200], stderr=err.strip().replace("\n", " | ")[:240],
                secs=round(time.time() - t0, 2))


def load_known():
    out = []
    if os.path.exists(KNOWN_FILE):
        for l in open(KNOWN_FILE):
            l = l.strip()
            if l:
                d = json.loads(l)
                if d.get("property") == ID and d.get("status") == "known":
                    out.append(d)
    return out


def known_entry(known, o):
    """the recorded class: a decidable predicate on (shape, api, depth) + the way the child died"""
    if o["kind"] != "ABORT" or o["signal"] not in ("SIGABRT", "SIGSEGV") or not o["stack_overflow"]:
        return None
    for e in known:
        if o["shape"] in e["shapes"] and o["api"] in e["apis"] and o["depth"] >= e["min_depth"] // MARGIN:
            return e
    return None


def scenario_depths(tier, shape, api, depths):
    cap = None
    if shape == "map":
        cap = MAP_CAP[tier]
    if api in AUX_APIS and shape in ("qkey", "alt"):
        cap = SLOW_CAP
    if api == "pemit" and shape == "colonsok":
        cap = COLONSOK_PEMIT_CAP     # the block rendering of the tree is quadratic in the depth (900 MB at 30000)
    ds = sorted(set(min(d, cap) if cap else d for d in depths))
    return ds


def reported_depth(verdict):
    m = re.search(r"depth=(\d+)", verdict)
    return int(m.group(1)) if m else None


def judge(res, o, known, hits):
    """apply the oracle to one observation"""
    shape, depth, api, kind = o["shape"], o["depth"], o["api"], o["kind"]
    case = dict(scenario="hx_c11 %s %d %s (%s profile)" % (shape, depth, api, o["profile"]), shape=SHAPE_TEXT[shape],
                depth=depth, api=api, profile=o["profile"],
                input=build_input(shape, depth) if depth <= 300 and shape != "map" else "(see scenario: generated by hx_c11)")
    if shape in REGRESSION_SHAPES:
        # repaired class: no suppression; the only acceptable outcome is the error value of the repaired parser
        if kind == "OK":
            res.add_violation("regression of c5ad60c: the '[ ? ] , ' text is ACCEPTED again (flow nesting that bypasses the scanner's "
                              "flow-level limit: the parser consumed the ']' behind an empty explicit key)", case, observation=o)
            return
        if kind == "ERR" and QFLOW_ERROR not in o["verdict"]:
            res.add_tie_break("the '[ ? ] , ' text is rejected, but not with the error the parser model gives (site 3: %s)" % QFLOW_ERROR,
                              case=case, observation=o)
        if kind == "ERR":
            return
    if kind == "ABORT":
        e = known_entry(known, o)
        if e is not None:
            hits.setdefault((e["class"], shape), []).append(o)
            return
        why = ("killed by %s%s" % (o["signal"], " (stack overflow)" if o["stack_overflow"] else ""))
        if shape in REGRESSION_SHAPES:
            why += " for the repaired '[ ? ] , ' family (c5ad60c), which must end with an error value at every depth"
        elif api == "iter":
            why += " through the ITERATOR api, which must not depend on the call stack"
        elif shape in FLOW_SHAPES:
            why += " for FLOW nesting, which must fail with an error value at depth %d" % (FLOW_LIMIT + 1)
        else:
            why += " outside the recorded class (depth below min_depth/%d of every matching known-findings entry, or not a stack overflow)" % MARGIN
        res.add_violation("process aborted: " + why, case, observation=o)
        return
    if kind in ("PANIC", "TIMEOUT", "EXIT"):
        res.add_violation("scenario ended with %s instead of success or an error value (%s)" % (kind, o["verdict"] or o["stderr"] or o["rc"]),
                          case, observation=o)
        return
    # OK / ERR
    if shape in FLOW_SHAPES:
        if depth > FLOW_LIMIT and kind == "OK":
            res.add_violation("flow nesting deeper than %d accepted (the scanner's flow-level limit is gone)" % FLOW_LIMIT, case, observation=o)
        elif depth > FLOW_LIMIT and "recursion limit exceeded" not in o["verdict"]:
            res.add_tie_break("flow nesting beyond the limit is rejected, but not by the flow-level limit the model describes",
                              case=case, observation=o)
        elif depth <= FLOW_LIMIT and kind != "OK":
            res.add_tie_break("flow nesting within the limit of the model (FLOW_LEVEL_MAX) is rejected by the implementation",
                              case=case, observation=o)
    if kind == "OK" and api in ("iter", "load"):
        rd = reported_depth(o["verdict"])
        # colons / colonsok: d mappings inside the one sequence
        if rd != (depth + 1 if shape in BYPASS_SHAPES else depth):
            res.add_tie_break("the generated input does not have the intended nesting depth", case=case, observation=o)


def sweep(profile, tier, depths, shapes, apis, pool):
    jobs = []
    for sh in shapes:
        for api in apis:
            for d in scenario_depths(tier, sh, api, depths):
                jobs.append((profile, sh, d, api))
    # long ones first
    jobs.sort(key=lambda j: -(j[2] * (50 if j[1] in ("qkey", "alt", "map") else 1)))
    return list(pool.map(lambda j: run_child(*j), jobs))


def bracket(obs, profile, shape, api):
    """(largest surviving depth, smallest aborting depth) of a sweep"""
    mine = [o for o in obs if o["profile"] == profile and o["shape"] == shape and o["api"] == api]
    ab = [o["depth"] for o in mine if o["kind"] == "ABORT"]
    if not ab:
        return None
    hi = min(ab)
    ok = [o["depth"] for o in mine if o["kind"] in ("OK", "ERR") and o["depth"] < hi]
    return (max(ok) if ok else 0), hi


def bisect(profile, shape, api, lo, hi, rel):
    """smallest aborting depth in (lo, hi], to a relative resolution; every probe is an observation of its own"""
    probes = []
    last = None
    while hi - lo > max(1, int(hi * rel)):
        mid = (lo + hi) // 2
        o = run_child(profile, shape, mid, api)
        probes.append(o)
        if o["kind"] == "ABORT":
            hi, last = mid, o
        elif o["kind"] in ("OK", "ERR"):
            lo = mid
        else:
            break
    return lo, hi, last, probes


def _retry(f, n=4):
    """the shared executables may be mid-rebuild by a concurrent check (it holds the build lock): wait for the lock, retry"""
    for i in range(n):
        try:
            return f()
        except (TypeError, OSError):
            if i == n - 1:
                raise
            with core.Lock():
                pass
            time.sleep(1 + i)


def tie_checks(res, tier):
    """model <-> implementation for what the theorems speak about"""
    n = 0
    ds = list(range(0, 13)) + [50, 255, 256, 1000] + ([3000] if tier == "thorough" else [])
    texts = ["- " * d + "a" for d in ds]
    lines = [enc(s) for s in texts]
    toks = _retry(lambda: run_hx(["tokens"], lines))
    evs = _retry(lambda: run_hx(["events", "str"], lines))
    m_tok = _retry(lambda: run_mx(["parse-tokens"], toks))
    m_full = _retry(lambda: run_mx(["events", "str"], lines))

    def kinds(line):
        e, fin = split_line(line)
        return ";".join(ev_kind(x) for x in e) + "|" + fin.split("@")[0].split("#")[0]
    for d, s, t, e, mt, mf in zip(ds, texts, toks, evs, m_tok, m_full):
        n += 1
        tk, tfin = split_line(t)
        got = [x.rsplit("@", 1)[0] for x in tk]
        want = ["SS"] + ["BSS", "BEN"] * d + ["SCP,97"] + ["BE"] * d + ["SE"]
        if got != want or tfin != "END":
            res.add_tie_break("the real scanner's tokens for '- '*%d+'a' are not the witness family of C11_block_family_accepted" % d,
                              got=";".join(got)[:300], want=";".join(want)[:300])
        ek = kinds(e)
        want_ev = ["SS", "DS0"] + ["QS,0"] * d + ["SC,0"] + ["QE"] * d + ["DE", "SE"]
        if ek != ";".join(want_ev) + "|OK":
            res.add_tie_break("the implementation's events for '- '*%d+'a' are not the sentence of the theorem (seq_events)" % d, got=ek[:300])
        if kinds(mt) != ek:
            res.add_tie_break("correspondence: parser model on the real tokens != real events", depth=d, model=kinds(mt)[:300], impl=ek[:300])
        if kinds(mf) != ek:
            res.add_tie_break("correspondence: model pipeline != real events", depth=d, model=kinds(mf)[:300], impl=ek[:300])
    # the families of the theorems: the real scanner's tokens are the ones of the Coq witnesses (qflow_tokens, cflow_tokens:
    # the FlowMappingStart of a bare ':' has an EMPTY span, the '[' a non-empty one), the parser model on them / the model
    # pipeline give the implementation's events; qflow is rejected after nine events (theorem C11_qflow_family_rejected),
    # colons nests d mappings and fails at the ']', colonsok is accepted and nests d + 1 deep (C11_flow_limit_bypass_family)
    bd = [1, 2, 3, 4, 5, 6, 255, 256, 300]
    fams = ["qflow", "colons", "colonsok"]
    btexts = [build_input(sh, d) for sh in fams for d in bd]
    blines = [enc(x) for x in btexts]
    btoks = _retry(lambda: run_hx(["tokens"], blines))
    bevs = _retry(lambda: run_hx(["events", "str"], blines))
    bm_tok = _retry(lambda: run_mx(["parse-tokens"], btoks))
    bm_full = _retry(lambda: run_mx(["events", "str"], blines))

    def span_empty(x):
        a, b = x.rsplit("@", 1)[1].split("-")
        return a.split(":")[0] == b.split(":")[0]
    i = -1
    for sh in fams:
        for d in bd:
            i += 1
            n += 1
            ek = kinds(bevs[i])
            tk_, tfin = split_line(btoks[i])
            got = [x.rsplit("@", 1)[0] for x in tk_]
            if sh == "qflow":
                want = ["SS"] + ["FSS", "K", "FSE", "FEN"] * (d - 1) + ["FSS", "K", "FSE"] + ["FSE"] * d + ["SE"]
                if got != want or tfin != "END":
                    res.add_tie_break("the real scanner's tokens for the qflow text of depth %d are not the Coq witness family qflow_tokens" % d,
                                      got=";".join(got)[:300], want=";".join(want)[:300])
                want_ev = ["SS", "DS0", "QS,0", "MS,0", "SC,0", "SC,0", "ME", "QE", "DE"]
                if ek != ";".join(want_ev) + "|ERR":
                    res.add_violation("regression of c5ad60c: the '[ ? ] , ' text of depth %d is not rejected after its first '[ ? ]' "
                                      "(events must be one sequence holding one empty pair, then an error)" % d,
                                      dict(input=btexts[i], depth=d), got=ek[:300])
            elif sh == "colons":
                opens = ek.count("MS,0")
                if opens != d or not (ek.endswith("|ERR") or d == 1):
                    res.add_tie_break("the implementation's events for '[' + ' :'*%d + ']' are not d nested mappings followed by an error" % d, got=ek[:300])
            else:
                want = ["SS", "FSS"] + ["FMS", "V"] * d + ["FME"] * d + ["FSE", "SE"]
                if got != want or tfin != "END":
                    res.add_tie_break("the real scanner's tokens for the colonsok text of depth %d are not the Coq witness family cflow_tokens" % d,
                                      got=";".join(got)[:300], want=";".join(want)[:300])
                want_ev = ["SS", "DS0", "QS,0"] + ["MS,0", "SC,0"] * d + ["SC,0"] + ["ME"] * d + ["QE", "DE", "SE"]
                if ek != ";".join(want_ev) + "|OK":
                    res.add_tie_break("the implementation's events for the colonsok text of depth %d are not a sequence holding d nested mappings, accepted" % d,
                                      got=ek[:300])
            # what tells a synthetic FlowMappingStart from a real one (Model/Depth.v real_flow_open): the span
            for x in tk_:
                kind = x.rsplit("@", 1)[0]
                if kind == "FMS" and not span_empty(x):
                    res.add_tie_break("a FlowMappingStart token of a text without '{' has a non-empty span (real_flow_open would count it)",
                                      shape=sh, depth=d, token=x)
                if kind == "FSS" and span_empty(x):
                    res.add_tie_break("a FlowSequenceStart token has an empty span", shape=sh, depth=d, token=x)
            if kinds(bm_tok[i]) != ek:
                res.add_tie_break("correspondence (%s): parser model on the real tokens != real events" % sh, depth=d, model=kinds(bm_tok[i])[:300], impl=ek[:300])
            if kinds(bm_full[i]) != ek or fin_pos(split_line(bm_full[i])[1]) != fin_pos(split_line(bevs[i])[1]):
                res.add_tie_break("correspondence (%s): model pipeline != real events" % sh, depth=d, model=kinds(bm_full[i])[:300], impl=ek[:300])
    # flow limit: model and implementation, verdict and position
    fl = [1, 2, 254, 255, 256, 257, 300]
    ftexts = [build_input(sh, d) for sh in FLOW_SHAPES for d in fl]
    flines = [enc(s) for s in ftexts]
    fi = _retry(lambda: run_hx(["events", "str"], flines))
    fm = _retry(lambda: run_mx(["events", "str"], flines))
    k = 0
    for sh in FLOW_SHAPES:
        for d in fl:
            n += 1
            ifin, mfin = split_line(fi[k])[1], split_line(fm[k])[1]
            if fin_pos(ifin) != fin_pos(mfin) or (d > FLOW_LIMIT) != ifin.startswith("ERR"):
                res.add_tie_break("flow limit: model and implementation disagree (verdict / error position)", shape=sh, depth=d,
                                  impl=ifin[:120], model=mfin[:120])
            k += 1
    # the generated constant the flow theorem is about
    try:
        txt = open(os.path.join(core.COQ, "Gen", "Consts.v")).read()
        m = re.search(r"FLOW_LEVEL_MAX : N := (\d+)\.", txt)
        if not m or int(m.group(1)) != FLOW_LIMIT:
            res.add_tie_break("Gen/Consts.v FLOW_LEVEL_MAX is not %d: the declared type of Scanner::flow_level changed" % FLOW_LIMIT,
                              found=m.group(1) if m else None)
    except OSError as e:
        res.add_tie_break("Gen/Consts.v unreadable", error=str(e))
    return n


NEST_PIECES = ["[", "[", "]", "]", "{", "}", ", ", ",", ": ", ":", " :", "? ", "?", "- ", "a", "b", "a: ", " ", "\n", "\n  ", "[ ? ]",
               "[ ? ] , ", "{a: ", "'q'", "&x ", "*x", "!t ", "# c\n", "---\n", "|\n x\n"]


def nest_soups(n, rng, maxlen=30):
    out = []
    for _ in range(n):
        k = 1 + rng.randrange(maxlen)
        out.append("".join(rng.choice(NEST_PIECES) for _ in range(k)))
    return out


def oracle_checks(res, tier, rng):
    """theorems (g), (h), (i) of Properties/C11.v as an executable oracle on the implementation's tokens and events"""
    n = 1500 if tier == "quick" else 25000
    groups = []
    fam = []
    for sh in SHAPES:
        for d in list(range(1, 13)) + ([254, 255, 256, 257, 300] if sh != "map" else [40]):
            fam.append(build_input(sh, d))
    fam += ["[ ? [ ? [ ? a ] ] ]", "[a: b: c: d]", "[ ? ]", "[ ? ] ]", "[ ? : x ]", "a:\n- b\n- c\n", "? - a\n: - b\n",
            "[" * 300, "{" * 300, "[{" * 150, "{a: [" * 130 + "x" + "]}" * 130]
    groups.append(("families", fam))
    groups.append(("nest-soups", nest_soups(n, rng)))
    groups.append(("soups", gen.soups(n, rng)))
    groups.append(("line-soups", gen.line_soups(n, rng)))
    groups.append(("flow-soups", gen.flow_soups(n, rng, maxdepth=6)))
    res.coverage["oracle_input_distribution"] = {g: len(t) for g, t in groups}
    texts = [t for _, t in groups for t in t]
    lines = [enc(t) for t in texts]
    toks = _retry(lambda: run_hx(["tokens"], lines))
    evs = _retry(lambda: run_hx(["events", "str"], lines))
    cases = []
    idx = []
    for i, (t, e) in enumerate(zip(toks, evs)):
        tk, tfin = split_line(t)
        ek, efin = split_line(e)
        if "CRASH" in tfin or "TIMEOUT" in tfin or "CRASH" in efin or "TIMEOUT" in efin:
            res.add_violation("the scanner / the pull parser did not end with success or an error value on a short input (%s / %s)" % (tfin[:40], efin[:40]),
                              dict(input=texts[i]))
            continue
        cases.append(";".join(tk) + "\t" + ";".join(ek))
        idx.append(i)
    out = _retry(lambda: run_mx(["oracle"], cases, tag="C11"))
    deepest = 0
    stats = dict(cases=len(cases), flow_max=0, tight=0)
    for i, o in zip(idx, out):
        res.evaluations += 1
        m = re.match(r"^([01])([01])([01]) flow=(\d+) nest=(\d+) other=(\d+) depth=(\d+)$", o)
        if not m:
            res.add_tie_break("the C11 oracle could not read the implementation's tokens / events", input=texts[i][:200], got=o[:200])
            continue
        h, g, c, fl, ne, ot, de = m.group(1), m.group(2), m.group(3), int(m.group(4)), int(m.group(5)), int(m.group(6)), int(m.group(7))
        case = dict(input=texts[i] if len(texts[i]) <= 400 else texts[i][:400] + "...", flow_level_max=fl, token_nesting=ne,
                    uncounted_starts=ot, event_nesting=de)
        if h != "1":
            res.add_violation("the scanner delivered more than %d unmatched '[' / '{' tokens (flow level %d): the flow-level limit is gone" % (FLOW_LIMIT, fl), case)
        if g != "1":
            res.add_violation("the events nest deeper (%d) than twice the nesting of the tokens (%d): the parser opened a collection without a "
                              "collection-start token or consumed a collection-end token without closing (the class of defect repaired by c5ad60c)" % (de, ne), case)
        if h == "1" and g == "1" and c != "1":
            res.add_tie_break("oracle (i) fails although (g) and (h) hold: the arithmetic of the oracle is broken", case=case)
        if de >= 3:
            res.nontrivial.add(("oracle", texts[i]))
        stats["flow_max"] = max(stats["flow_max"], fl)
        if de == 2 * ne and ne > 0:
            stats["tight"] += 1
        deepest = max(deepest, de)
    stats["deepest_event_nesting"] = deepest
    res.coverage["oracle"] = stats
    return len(cases)


def check_C11(tier, seed):
    res = Result(ID, tier, seed)
    proof = prepare(ID, res, need_release=(tier == "thorough"), model_tags=("", "C11"))
    rng = gen.rng_for(seed, ID)
    known = load_known()
    depths = list(QUICK_DEPTHS)
    if tier == "thorough":
        depths += THOROUGH_EXTRA
    # seeded extra depths, log-uniform in 1..10^5
    extra = sorted(set(int(round(10 ** rng.uniform(0, 5))) for _ in range(3 if tier == "quick" else 40)))
    depths = sorted(set(depths + extra))
    res.coverage["input_distribution"] = dict(
        shapes=SHAPE_TEXT, apis=APIS + AUX_APIS, depths=depths, seeded_extra_depths=extra,
        caps=dict(map=MAP_CAP[tier], aux_apis_on_qkey_alt=SLOW_CAP, pemit_on_colonsok=COLONSOK_PEMIT_CAP),
        profiles=["debug"] + (["release"] if tier == "thorough" else []), stack="8 MiB thread (explicit)")
    res.coverage["known_findings_file"] = dict(path=os.path.relpath(KNOWN_FILE, core.VERIF), entries=len(known), margin=MARGIN)
    if res.harness_ok:
        hits = {}
        obs = []
        thresholds = []
        t0 = time.time()
        with concurrent.futures.ThreadPoolExecutor(max_workers=POOL) as pool:
            profiles = ["debug"] + (["release"] if tier == "thorough" else [])
            for prof in profiles:
                obs += sweep(prof, tier, depths, SHAPES, APIS, pool)
                # the aux apis only where they add information: block shapes, from 1000 levels on
                obs += sweep(prof, tier, [d for d in depths if d >= 1000], BLOCK_SHAPES + ["qflow", "colonsok"], AUX_APIS, pool)
            # thresholds: refine every (largest surviving, smallest aborting) bracket
            rel = 0.05 if tier == "quick" else 0.004
            todo = []
            for prof in profiles:
                for sh in SHAPES:
                    for api in APIS + AUX_APIS:
                        b = bracket(obs, prof, sh, api)
                        if b:
                            todo.append((prof, sh, api, b[0], b[1]))
            futs = {pool.submit(bisect, p, s, a, lo, hi, rel): (p, s, a) for (p, s, a, lo, hi) in todo}
            for f in concurrent.futures.as_completed(futs):
                p, s, a = futs[f]
                lo, hi, last, probes = f.result()
                obs += probes
                if last is None:
                    last = next(o for o in obs if o["profile"] == p and o["shape"] == s and o["api"] == a and o["depth"] == hi)
                thresholds.append(dict(profile=p, shape=s, api=a, largest_surviving=lo, smallest_aborting=hi,
                                       signal=last["signal"], died_after_stage=(last["stages"] or ["-"])[-1],
                                       input_bytes=next((x.split("=")[1] for x in last["stages"] if x.startswith("input bytes=")), "?")))
        sweep_secs = round(time.time() - t0, 1)
        kinds = {}
        # shallowest scenarios first: the first violation reported is the smallest one
        obs.sort(key=lambda o: (o["depth"], o["shape"], o["api"], o["profile"]))
        for o in obs:
            res.evaluations += 1
            kinds[o["kind"]] = kinds.get(o["kind"], 0) + 1
            if o["depth"] >= 1000 or o["depth"] in (255, 256, 257):
                res.nontrivial.add((o["profile"], o["shape"], o["depth"], o["api"]))
            judge(res, o, known, hits)
        thresholds.sort(key=lambda t: (t["profile"], t["shape"], t["api"]))
        res.coverage["outcomes"] = kinds
        res.coverage["scenarios"] = len(obs)
        res.coverage["thresholds"] = thresholds
        res.coverage["sweep_wall_s"] = sweep_secs
        res.coverage["slowest"] = [dict(scenario="%s %s %d %s" % (o["profile"], o["shape"], o["depth"], o["api"]), secs=o["secs"], kind=o["kind"])
                                   for o in sorted(obs, key=lambda o: -o["secs"])[:5]]
        # known-finding lines: one per (class, shape)
        for (cls, sh), os_ in sorted(hits.items()):
            first = min(os_, key=lambda o: o["depth"])
            apis = sorted(set(o["api"] for o in os_))
            per_api = ", ".join("%s>=%d" % (a, min(o["depth"] for o in os_ if o["api"] == a)) for a in apis)
            e = next(k for k in known if k["class"] == cls and sh in k["shapes"])
            extra = ""
            if sh == "colonsok":
                acc = [o["depth"] for o in obs if o["shape"] == "colonsok" and o["kind"] == "OK" and o["depth"] > FLOW_LIMIT]
                if acc:
                    extra = "; flow nesting deeper than %d ACCEPTED in %d scenario(s), deepest %d" % (FLOW_LIMIT, len(acc), max(acc))
            res.known.append("class=%s shape=%s (%s): %d scenario(s) aborted with a stack overflow (%s) through the recursive apis; "
                             "smallest aborting depth per api in this run: %s; recorded min_depth=%d, attributed from depth %d on; "
                             "witness: hx_c11 %s %d %s [%s]%s" % (
                                 cls, sh, SHAPE_TEXT[sh], len(os_), first["signal"], per_api, e["min_depth"], e["min_depth"] // MARGIN,
                                 sh, first["depth"], first["api"], first["profile"], extra))
        for o in obs:
            if o["depth"] in (255, 256, 30000) and o["shape"] in ("seq", "fseq") and o["profile"] == "debug" and len(res.samples) < 8:
                res.samples.append(dict(scenario="%s %d %s" % (o["shape"], o["depth"], o["api"]), kind=o["kind"], signal=o["signal"],
                                        stages=o["stages"], verdict=o["verdict"][:80]))
        if res.model_ok:
            n = tie_checks(res, tier)
            res.evaluations += n
            res.coverage["traces_validated_against_impl"] = n
            res.coverage["oracle_cases"] = oracle_checks(res, tier, rng)
    rule = ("one child process per scenario: nesting depth (fixed ladder 1..10^5 incl. 255/256/257 + seeded log-uniform depths, "
            "+ bisection of every crash threshold) x 10 shapes (the six of the property + block-around-flow + two flow-limit-bypass families "
            "+ the repaired '[ ? ] ,' family as a regression scenario that must be an error value) x 4 apis (+ 2 auxiliary "
            "apis isolating drop / emit from Parser::load) on an 8 MiB thread; non-trivial = distinct scenarios of depth >= 1000 or at "
            "the flow-limit boundary 255/256/257; the `map` shape is capped (input is quadratic in the depth); plus the extracted oracle of theorems "
            "(g)/(h)/(i) on the implementation's tokens and events of the families, nesting soups and the token / line / flow soups of the C01 space "
            "(non-trivial there = event nesting >= 3)")
    return res.finish(proof, rule)
