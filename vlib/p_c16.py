"""C16 — tags resolve through the directives in force for their document.

Inputs: YAML STREAMS built from a structure the generator keeps: 1-3 documents; per document 0-3 `%TAG` lines over a
pool of handles (`!`, `!!`, `!e!`, `!a-b!`, ...) and prefixes (global, local, with percent escapes, with broken
escapes), `%YAML 1.2` before/between/after them (sometimes twice), reserved `%FOO bar` lines, duplicates; `---`
(or an implicit first document), then a node — scalar, flow/block sequence or mapping, tagged children and keys, the
tag before or after an anchor — tagged with every spelling (`!!x`, `!h!x`, `!x`, `!<uri>`, lone `!`), suffixes with
percent escapes of all four UTF-8 lengths (boundaries and random scalar values, both cases of the hex digits) and
broken ones (`%C3` alone, `%ZZ`, stray continuation bytes, surrogates, > U+10FFFF, non-shortest forms), handles that
are undeclared, declared in an earlier document only, or redeclared later; documents with and without `...`.
Every stream runs twice: keep_tags off and on.

Oracles on the IMPLEMENTATION (`hx_c16 <0|1>`: Parser::new_from_str(s).keep_tags(flag), events as `hx events str`):
  1. Python rendering of the statement (this file: `walk`, `pct_decode`), computed only from the generator's own
     knowledge of the directives and tags it wrote: the expected (prefix, suffix) of every node event, or the expected
     error (message and position) and the tags delivered before it;
  2. the Coq specification itself (Spec/TagSpec.v: table_of / decls / expand / percent_decode, extracted by
     coq/Extract/ExtractC16.v, `mx spec`), evaluated on the same description: it must render exactly what (1)
     renders (so the Python oracle is tied to the definitions the theorems of Properties/C16.v are stated with);
  3. the hypotheses of theorems C16_resolve / C16_directives checked on the implementation's real token stream
     (`hx tokens`): every tag handle is "", "!", "!!" or "!name!", a reserved directive is filed as ("", "").
Correspondence: model pipeline vs implementation on the whole event line without spans (kind, anchor id, tag handle and
suffix, scalar text) and the verdict with its error position — `mx events str` (main unit, keep_tags off) and the
C16 unit `run_str_keep` for both settings.

Non-shortest UTF-8 forms (`%C0%AF`, `%E0%80%AF`, `%F0%80%80%AF`, ...): rejected since /repo commit 990db80 with the
"invalid UTF-8 codepoint" error at the tag; they are ordinary test streams here (SUFFIX_OVERLONG, PREFIX_OVERLONG, the
systematic product and the overlong sweep) and a regression is reported as a VIOLATION with the failing input
(known_findings_c16.jsonl records the class as `fixed`; nothing is suppressed).
"""
import json
import os

from . import core, gen
from .core import Result, enc, ev_nospan, fin_msg, fin_pos, prepare, run_bin, run_hx, run_mx, split_line

PID = "C16"
KNOWN_FILE = os.path.join(core.VERIF, "known_findings_c16.jsonl")
YAML_PREFIX = "tag:yaml.org,2002:"

MSG = {
    "escape": "while parsing a tag, found an invalid escape sequence",
    "lead": "while parsing a tag, found an incorrect leading UTF-8 byte",
    "trail": "while parsing a tag, found an incorrect trailing UTF-8 byte",
    "codepoint": "while parsing a tag, found an invalid UTF-8 codepoint",
    "overlong": "while parsing a tag, found an invalid UTF-8 codepoint",      # non-shortest form (RFC 3629 section 3)
    "undeclared": "the handle wasn't declared",
    "duphandle": "the TAG directive must only be given at most once per handle in the same document",
    "dupyaml": "duplicate version directive",
}


# ------------------------------------------------------------------------------------------------
# the statement, rendered in Python
# ------------------------------------------------------------------------------------------------
def _esc(raw, i):
    """the byte of an escape %XY at raw[i:], or None"""
    if i + 2 < len(raw) and raw[i] == "%":
        x, y = raw[i + 1], raw[i + 2]
        hexd = "0123456789abcdefABCDEF"
        if x in hexd and y in hexd:
            return int(x + y, 16)
    return None


def pct_decode(raw):
    """(text, None) or (None, reason); strict UTF-8 (RFC 3629) by arithmetic.
    reason: escape | lead | trail | codepoint | overlong"""
    out = []
    i = 0
    while i < len(raw):
        if raw[i] != "%":
            out.append(raw[i])
            i += 1
            continue
        b = _esc(raw, i)
        if b is None:
            return None, "escape"
        if b < 0x80:
            n, cp = 1, b
        elif 0xC0 <= b <= 0xDF:
            n, cp = 2, b - 0xC0
        elif 0xE0 <= b <= 0xEF:
            n, cp = 3, b - 0xE0
        elif 0xF0 <= b <= 0xF7:
            n, cp = 4, b - 0xF0
        else:
            return None, "lead"
        i += 3
        for _ in range(n - 1):
            b2 = _esc(raw, i)
            if b2 is None:
                return None, "escape"
            if not 0x80 <= b2 <= 0xBF:
                return None, "trail"
            cp = cp * 64 + (b2 - 0x80)
            i += 3
        if 0xD800 <= cp <= 0xDFFF or cp > 0x10FFFF:
            return None, "codepoint"
        if cp < (0, 0x80, 0x800, 0x10000)[n - 1]:
            return None, "overlong"
        out.append(chr(cp))
    return "".join(out), None


def pct_selftest():
    """the arithmetic decoder against Python's own strict UTF-8 codec on every 1- and 2-byte sequence and a sweep"""
    def check(bs):
        raw = "".join("%%%02X" % b for b in bs)
        t, why = pct_decode(raw)
        try:
            ref = bytes(bs).decode("utf-8")
            ref = ref if len(ref) == 1 else None
        except UnicodeDecodeError:
            ref = None
        return (t == ref) if ref is not None else (t is None or len(t) != 1)
    for a in range(256):
        if not check([a]):
            return "1-byte %02X" % a
        for b in range(0x70, 0xD0, 3):
            if not check([a, b]):
                return "2-byte %02X %02X" % (a, b)
    for cp in list(range(0, 0x3000, 7)) + list(range(0xD000, 0x11000, 13)) + list(range(0x10000, 0x110000, 4099)):
        if 0xD800 <= cp <= 0xDFFF:
            continue
        bs = list(chr(cp).encode("utf-8"))
        if not check(bs):
            return "U+%04X" % cp
    return None


class TagS:
    """a tag as spelled in the text"""

    def __init__(self, kind, handle="", raw=""):
        self.kind, self.handle, self.raw = kind, handle, raw

    def text(self):
        if self.kind == "verbatim":
            return "!<" + self.raw + ">"
        if self.kind == "nonspecific":
            return "!"
        if self.kind == "local":
            return "!" + self.raw
        if self.kind == "secondary":
            return "!!" + self.raw
        return self.handle + self.raw          # named

    def split(self):
        """(handle, raw suffix) as the scanner reports it"""
        if self.kind == "verbatim":
            return "", self.raw
        if self.kind == "nonspecific":
            return "", "!"
        if self.kind == "local":
            return "!", self.raw
        if self.kind == "secondary":
            return "!!", self.raw
        return self.handle, self.raw


def expand(table, h, s):
    """(prefix, suffix) or None = the handle wasn't declared"""
    if h == "":
        return "", s
    if h == "!":
        return table.get("!", "!"), s
    if h == "!!":
        return table.get("!!", YAML_PREFIX), s
    if h in table:
        return table[h], s
    return None


def marker(text, idx):
    line = text.count("\n", 0, idx) + 1
    col = idx - (text.rfind("\n", 0, idx) + 1)
    return "ERR@%d:%d:%d" % (idx, line, col)


def walk(stream, keep):
    """expected behaviour of one stream: dict(ok, seq, [level, why, pos])"""
    table = {}
    seq = []
    for di, doc in enumerate(stream["docs"]):
        if not keep:
            table = {}
        local = {}
        yaml_seen = False
        for d in doc["dirs"]:
            if d["k"] == "Y":
                if yaml_seen:
                    return dict(ok=False, seq=seq, level="parse", why="dupyaml", pos=d["off"], doc=di)
                yaml_seen = True
            elif d["k"] == "T":
                p, why = pct_decode(d["raw"])
                if p is None:
                    return dict(ok=False, seq=seq, level="scan", why=why, pos=d["off"])
                if d["h"] in local:
                    return dict(ok=False, seq=seq, level="parse", why="duphandle", pos=d["off"], doc=di)
                local[d["h"]] = p
        table = dict(table)
        table.update(local)
        for n in doc["nodes"]:
            t = n["tag"]
            if t is None:
                seq.append(None)
                continue
            h, raw = t.split()
            s, why = pct_decode(raw)
            if s is None:
                return dict(ok=False, seq=seq, level="scan", why=why, pos=n["tagoff"])
            e = expand(table, h, s)
            if e is None:
                return dict(ok=False, seq=seq, level="parse", why="undeclared", pos=n["off"], doc=di)
            seq.append(e)
    return dict(ok=True, seq=seq)


def scan_defects(stream):
    """every broken escape of the stream, wherever it is: (document index, position, reason)"""
    out = []
    for di, doc in enumerate(stream["docs"]):
        for d in doc["dirs"]:
            if d["k"] == "T":
                p, why = pct_decode(d["raw"])
                if p is None:
                    out.append((di, d["off"], why))
        for n in doc["nodes"]:
            if n["tag"] is not None:
                t, why = pct_decode(n["tag"].split()[1])
                if t is None:
                    out.append((di, n["tagoff"], why))
    return out


def cps(s):
    return ".".join(str(ord(c)) for c in s)


def render_expected(stream, keep):
    """the same expectation in the text format of `mx spec` (strict reading), and the description line"""
    out_docs, desc_docs = [], []
    table = {}
    stop = None
    for doc in stream["docs"]:
        ds, ts, outs = [], [], []
        for d in doc["dirs"]:
            ds.append("Y" if d["k"] == "Y" else "R" if d["k"] == "R" else "T%s:%s" % (cps(d["h"]), cps(d["raw"])))
        for n in doc["nodes"]:
            if n["tag"] is not None:
                h, raw = n["tag"].split()
                ts.append("%s:%s" % (cps(h), cps(raw)))
        desc_docs.append(",".join(ds) + "#" + ",".join(ts))
        if stop is not None:
            continue
        if not keep:
            table = {}
        local, yaml_seen = {}, False
        for i, d in enumerate(doc["dirs"]):
            if d["k"] == "Y":
                if yaml_seen:
                    stop = "DUPYAML%d" % i
                    break
                yaml_seen = True
            elif d["k"] == "T":
                p, why = pct_decode(d["raw"])
                if p is None:
                    stop = "BADPREFIX"
                    break
                if d["h"] in local:
                    stop = "DUPHANDLE%d" % i
                    break
                local[d["h"]] = p
        if stop is None:
            table = dict(table)
            table.update(local)
            for n in doc["nodes"]:
                if n["tag"] is None:
                    continue
                h, raw = n["tag"].split()
                s, why = pct_decode(raw)
                if s is None:
                    stop = "BADSUFFIX"
                    break
                e = expand(table, h, s)
                if e is None:
                    stop = "UNDECLARED"
                    break
                outs.append("h=%s/s=%s" % (cps(e[0]), cps(e[1])))
        if stop is not None:
            outs.append(stop)
        out_docs.append(",".join(outs))
    return ("1" if keep else "0") + ";" + ";".join(desc_docs), ";".join(out_docs)


# ------------------------------------------------------------------------------------------------
# generator
# ------------------------------------------------------------------------------------------------
HANDLES = ["!", "!!", "!e!", "!a-b!", "!m_1!", "!0!", "!E!"]
NAMED = [h for h in HANDLES if len(h) > 2]
PREFIX_OK = ["tag:e,2000:", "tag:yaml.org,2002:", "!local-", "!", "tag:x%21y,", "tag:%C3%A9,", "tag:%E2%82%AC/",
             "p%F0%9F%98%80:", "tag:a.b/c?d=e&f#g", "x", "%41bc", "tag:clarkevans.com,2002:", "!!", "tag:%c3%a9"]
PREFIX_BAD = ["tag:%ZZ", "tag:%C3", "tag:%C3%28", "tag:%FF", "%ED%A0%80", "tag:%4", "tag:%E2%82", "tag:%F4%90%80%80"]
PREFIX_OVERLONG = ["tag:%C0%AF", "%E0%80%AF:"]
SUFFIX_OK = ["str", "int", "map", "seq", "null", "x", "suffix", "a.b-c_d", "foo/bar", "t%21", "%C3%A9", "e%C3%A9x", "%E2%82%AC",
             "%F0%9F%98%80", "a%c3%a9", "%41", "%7E", "%7e", "%C2%80", "%DF%BF", "%E0%A0%80", "%EF%BF%BF", "%F0%90%80%80",
             "%F4%8F%BF%BF", "%ED%9F%BF", "%EE%80%80", "%7F", "a:b", "x%2Cy", "%5B%5D", "%00", "caf%C3%A9/%E2%82%AC"]
SUFFIX_BAD = ["%C3", "%ZZ", "a%C3", "%C3%", "%C3%28", "%80", "%BF", "%F8%88%80%80%80", "%ED%A0%80", "%ED%BF%BF", "%F4%90%80%80",
              "%E2%82", "%4", "%", "x%G1", "%F0%9F%98", "%E2%28%A1", "%F5%80%80%80", "%FF", "%C3%C3"]
SUFFIX_OVERLONG = ["%C0%AF", "%E0%80%AF", "%F0%80%80%AF", "%C1%BF", "%E0%9F%BF", "%F0%8F%BF%BF", "a%C0%80"]
VERBATIM_OK = ["verbatim:uri", "tag:yaml.org,2002:str", "!local", "a%21b", "x", "tag:e,2000:t", "%F0%9F%98%80", "a,b[c]", ""]
SHAPES = ["scalar", "scalar-empty", "flowseq", "flowseq-empty", "flowmap", "flowmap-key", "blockseq", "blockmap",
          "blockmap-key", "nested"]
VALUES = ["v", "1", "'q'", "\"d\"", "a b", "true"]


def enc_cp(cp, rng):
    bs = chr(cp).encode("utf-8")
    return "".join(("%%%02X" if rng.random() < 0.7 else "%%%02x") % b for b in bs)


def rand_scalar_value(rng):
    r = rng.random()
    if r < 0.2:
        return rng.randrange(0, 0x80)
    if r < 0.4:
        return rng.randrange(0x80, 0x800)
    if r < 0.7:
        while True:
            c = rng.randrange(0x800, 0x10000)
            if not 0xD800 <= c <= 0xDFFF:
                return c
    return rng.randrange(0x10000, 0x110000)


def gen_suffix(rng, pbad, pover):
    r = rng.random()
    if r < pbad:
        if rng.random() < 0.5:
            return rng.choice(SUFFIX_BAD)
        # a valid escape with one character damaged
        e = enc_cp(rand_scalar_value(rng), rng)
        i = rng.randrange(len(e))
        return e[:i] + rng.choice("G%z8F0") + e[i + 1:]
    if r < pbad + pover:
        return rng.choice(SUFFIX_OVERLONG)
    if rng.random() < 0.35:
        return rng.choice(["", "a", "x-"]) + enc_cp(rand_scalar_value(rng), rng) + rng.choice(["", "z"])
    return rng.choice(SUFFIX_OK)


def gen_tag(rng, declared, earlier, pbad, pover):
    """declared: handles of this document; earlier: handles of earlier documents"""
    r = rng.random()
    if r < 0.12:
        return TagS("nonspecific")
    if r < 0.24:
        v = rng.choice(VERBATIM_OK)
        if rng.random() < pbad:
            v = "v" + rng.choice(SUFFIX_BAD)
        elif rng.random() < 0.3:
            v = "u:" + enc_cp(rand_scalar_value(rng), rng)
        return TagS("verbatim", raw=v)
    sfx = gen_suffix(rng, pbad, pover)
    if r < 0.40:
        return TagS("local", raw=sfx or "l")
    if r < 0.55:
        return TagS("secondary", raw=sfx or "str")
    named_decl = [h for h in declared if len(h) > 2]
    named_early = [h for h in earlier if len(h) > 2 and h not in declared]
    q = rng.random()
    if named_decl and q < 0.80:
        h = rng.choice(named_decl)
    elif named_early and q < 0.92:
        h = rng.choice(named_early)         # declared in an earlier document only: resolves iff keep_tags
    elif q < 0.96 or not (named_decl or named_early):
        if not named_decl and rng.random() < 0.75:
            return TagS("local" if rng.random() < 0.5 else "secondary", raw=sfx or "t")
        h = rng.choice(NAMED)               # (most likely) never declared
    else:
        h = rng.choice(NAMED)
    return TagS("named", handle=h, raw=sfx or "t")


class Builder:
    def __init__(self):
        self.parts = []
        self.n = 0

    def emit(self, s):
        self.parts.append(s)
        self.n += len(s)

    def text(self):
        return "".join(self.parts)


def gen_stream(rng, pbad=0.05, pover=0.02):
    b = Builder()
    docs = []
    ndocs = rng.choice([1, 1, 2, 2, 3])
    earlier = []
    anchors = [0]

    def props(tag, nodes, anchor_ok=True):
        """writes the node properties (with a trailing blank unless empty) and records the node"""
        node = dict(tag=tag, off=b.n, tagoff=b.n)
        if tag is None:
            if anchor_ok and rng.random() < 0.15:
                anchors[0] += 1
                b.emit("&n%d " % anchors[0])
            nodes.append(node)
            return False
        mode = rng.random()
        if mode < 0.6:
            b.emit(tag.text() + " ")
        elif mode < 0.8:
            anchors[0] += 1
            b.emit(tag.text() + " ")
            b.emit("&n%d " % anchors[0])
        else:
            anchors[0] += 1
            b.emit("&n%d " % anchors[0])
            node["tagoff"] = b.n
            b.emit(tag.text() + " ")
        nodes.append(node)
        return True

    for di in range(ndocs):
        dirs = []
        nt = rng.choice([0, 0, 1, 1, 1, 2, 2, 3])
        pool = list(HANDLES)
        lines = []
        for _ in range(nt):
            h = rng.choice(pool)
            if rng.random() < 0.80 and h in pool and len(pool) > 1:
                pool.remove(h)          # mostly distinct handles; sometimes the same one again
            r = rng.random()
            raw = rng.choice(PREFIX_BAD) if r < pbad else rng.choice(PREFIX_OVERLONG) if r < pbad + pover else rng.choice(PREFIX_OK)
            lines.append(dict(k="T", h=h, raw=raw))
        if rng.random() < 0.35:
            lines.insert(rng.randrange(len(lines) + 1), dict(k="Y"))
            if rng.random() < 0.12:
                lines.insert(rng.randrange(len(lines) + 1), dict(k="Y"))
        if rng.random() < 0.2:
            lines.insert(rng.randrange(len(lines) + 1), dict(k="R"))
            if rng.random() < 0.3:
                lines.insert(rng.randrange(len(lines) + 1), dict(k="R"))
        ended = False
        if di > 0 and (lines or rng.random() < 0.5):
            b.emit("...\n")
            ended = True
        for d in lines:
            d["off"] = b.n
            if d["k"] == "Y":
                b.emit("%YAML 1.2\n")
            elif d["k"] == "R":
                b.emit(rng.choice(["%FOO bar\n", "%FOO\n", "%TAGS !x! y\n"]))
            else:
                b.emit("%%TAG %s %s%s\n" % (d["h"], d["raw"], rng.choice(["", "", " ", " # c"])))
            dirs.append(d)
        declared = [d["h"] for d in dirs if d["k"] == "T"]
        # a bare document (no directives, no '---'): the first one, or any later one behind a '...' line — the table of
        # the document before it must not be in force there unless keep_tags is set
        implicit = not lines and (di == 0 or ended) and rng.random() < (0.3 if di == 0 else 0.6)
        nodes = []
        shape = rng.choice(SHAPES)

        def tg(p=0.8):
            return gen_tag(rng, declared, earlier, pbad, pover) if rng.random() < p else None

        top = tg(0.75)
        if shape == "scalar-empty" and top is None:
            shape = "scalar"
        block = shape in ("blockseq", "blockmap", "blockmap-key", "nested")
        if not implicit:
            b.emit("---")
            b.emit("\n" if block and top is None else " ")
        had = props(top, nodes, anchor_ok=False)
        val = rng.choice(VALUES)
        if shape == "scalar":
            b.emit(val + "\n")
        elif shape == "scalar-empty":
            b.emit("\n")
        elif shape == "flowseq":
            b.emit("[")
            props(tg(), nodes)
            b.emit(val + ", ")
            props(tg(0.3), nodes)
            b.emit("b]\n")
        elif shape == "flowseq-empty":
            c = tg(1.0)
            b.emit("[")
            node = dict(tag=c, off=b.n, tagoff=b.n)
            nodes.append(node)
            b.emit(c.text())
            if rng.random() < 0.5:
                b.emit(", ")
                props(None, nodes)
                b.emit("b")
            b.emit("]\n")
        elif shape == "flowmap":
            b.emit("{")
            props(None, nodes)
            b.emit("k: ")
            props(tg(), nodes)
            b.emit(val + "}\n")
        elif shape == "flowmap-key":
            b.emit("{")
            props(tg(), nodes)
            b.emit("k: ")
            props(tg(0.3), nodes)
            b.emit(val + "}\n")
        elif shape == "blockseq":
            if had:
                b.emit("\n")
            b.emit("- ")
            props(tg(), nodes)
            b.emit(val + "\n- ")
            props(tg(0.3), nodes)
            b.emit("b\n")
        elif shape == "blockmap":
            if had:
                b.emit("\n")
            props(None, nodes)
            b.emit("k: ")
            props(tg(), nodes)
            b.emit(val + "\n")
        elif shape == "blockmap-key":
            if had:
                b.emit("\n")
            props(tg(), nodes)
            b.emit("k: ")
            props(tg(0.3), nodes)
            b.emit(val + "\n")
        else:   # nested
            if had:
                b.emit("\n")
            props(None, nodes)
            b.emit("k:\n  ")
            c = tg(0.5)
            if c is not None:
                nodes.append(dict(tag=c, off=b.n, tagoff=b.n))
                b.emit(c.text() + "\n  ")
            else:
                nodes.append(dict(tag=None, off=b.n, tagoff=b.n))
            b.emit("- ")
            props(tg(), nodes)
            b.emit(val + "\n")
        docs.append(dict(dirs=dirs, nodes=nodes, shape=shape, implicit=implicit))
        earlier = earlier + declared
    if rng.random() < 0.2:
        b.emit("...\n")
    return dict(text=b.text(), docs=docs)


def systematic():
    """every spelling under every small directive set, in three positions — no randomness"""
    dsets = [[], [("!e!", "tag:e,2000:")], [("!e!", "tag:e,2000:"), ("!a-b!", "!local-")], [("!", "tag:p,")], [("!!", "tag:q,")],
             [("!e!", "tag:%C3%A9,")], [("!e!", "x"), ("!e!", "y")], [("!", "!"), ("!!", "!!"), ("!e!", "!e!")]]
    tags = [TagS("secondary", raw="str"), TagS("secondary", raw="int"), TagS("named", "!e!", "suffix"), TagS("named", "!a-b!", "t"),
            TagS("named", "!u!", "x"), TagS("local", raw="local"), TagS("verbatim", raw="verbatim:uri"), TagS("nonspecific"),
            TagS("local", raw="t%21"), TagS("named", "!e!", "%C3%A9"), TagS("secondary", raw="%E2%82%AC"),
            TagS("verbatim", raw="%F0%9F%98%80"), TagS("local", raw="%C3"), TagS("local", raw="%ZZ"), TagS("local", raw="%C0%AF")]
    out = []
    for ds in dsets:
        for yaml in (None, 0, len(ds)):
            for t in tags:
                for pos in ("top", "child", "second-doc"):
                    b = Builder()
                    dirs = []
                    seq = list(ds)
                    items = [dict(k="T", h=h, raw=p) for h, p in seq]
                    if yaml is not None:
                        items.insert(yaml, dict(k="Y"))
                    for d in items:
                        d["off"] = b.n
                        b.emit("%YAML 1.2\n" if d["k"] == "Y" else "%%TAG %s %s\n" % (d["h"], d["raw"]))
                        dirs.append(d)
                    nodes = []
                    docs = [dict(dirs=dirs, nodes=nodes, shape=pos, implicit=False)]
                    if pos == "top":
                        b.emit("--- ")
                        nodes.append(dict(tag=t, off=b.n, tagoff=b.n))
                        b.emit(t.text() + " v\n")
                    elif pos == "child":
                        b.emit("---\n")
                        nodes.append(dict(tag=None, off=b.n, tagoff=b.n))
                        nodes.append(dict(tag=None, off=b.n, tagoff=b.n))
                        b.emit("k: ")
                        nodes.append(dict(tag=t, off=b.n, tagoff=b.n))
                        b.emit(t.text() + " [a]\n")
                        nodes.append(dict(tag=None, off=b.n, tagoff=b.n))
                    else:
                        b.emit("--- a\n--- ")
                        nodes.append(dict(tag=None, off=0, tagoff=0))
                        n2 = [dict(tag=t, off=b.n, tagoff=b.n)]
                        b.emit(t.text() + " v\n")
                        docs.append(dict(dirs=[], nodes=n2, shape=pos, implicit=False))
                    out.append(dict(text=b.text(), docs=docs))
    return out


def utf8_sweep(tier, rng):
    """one tag per code point: class boundaries, then random scalar values; plus damaged encodings"""
    cps_ = [0, 1, 0x20, 0x25, 0x41, 0x7E, 0x7F, 0x80, 0x81, 0xA9, 0xE9, 0x7FF, 0x800, 0x801, 0xFFF, 0x1000, 0x20AC, 0xD7FF, 0xE000,
            0xFFFD, 0xFFFE, 0xFFFF, 0x10000, 0x10001, 0x1F600, 0x3FFFF, 0x40000, 0xFFFFF, 0x100000, 0x10FFFE, 0x10FFFF]
    cps_ += [rand_scalar_value(rng) for _ in range(400 if tier == "quick" else 60000)]
    out = []
    for i, cp in enumerate(cps_):
        e = enc_cp(cp, rng)
        kind = i % 4
        t = (TagS("local", raw="e" + e) if kind == 0 else TagS("verbatim", raw=e) if kind == 1
             else TagS("secondary", raw=e + "z") if kind == 2 else TagS("named", "!e!", e))
        b = Builder()
        d = dict(k="T", h="!e!", raw="tag:e," + (e if i % 8 == 3 else ""), off=0)
        b.emit("%%TAG !e! %s\n--- " % d["raw"])
        n = dict(tag=t, off=b.n, tagoff=b.n)
        b.emit(t.text() + " v\n")
        out.append(dict(text=b.text(), docs=[dict(dirs=[d], nodes=[n], shape="sweep", implicit=False)]))
    return out


WORD = "0123456789abcdefghijklmnopqrstuvwxyzABCDEFGHIJKLMNOPQRSTUVWXYZ-"
URI_CH = WORD + "#;/?:@&=+$,_.!~*'()[]"
TAG_CH = "".join(c for c in URI_CH if c not in "!,[]{}")


def theorem_shape(tier, rng):
    """streams of exactly the shape of the text-level theorems of Properties/C16.v (C16_text_plain_document,
    C16_text_directives_document and the rejections C16_text_*_rejects): 0-3 lines %TAG<blanks><handle><blanks><prefix>LF,
    then "--- " <tag> " x" (end of input), the texts drawn from the character classes of Spec/TagSpec.v section 4 with
    escapes of random scalar values; some with an escape that has no decoding (broken or non-shortest)"""
    def items(chars, k):
        return "".join(enc_cp(rand_scalar_value(rng), rng) if rng.random() < 0.3 else rng.choice(chars) for _ in range(k))
    out = []
    for i in range(400 if tier == "quick" else 8000):
        b = Builder()
        dirs = []
        name = "".join(rng.choice(WORD + "_") for _ in range(rng.choice([0, 1, 1, 2, 4])))
        for _ in range(rng.choice([0, 1, 1, 1, 2, 2, 3])):
            # C16_text_directives_document: any number of %TAG lines, sometimes the same handle twice
            dh = rng.choice(["!", "!" + name + "!", "!" + name + "!", "!z9!", "!!"])
            first = rng.choice(["!", rng.choice(TAG_CH), enc_cp(rand_scalar_value(rng), rng)])
            d = dict(k="T", h=dh, raw=first + items(URI_CH, rng.randrange(0, 6))
                     + (rng.choice(["%C0%AF", "%E0%80%AF", "%C3", "%ZZ", "%ED%A0%80"]) if rng.random() < 0.05 else ""), off=b.n)
            b.emit("%%TAG%s%s%s%s\n" % ("".join(rng.choice(" \t") for _ in range(rng.randrange(1, 4))), dh,
                                        "".join(rng.choice(" \t") for _ in range(rng.randrange(1, 4))), d["raw"]))
            dirs.append(d)
        k = rng.randrange(5)
        # theorems (h): a text of the right characters whose escapes have no decoding (broken or non-shortest)
        broken = rng.choice(SUFFIX_BAD + SUFFIX_OVERLONG) if rng.random() < 0.15 else None
        if k == 0:
            t = TagS("verbatim", raw=items(URI_CH, rng.randrange(0, 6)) + (broken or ""))
        elif k == 1:
            t = TagS("nonspecific")
        elif k == 2:
            t = TagS("local", raw=items(TAG_CH, rng.randrange(1, 6)) + (broken or ""))
        else:
            sfx = items(TAG_CH, rng.randrange(1, 6)) + (broken or "")
            t = TagS("secondary", raw=sfx) if name == "" else TagS("named", "!" + name + "!", sfx)
        b.emit("--- ")
        n = dict(tag=t, off=b.n, tagoff=b.n)
        b.emit(t.text() + " x")
        out.append(dict(text=b.text(), docs=[dict(dirs=dirs, nodes=[n], shape="theorem", implicit=False)]))
    return out


# ------------------------------------------------------------------------------------------------
# comparing
# ------------------------------------------------------------------------------------------------
def impl_tags(line):
    """([tag or None for each node event], verdict)"""
    evs, fin = split_line(line)
    out = []
    for e in evs:
        b = ev_nospan(e)
        if b[:2] in ("SC", "QS", "MS"):
            parts = b[2:].split(",")
            t = parts[2] if b.startswith("SC") else parts[1]
            if t == "-":
                out.append(None)
            else:
                h, s = t.split("/s=", 1)
                out.append((dec_cps(h[2:]), dec_cps(s)))
    return out, fin


def dec_cps(s):
    return "".join(chr(int(x)) for x in s.split(".")) if s else ""


def judge(exp, line, text, later=()):
    """None if the implementation's line is what the expectation says, else a description.
    later: broken escapes further on in the document of an expected parser-level error: the scanner runs ahead of the
    parser while a simple key is possible, so it may report one of them first (then fewer tags are delivered)."""
    got, fin = impl_tags(line)
    if not exp["ok"] and exp["level"] == "parse" and fin.startswith("ERR"):
        for di, pos, why in later:
            if di == exp["doc"] and pos > exp["pos"] and why in MSG and fin_msg(fin) == MSG[why] and fin_pos(fin) == marker(text, pos):
                if got == exp["seq"][:len(got)]:
                    return None
    if exp["ok"]:
        if fin != "OK":
            return "expected all tags resolved, got " + fin[:120]
        if got != exp["seq"]:
            return "tags differ: expected %r got %r" % (exp["seq"], got)
        return None
    if not fin.startswith("ERR"):
        return "expected the error %r, got %s" % (exp["why"], fin[:80])
    if fin_msg(fin) != MSG[exp["why"]]:
        return "expected the error %r, got %r" % (MSG[exp["why"]], fin_msg(fin))
    if fin_pos(fin) != marker(text, exp["pos"]):
        return "error position: expected %s got %s" % (marker(text, exp["pos"]), fin_pos(fin))
    if exp["level"] == "parse":
        if got != exp["seq"]:
            return "tags before the error differ: expected %r got %r" % (exp["seq"], got)
    elif got != exp["seq"][:len(got)]:
        # a scanner error may surface while the scanner is looking ahead: the tags delivered are a prefix
        return "tags before the error are not a prefix of the expected ones: expected %r got %r" % (exp["seq"], got)
    return None


def proj(line):
    evs, fin = split_line(line)
    f = fin_pos(fin) if fin.startswith("ERR") else fin
    return ";".join(ev_nospan(e) for e in evs) + "|" + f


def handle_shape_ok(h):
    return h == "" or h == "!" or (len(h) >= 2 and h[0] == "!" and h[-1] == "!")


def load_known():
    """classes still recorded as `known` for this property (none at present: a `fixed` entry suppresses nothing)"""
    out = {}
    if os.path.exists(KNOWN_FILE):
        for l in open(KNOWN_FILE):
            l = l.strip()
            if l:
                d = json.loads(l)
                if d.get("property") == PID and d.get("status") == "known":
                    out[d["class"]] = d
    return out


def overlong_sweep(tier, rng):
    """regression streams for commit 990db80: every non-shortest form class (2 bytes for < U+0080, 3 bytes for < U+0800,
    4 bytes for < U+10000) at its boundaries and at random, in a tag suffix, a verbatim tag and a %TAG prefix"""
    def enc_n(cp, n):
        if n == 2:
            bs = [0xC0 | (cp >> 6), 0x80 | (cp & 63)]
        elif n == 3:
            bs = [0xE0 | (cp >> 12), 0x80 | ((cp >> 6) & 63), 0x80 | (cp & 63)]
        else:
            bs = [0xF0 | (cp >> 18), 0x80 | ((cp >> 12) & 63), 0x80 | ((cp >> 6) & 63), 0x80 | (cp & 63)]
        return "".join(("%%%02X" if rng.random() < 0.7 else "%%%02x") % b for b in bs)
    cases = []
    for n, lim in ((2, 0x80), (3, 0x800), (4, 0x10000)):
        pts = [0, 1, 0x2F, 0x7F, lim - 1] + [rng.randrange(0, lim) for _ in range(20 if tier == "quick" else 2000)]
        if n >= 3:
            pts += [0x80, 0x7FF]
        if n == 4:
            pts += [0x800, 0xFFFF, 0xD800]
        cases += [(enc_n(cp, n), cp) for cp in pts if cp < lim]
    out = []
    for i, (e, cp) in enumerate(cases):
        kind = i % 3
        b = Builder()
        dirs = []
        if kind == 2:
            d = dict(k="T", h="!e!", raw="tag:e," + e, off=0)
            b.emit("%%TAG !e! %s\n" % d["raw"])
            dirs.append(d)
            t = TagS("named", "!e!", "x")
        else:
            t = TagS("local", raw="a" + e + "z") if kind == 0 else TagS("verbatim", raw=e)
        b.emit("--- ")
        n = dict(tag=t, off=b.n, tagoff=b.n)
        b.emit(t.text() + " v\n")
        out.append(dict(text=b.text(), docs=[dict(dirs=dirs, nodes=[n], shape="overlong", implicit=False)]))
    return out


def check_C16(tier, seed):
    res = Result(PID, tier, seed)
    proof = prepare(PID, res, model_tags=("", "C16"))
    rng = gen.rng_for(seed, PID)
    st = pct_selftest()
    if st:
        res.add_tie_break("the Python percent-decoder disagrees with Python's strict UTF-8 codec", at=st)
    n_rand = 6000 if tier == "quick" else 150000
    groups = [("systematic", systematic()), ("utf8-sweep", utf8_sweep(tier, rng)),
              ("overlong-sweep", overlong_sweep(tier, rng)), ("theorem-shape", theorem_shape(tier, rng)),
              ("random", [gen_stream(rng) for _ in range(n_rand)]),
              ("random-clean", [gen_stream(rng, 0.0, 0.0) for _ in range(n_rand // 3)])]
    streams, seen, dist = [], set(), {}
    for label, items in groups:
        k = 0
        for s in items:
            if s["text"] not in seen:
                seen.add(s["text"])
                streams.append(s)
                k += 1
        dist[label] = k
    res.coverage["input_distribution"] = dict(groups=dist, keep_tags=["off", "on"],
                                              documents_per_stream={str(k): sum(1 for s in streams if len(s["docs"]) == k) for k in (1, 2, 3)})
    known = load_known()
    if res.harness_ok and res.model_ok:
        lines = [enc(s["text"]) for s in streams]
        impl = {k: run_bin("hx_c16", [str(k)], lines) for k in (0, 1)}
        model = {k: run_mx(["events", str(k)], lines, tag="C16") for k in (0, 1)}
        model_main = run_mx(["events", "str"], lines)
        toks = run_hx(["tokens"], lines)
        descs, rendered = {}, {}
        for k in (0, 1):
            pairs = [render_expected(s, bool(k)) for s in streams]
            descs[k] = [p[0] for p in pairs]
            rendered[k] = [p[1] for p in pairs]
        coq = {k: run_mx(["spec"], descs[k], tag="C16") for k in (0, 1)}
        stats = dict(ok=0, undeclared=0, duphandle=0, dupyaml=0, escape=0, lead=0, trail=0, codepoint=0, overlong=0)
        spell = {}
        for i, s in enumerate(streams):
            text = s["text"]
            for d in s["docs"]:
                for n in d["nodes"]:
                    if n["tag"] is not None:
                        spell[n["tag"].kind] = spell.get(n["tag"].kind, 0) + 1
            # hypotheses of the theorems on the real tokens
            tl, tfin = split_line(toks[i])
            for t in tl:
                b = ev_nospan(t)
                if b.startswith("TG"):
                    h = dec_cps(b[2:].split(",")[0])
                    if not handle_shape_ok(h):
                        res.add_tie_break("a real tag token has a handle outside the shapes theorem C16_resolve assumes",
                                          case=text, token=b)
                elif b.startswith("TD"):
                    h, p = b[2:].split(",")
                    if h == "" and p != "":
                        res.add_tie_break("a real directive token with empty handle and non-empty prefix (C16_directives assumes none)",
                                          case=text, token=b)
            for k in (0, 1):
                res.evaluations += 1
                case = dict(input=text, codepoints=lines[i], keep_tags=bool(k))
                line = impl[k][i]
                strict = walk(s, bool(k))
                bad = judge(strict, line, text, scan_defects(s))
                cls = "ok" if strict["ok"] else strict["why"]
                stats[cls] += 1
                if bad is not None:
                    res.add_violation("tag resolution differs from the statement: " + bad, case, impl=line[-400:],
                                      expected=dict(ok=strict["ok"], tags=[list(t) if t else None for t in strict["seq"]],
                                                    error=strict.get("why")))
                # the Coq specification renders the same expectation
                if coq[k][i] != rendered[k][i]:
                    res.add_tie_break("the Python rendering of the statement differs from the extracted Coq specification",
                                      case=text, keep_tags=bool(k), description=descs[k][i], python=rendered[k][i], coq=coq[k][i])
                # correspondence
                if proj(model[k][i]) != proj(line):
                    res.add_tie_break("correspondence: model pipeline (run_str_keep) != implementation", case=text, keep_tags=bool(k),
                                      model=proj(model[k][i])[-300:], impl=proj(line)[-300:])
                if k == 0 and proj(model_main[i]) != proj(line):
                    res.add_tie_break("correspondence: model pipeline (run_str) != implementation", case=text,
                                      model=proj(model_main[i])[-300:], impl=proj(line)[-300:])
                # non-trivial: a %TAG-bound handle was used, or an escape decoded, or an error expected, or a table carried over
                uses = any(n["tag"] is not None and (n["tag"].split()[0] in [d["h"] for dd in s["docs"] for d in dd["dirs"] if d["k"] == "T"]
                                                     or "%" in n["tag"].raw) for dd in s["docs"] for n in dd["nodes"])
                if uses or not strict["ok"]:
                    res.nontrivial.add((text, k))
        res.coverage["expected_outcomes"] = stats
        res.coverage["tag_spellings"] = spell
        res.coverage["known_finding_classes"] = sorted(known)
        res.coverage["traces_validated_against_impl"] = 2 * len(streams)
        for i in (7, len(streams) // 3, len(streams) // 2, len(streams) - 11):
            if 0 <= i < len(streams):
                w = walk(streams[i], False)
                res.samples.append(dict(input=streams[i]["text"], keep_tags=False,
                                        expected=[list(t) if t else None for t in w["seq"]] + ([w["why"]] if not w["ok"] else []),
                                        impl=proj(impl[0][i])[-200:]))
    rule = ("streams of 1-3 documents, 0-3 %TAG lines each over 7 handles x 24 prefixes, %YAML/reserved directives, 10 node shapes, "
            "5 tag spellings, suffixes with valid/broken/non-shortest percent escapes, each under keep_tags off and on; plus a "
            "systematic product (directive set x spelling x position), one tag per code point (class boundaries + random scalar "
            "values), one stream per non-shortest encoding (2/3/4 bytes, boundaries + random; must be rejected) and streams of "
            "exactly the shape of the text-level theorems ([%TAG line] '--- <tag> x', texts from the YAML character classes); non-trivial = distinct (stream, keep_tags) where a tag uses a %TAG-declared handle or a percent escape, or an "
            "error is expected")
    return res.finish(proof, rule)
