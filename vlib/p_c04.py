"""C04 — plain and quoted scalars yield exactly the text YAML assigns to them.

Direction of the test: from the TEXT to the document.  A target string is *presented* as YAML by independent
presenters written from the YAML 1.2.2 productions (5.7 escapes, 6.5 line folding, 7.3 flow scalar styles); the
implementation must hand back exactly the target (and the style that was written).

Presenters (all random choices come from the one rng of the run)
  present_quoted(text, rng, dq=True)   double-quoted.  Per character: literal (c-printable, not `"`, `\\`), the named
      escape of 5.7 (\\0 \\a \\b \\t \\<TAB> \\n \\v \\f \\r \\e \\<SP> \\" \\/ \\\\ \\N \\_ \\L \\P), or \\xXX / \\uXXXX / \\UXXXXXXXX
      (random hex digit case) when the code point fits.  Line structure, productions [130]-[134], [69]-[74]:
        * soft fold  — ONE space of the text is written as a line break; allowed only where the source character before
          it is not a literal blank (trailing literal blanks are discarded by folding) and the character after it is
          written as a non-blank (a blank or line feed there is forced to be an escape), or at the very start / end of
          the scalar ([133]: the part after s-double-break is optional; [134]: the first line may be empty);
        * hard fold  — k >= 1 line feeds of the text are written as k+1 breaks (b-l-trimmed), same flank conditions;
        * escaped break — `\\` + break joins without a space, literal blanks before the backslash are content ([130]),
          optionally followed by k empty lines that stand for k line feeds of the text (l-empty* in [130]);
        * after every break: the continuation indentation s-flow-line-prefix(n) (n spaces required by the context,
          extra spaces, then optional blanks incl. tabs), empty lines are s-indent(<n) or s-flow-line-prefix(n);
          before a folded (not escaped) break: trailing blank padding (s-separate-in-line?), which is dropped.
        never two breaks without a non-blank between them other than the empty lines above (the grammar has none).
  present_quoted(text, rng, dq=False)  single-quoted: `'` doubled, the same folding, no escapes — returns None when
      the text is not presentable (non-printable character, a line feed next to a blank).
  present_plain(text, rng, flow, multi_ok)  only for plain-safe texts (plain_feasible): ns-plain-first, ns-plain-char
      ([126]-[135]: `:` must be followed by a safe character, `#` must not follow a blank or start a line, no flow
      indicators in flow context, no BOM, no leading/trailing blanks), multi-line by folding; continuation lines never
      start a document marker in column 0.
Contexts (CONTEXTS): top level (bare, `--- `, `---` on its own line), block mapping value (same line / next line, nesting
0-2, indent width 1-4), block mapping implicit key (single line), explicit `? ` key, block sequence entry (compact
nesting `- - `, also indentless under a key), flow sequence entry, flow mapping value, flow mapping key, single-pair key
`[k: v]` (single line), nested flow, flow collections inside block mappings, with the scalar on the opening line or on
a line of its own.  n (the indentation a continuation line needs) is computed per context from the productions
([198] flow-in-block: n+1).

Oracle on the IMPLEMENTATION: the projection (event kind, scalar style, scalar text) of `hx events str` and
`hx events iter` on the rendered document must be exactly the expected event list the context builder wrote down
(so the target scalar is located by its role in a known structure).  Correspondence: `mx events str` (Coq model
pipeline run_str, extracted) must produce the identical event line (spans included) and verdict.

Self-check of the presenters: an independent reference reader (ref_read_quoted / ref_read_plain, a direct rendering of
the folding rules on the physical lines of the scalar) must recover the target from every presentation; a disagreement
is a machinery failure (tie break), never blamed on the implementation.

Repaired findings (known_findings_c04.jsonl, status "fixed"; nothing is suppressed): the two classes that used to be
recorded are ordinary cases now, and their witnesses are a dedicated regression stream (REGRESSION_DOCS, run first):
  plain-indented-document-marker        a line of a plain scalar that starts, after indentation, with `---` / `...` +
                                        blank/break/end is plain content (`a<LF> ---` is "a ---"); repaired by 263b504.
  plain-flow-dash-before-flow-indicator in a flow collection a plain scalar whose last word is a lone `-` directly
                                        followed by `,` `]` `}` is accepted (`[a -]` is ["a -"]); repaired by 0b5f0e0.
A case of a class that is still recorded as "known" (none at present) must fail exactly the recorded way, otherwise it is
reported like any other case.
Cases are generated and run in batches of BATCH documents (the thorough tier has about 3 million).
"""
import json
import os
import re
from collections import Counter

from . import core, gen
from .core import Result, enc, fin_pos, prepare, run_hx, run_mx, split_line

PID = "C04"
KNOWN_FILE = os.path.join(core.VERIF, "known_findings_c04.jsonl")

ALPHA = [" ", "\t", "\n", "'", "\"", "\\", "#", ":", "-", ",", "[", "{", "!", "&", "*", "%", "@", "a", "\u00e9",
         "\u0085", "\u00a0", "\u2028", "\u2029", "\ufeff", "\U0001f600", "\x00", "\x07", "\x1b"]
# wider alphabet and words for the random longer targets
ALPHA_WIDE = ALPHA + ["]", "}", "?", "|", ">", "`", ".", "~", "b", "0", "/", "_", "\u4e2d", "\x7e", "\ud7ff", "\ue000",
                      "\ufffd", "\U00010000", "\U0010ffff", "\x08", "\x0b", "\x0c", "\r", "\x1f", "\x7f", "\x80", "\x9f"]
WORDS = ["---", "...", "--- a", "... a", "a ---", "a ...", ": ", " #", "- ", "? ", "a: b", "a #b", "a:b", "a#b", "-a",
         "?a", ":a", "%a", "&a", "*a", "!a", "|", ">", "''", "\"\"", "\\n", "\\", "  ", " \t ", "\n\n", "\n \n",
         "key", "null", "~", "{a}", "[a]", "a,b", "x" * 30, "it's", "say \"hi\"", "\u00e9t\u00e9", "\U0001f600\U0001f600"]

PLAIN_ALPHA = "a -:#,.\n"


class PlainOnly(str):
    """a target that is presented in plain style only"""


NAMED = {0: ["0"], 7: ["a"], 8: ["b"], 9: ["t", "\t"], 10: ["n"], 11: ["v"], 12: ["f"], 13: ["r"], 27: ["e"], 32: [" "],
         34: ["\""], 47: ["/"], 92: ["\\"], 0x85: ["N"], 0xA0: ["_"], 0x2028: ["L"], 0x2029: ["P"]}
INDICATORS = set("-?:,[]{}#&*!|>'\"%@`")
FLOW_IND = set(",[]{}")
BLANK = " \t"


def c_printable(o):
    return (o in (9, 10, 13, 0x85) or 0x20 <= o <= 0x7E or 0xA0 <= o <= 0xD7FF or 0xE000 <= o <= 0xFFFD
            or 0x10000 <= o <= 0x10FFFF)


def ns_char(c):
    o = ord(c)
    return c_printable(o) and o not in (9, 10, 13, 0x20, 0xFEFF)


def literal_ok_quoted(c):
    """nb-json and c-printable, not a break (quotes/backslash are handled by the callers)"""
    o = ord(c)
    return c_printable(o) and o not in (10, 13)


def hexcase(s, rng):
    return "".join(ch.upper() if rng.random() < 0.5 else ch.lower() for ch in s)


def escape_of(c, rng, st):
    o = ord(c)
    opts = []
    if o in NAMED:
        opts += [("named", "\\" + x) for x in NAMED[o]] * 2
    if o <= 0xFF:
        opts.append(("x", "\\x" + hexcase("%02x" % o, rng)))
    if o <= 0xFFFF:
        opts.append(("u", "\\u" + hexcase("%04x" % o, rng)))
    opts.append(("U", "\\U" + hexcase("%08x" % o, rng)))
    k, s = opts[rng.randrange(len(opts))]
    st["esc-" + k] += 1
    return s


class Break:
    __slots__ = ("kind", "pad", "empties", "cont", "nls")

    def __init__(self, kind, nempty, rng, st):
        self.kind = kind
        self.pad = ""
        if kind == "fold" and rng.random() < 0.3:
            self.pad = rng.choice([" ", "  ", "\t", " \t", "\t ", "   "])
            st["trailing-pad"] += 1
        self.empties = []
        for _ in range(nempty):
            r = rng.random()
            if r < 0.5:
                self.empties.append(("short", 0.0))
            elif r < 0.7:
                self.empties.append(("short", rng.random()))
            else:
                self.empties.append(("full", rng.randrange(3), rng.choice(["", "", " ", "\t", " \t"])))
        extra = rng.choice([0, 0, 0, 1, 1, 2, 3, 5])
        blanks = rng.choice(["", "", "", "", "\t", "\t ", " \t"])
        self.cont = (extra, blanks)
        self.nls = [rng.choice(NLS)] * (nempty + 1)     # one break style per fold ("\r" + "" + "\n" would read as ONE break)
        st["break-" + kind] += 1
        if nempty:
            st["empty-lines"] += nempty
        if blanks:
            st["cont-indent-with-tab"] += 1
        if extra:
            st["cont-indent-extra"] += 1


NLS = ["\n"] * 8 + ["\r\n", "\r"]


class Layout:
    """physical lines of one scalar, before the context fixes the indentation"""
    __slots__ = ("lines", "breaks", "style")

    def __init__(self, style, lines, breaks):
        self.style, self.lines, self.breaks = style, lines, breaks

    def render(self, n):
        out = [self.lines[0]]
        for j, br in enumerate(self.breaks):
            out.append(br.pad)
            if br.kind == "esc":
                out.append("\\")
            out.append(br.nls[0])
            for e, nl in zip(br.empties, br.nls[1:]):
                if e[0] == "short":
                    out.append(" " * (int(e[1] * n) if n > 0 else 0))
                else:
                    out.append(" " * (n + e[1]) + e[2])
                out.append(nl)
            ind = " " * (n + br.cont[0]) + br.cont[1]
            content = self.lines[j + 1]
            if ind == "" and (content.startswith("---") or content.startswith("...") or content.startswith("%")):
                ind = " "      # never a document marker / directive look-alike in column 0
            out.append(ind + content)
        return "".join(out)


def present_quoted(text, rng, dq=True, st=None, p_fold=0.4, p_esc=0.3, p_escbrk=0.08, p_hard=0.7):
    st = st if st is not None else Counter()
    q = "\"" if dq else "'"
    n = len(text)
    lines, breaks, cur = [], [], [q]
    prev_lit_blank = False      # the last source character of the current line is a literal blank
    need_nb = False             # the next source character must be a non-blank (we are right after a break)

    def next_ok(j):
        """can text[j] be written as a non-blank source character (or is it the end of the scalar)?"""
        return j >= n or dq or text[j] not in " \t\n"

    def brk(kind, nempty):
        nonlocal cur, prev_lit_blank, need_nb
        lines.append("".join(cur))
        breaks.append(Break(kind, nempty, rng, st))
        cur = []
        prev_lit_blank, need_nb = False, True

    def lf_run(i):
        j = i
        while j < n and text[j] == "\n":
            j += 1
        return j - i

    i = 0
    while i < n:
        c = text[i]
        if dq and not need_nb and rng.random() < p_escbrk:
            k = 0
            if c == "\n" and rng.random() < 0.6:
                k = rng.randint(1, lf_run(i))
                st["escaped-break+empty-lines"] += 1
            brk("esc", k)
            i += k
            continue
        if c == "\n":
            run = lf_run(i)
            can_fold = not need_nb and not prev_lit_blank
            if dq:
                if can_fold and rng.random() < p_hard:
                    k = rng.randint(1, run)
                    brk("fold", k)
                    st["hard-fold"] += 1
                    i += k
                    continue
                cur.append(escape_of(c, rng, st))
                prev_lit_blank, need_nb = False, False
                i += 1
                continue
            if not can_fold or not next_ok(i + run):
                return None
            brk("fold", run)
            st["hard-fold"] += 1
            i += run
            continue
        if c == " " and not need_nb and not prev_lit_blank and next_ok(i + 1) and rng.random() < p_fold:
            brk("fold", 0)
            st["soft-fold"] += 1
            if i == 0:
                st["fold-at-start"] += 1
            if i + 1 == n:
                st["fold-at-end"] += 1
            i += 1
            continue
        lit = literal_ok_quoted(c) and not (need_nb and c in BLANK)
        if dq:
            if c in "\"\\":
                lit = False
            if lit and rng.random() >= p_esc:
                cur.append(c)
                st["literal"] += 1
                prev_lit_blank = c in BLANK
            else:
                cur.append(escape_of(c, rng, st))
                prev_lit_blank = False
        else:
            if not lit:
                return None
            cur.append("''" if c == "'" else c)
            st["literal"] += 1
            if c == "'":
                st["quote-doubled"] += 1
            prev_lit_blank = c in BLANK
        need_nb = False
        i += 1
    if dq and not need_nb and p_escbrk > 0 and rng.random() < 0.03:
        brk("esc", 0)
        st["escaped-break-at-end"] += 1
    cur.append(q)
    lines.append("".join(cur))
    return Layout("D" if dq else "S", lines, breaks)


def plain_feasible(text, flow, multi_ok):
    n = len(text)
    if n == 0 or text[0] in " \t\n" or text[-1] in " \t\n":
        return False
    for i, c in enumerate(text):
        if c == "\n":
            if not multi_ok:
                return False
            if text[i - 1] in BLANK or text[i + 1] in BLANK or text[i + 1] == "#":
                return False
            continue
        if c in BLANK:
            continue
        if not ns_char(c):
            return False
        if flow and c in FLOW_IND:
            return False
        if c == ":":
            if i + 1 >= n or text[i + 1] in " \t\n":
                return False
        if c == "#" and i > 0 and text[i - 1] in " \t\n":
            return False
    c = text[0]
    if c in INDICATORS:
        if c not in "-?:":
            return False
        if n < 2 or text[1] in " \t\n":
            return False
    return True


def present_plain(text, rng, flow, multi_ok, st=None, p_fold=0.4):
    st = st if st is not None else Counter()
    if not plain_feasible(text, flow, multi_ok):
        return None
    n = len(text)
    lines, breaks, cur = [], [], []
    i = 0
    while i < n:
        c = text[i]
        if c == "\n":
            j = i
            while text[j] == "\n":
                j += 1
            lines.append("".join(cur))
            breaks.append(Break("fold", j - i, rng, st))
            st["hard-fold"] += 1
            cur = []
            i = j
            continue
        if (c == " " and multi_ok and text[i - 1] not in " \t\n" and text[i + 1] not in " \t\n"
                and rng.random() < p_fold):
            lines.append("".join(cur))
            breaks.append(Break("fold", 0, rng, st))
            st["soft-fold"] += 1
            cur = []
            i += 1
            continue
        cur.append(c)
        st["literal"] += 1
        i += 1
    lines.append("".join(cur))
    return Layout("P", lines, breaks)


# ------------------------------------------------------------------------------------------------
# reference reader (self-check of the presenters): the folding rules applied to the physical lines
# ------------------------------------------------------------------------------------------------
HEX = "0123456789abcdefABCDEF"
NAMED_INV = {x: o for o, xs in NAMED.items() for x in xs}


def split_breaks(s):
    return re.split(r"\r\n|\r|\n", s)


def ref_read_quoted(src, dq):
    """src: the scalar from its opening to its closing quote.  Returns the text, or None if malformed."""
    q = src[0]
    body = src[1:-1]
    phys = split_breaks(body)
    out = []
    pending = None          # None | ("fold", nbreaks) | ("esc", nempty)
    for li, line in enumerate(phys):
        first, last = li == 0, li == len(phys) - 1
        # decode the line into items: (char, is_literal_blank)
        items, esc_break = [], False
        i = 0
        while i < len(line):
            c = line[i]
            if dq and c == "\\":
                if i + 1 == len(line):
                    if last:
                        return None
                    esc_break = True
                    i += 1
                    continue
                e = line[i + 1]
                if e in NAMED_INV:
                    items.append((chr(NAMED_INV[e]), False))
                    i += 2
                elif e in "xuU":
                    k = {"x": 2, "u": 4, "U": 8}[e]
                    h = line[i + 2:i + 2 + k]
                    if len(h) != k or any(ch not in HEX for ch in h):
                        return None
                    items.append((chr(int(h, 16)), False))
                    i += 2 + k
                else:
                    return None
            elif not dq and c == "'":
                if line[i + 1:i + 2] != "'":
                    return None
                items.append(("'", False))
                i += 2
            else:
                items.append((c, c in BLANK))
                i += 1
        # strip: leading literal blanks unless first line; trailing literal blanks unless last line or escaped break
        a, b = 0, len(items)
        if not first:
            while a < b and items[a][1]:
                a += 1
        if not last and not esc_break:
            while b > a and items[b - 1][1]:
                b -= 1
        content = [x[0] for x in items[a:b]]
        if not first:
            if not content and not last and not esc_break:
                # an empty line
                pending = (pending[0], pending[1] + 1)
                continue
            kind, k = pending
            if kind == "fold":
                out.append(" " if k == 0 else "\n" * k)
            else:
                out.append("\n" * k)
        out += content
        if not last:
            pending = ("esc", 0) if esc_break else ("fold", 0)
    return "".join(out)


def ref_read_plain(src):
    phys = split_breaks(src)
    out, k = [], 0
    for li, line in enumerate(phys):
        t = line.strip(" \t")
        if li == 0:
            out.append(t)
            continue
        if not t:
            k += 1
            continue
        out.append(" " if k == 0 else "\n" * k)
        out.append(t)
        k = 0
    return "".join(out)


# ------------------------------------------------------------------------------------------------
# contexts
# ------------------------------------------------------------------------------------------------
def P(text):
    return ("SC", "P", text)


def parents(depth, w):
    pre, evs = "", []
    for i in range(depth):
        pre += " " * (i * w) + "p%d:\n" % i
        evs += ["MS", P("p%d" % i)]
    return pre, evs, ["ME"] * depth, depth * w


def tail(rng, st):
    t = rng.choice(["\n", "\n", "\n", "", " \n", "  \n", " # c\n", "\t\n", "\r\n"])
    if t not in ("\n", ""):
        st["trailing:" + {" \n": "blank", "  \n": "blank", " # c\n": "comment", "\t\n": "tab", "\r\n": "crlf"}[t]] += 1
    return t


def ctx_top(rng, st):
    pre = rng.choice(["", "", "--- ", "---\n", "--- \n"])
    post = rng.choice([tail(rng, st), "\n...\n"])
    return dict(name="top", pre=pre, post=post, n=0, multi=True, flow=False, before=["DS"], after=["DE"],
                explicit=pre != "")


def ctx_block_value(rng, st):
    d, w = rng.randrange(3), rng.randint(1, 4)
    pre, ev, evp, b = parents(d, w)
    sep = rng.choice([" ", " ", " ", "  ", "\n" + " " * (b + 1 + rng.randrange(3))])
    return dict(name="block-value" + ("/next-line" if sep[0] == "\n" else ""), pre=pre + " " * b + "key:" + sep,
                post=tail(rng, st) or "\n", n=b + 1, multi=True, flow=False,
                before=["DS"] + ev + ["MS", P("key")], after=["ME"] + evp + ["DE"], depth=d)


def ctx_block_key(rng, st):
    d, w = rng.randrange(3), rng.randint(1, 4)
    pre, ev, evp, b = parents(d, w)
    if rng.random() < 0.15:
        # the key's ':' ends the INPUT (or the line): the value is left out.  The end-of-input shape is what the byte-level
        # StrInput::next_can_be_plain_scalar decides on its own path (seeded change C04-4).
        post = rng.choice([":", ":", " :", ":\n", ": \n"])
        st["block-key:value-left-out"] += 1
        return dict(name="block-key", pre=pre + " " * b, post=post, n=b + 1, multi=False, flow=False,
                    before=["DS"] + ev + ["MS"], after=[("SC", "P", "~")] + ["ME"] + evp + ["DE"], depth=d, col0=(b == 0))
    post = rng.choice([": v", ": v", " : v", ":  v"]) + "\n"
    more = rng.random() < 0.3
    if more:
        post += " " * b + "z: w\n"
    return dict(name="block-key", pre=pre + " " * b, post=post, n=b + 1, multi=False, flow=False,
                before=["DS"] + ev + ["MS"], after=[P("v")] + ([P("z"), P("w")] if more else []) + ["ME"] + evp + ["DE"],
                depth=d, col0=(b == 0))


def ctx_explicit_key(rng, st):
    d, w = rng.randrange(3), rng.randint(1, 4)
    pre, ev, evp, b = parents(d, w)
    return dict(name="explicit-key", pre=pre + " " * b + "? ", post="\n" + " " * b + ": v\n", n=b + 1, multi=True,
                flow=False, before=["DS"] + ev + ["MS"], after=[P("v"), "ME"] + evp + ["DE"], depth=d)


def ctx_seq_entry(rng, st):
    d, w = rng.randrange(2), rng.randint(1, 4)
    pre, ev, evp, b = parents(d, w)
    k = rng.randint(1, 3)
    more = rng.random() < 0.3
    post = tail(rng, st) or "\n"
    if more:
        if not post.endswith(("\n", "\r")):
            post += "\n"
        post += " " * (b + 2 * (k - 1)) + "- z\n"
    return dict(name="seq-entry" + ("/compact-nested" if k > 1 else ""), pre=pre + " " * b + "- " * k, post=post,
                n=b + 2 * (k - 1) + 1, multi=True, flow=False, before=["DS"] + ev + ["QS"] * k,
                after=([P("z")] if more else []) + ["QE"] * k + evp + ["DE"], depth=d)


def ctx_indentless_seq(rng, st):
    return dict(name="seq-entry/indentless-under-key", pre="k:\n- ", post=tail(rng, st) or "\n", n=1, multi=True, flow=False,
                before=["DS", "MS", P("k"), "QS"], after=["QE", "ME", "DE"])


def flow_host(rng):
    """where a flow collection sits: top level or as a block mapping value"""
    if rng.random() < 0.5:
        return "", ["DS"], ["DE"], 0, "top"
    d, w = rng.randrange(2), rng.randint(1, 4)
    pre, ev, evp, b = parents(d, w)
    return pre + " " * b + "key: ", ["DS"] + ev + ["MS", P("key")], ["ME"] + evp + ["DE"], b + 1, "in-block"


def flow_open(rng, n, st):
    """what follows the opening bracket before the scalar: nothing, a space, or a line break + indentation"""
    r = rng.random()
    if r < 0.4:
        return ""
    if r < 0.8:
        return " "
    st["flow:scalar-on-own-line"] += 1
    return "\n" + " " * (n + rng.randrange(3))


def flow_close(rng, n):
    r = rng.random()
    if r < 0.5:
        return ""
    if r < 0.85:
        return " "
    return "\n" + " " * (n + rng.randrange(3))


def ctx_flow_seq(rng, st):
    pre, ev, evp, n, host = flow_host(rng)
    lead = rng.random() < 0.4
    trail = rng.random() < 0.4
    nest = rng.random() < 0.25
    o = ("[" if not nest else "[[") + flow_open(rng, n, st) + ("x, " if lead else "")
    c = (rng.choice([", y", " , y", ",y"]) if trail else "") + flow_close(rng, n) + ("]" if not nest else "]]")
    return dict(name="flow-seq-entry/" + host + ("/nested" if nest else ""), pre=pre + o, post=c + "\n", n=n, multi=True, flow=True,
                before=ev + ["QS"] * (2 if nest else 1) + ([P("x")] if lead else []),
                after=([P("y")] if trail else []) + ["QE"] * (2 if nest else 1) + evp)


def ctx_flow_map_value(rng, st):
    pre, ev, evp, n, host = flow_host(rng)
    inseq = rng.random() < 0.2
    o = ("[" if inseq else "") + "{" + rng.choice(["", " "]) + "k: "
    trail = rng.random() < 0.3
    c = (", y: z" if trail else "") + flow_close(rng, n) + "}" + ("]" if inseq else "")
    return dict(name="flow-map-value/" + host, pre=pre + o, post=c + "\n", n=n, multi=True, flow=True,
                before=ev + (["QS"] if inseq else []) + ["MS", P("k")],
                after=([P("y"), P("z")] if trail else []) + ["ME"] + (["QE"] if inseq else []) + evp)


def ctx_flow_map_key(rng, st):
    pre, ev, evp, n, host = flow_host(rng)
    o = "{" + flow_open(rng, n, st)
    c = rng.choice([": v", ": v", " : v"]) + flow_close(rng, n) + "}"
    return dict(name="flow-map-key/" + host, pre=pre + o, post=c + "\n", n=n, multi=True, flow=True, keymulti=True,
                before=ev + ["MS"], after=[P("v"), "ME"] + evp)


def ctx_flow_pair_key(rng, st):
    pre, ev, evp, n, host = flow_host(rng)
    o = "[" + rng.choice(["", " "])
    c = rng.choice([": v", " : v"]) + rng.choice(["", " "]) + "]"
    return dict(name="flow-seq-single-pair-key/" + host, pre=pre + o, post=c + "\n", n=n, multi=False, flow=True,
                before=ev + ["QS", "MS"], after=[P("v"), "ME", "QE"] + evp)


CONTEXTS = [ctx_top, ctx_block_value, ctx_block_key, ctx_explicit_key, ctx_seq_entry, ctx_indentless_seq, ctx_flow_seq,
            ctx_flow_map_value, ctx_flow_map_key, ctx_flow_pair_key, ctx_block_value, ctx_flow_seq, ctx_top]

MARKER = re.compile(r"^(---|\.\.\.)([ \t\n\r]|$)")


def build_case(text, style, ctxf, rng, st):
    """one document: returns dict(doc, expected, ...) or None when (text, style, context) is not presentable"""
    ctx = ctxf(rng, st)
    if style == "P":
        lay = present_plain(text, rng, ctx["flow"], ctx["multi"], st)
        if lay is None:
            return None
        # a plain scalar that starts in column 0 must not read as a document marker
        starts_col0 = ctx["pre"] == "" or ctx["pre"].endswith("\n")
        if starts_col0 and MARKER.match(lay.lines[0] + ("\n" if len(lay.lines) > 1 else ctx["post"][:1] or "\n")):
            if ctx["name"] != "top":
                return None
            ctx["pre"] = "--- "
    else:
        lay = present_quoted(text, rng, style == "D", st)
        if lay is None:
            return None
        if not ctx["multi"] and lay.breaks:
            # implicit keys are single-line: present again without line structure
            lay = present_quoted(text, rng, style == "D", st, p_fold=0.0, p_escbrk=0.0, p_hard=0.0)
            if lay is None or lay.breaks:
                return None
    src = lay.render(ctx["n"])
    if not ctx["multi"] and len(src) > 1000:
        return None
    doc = ctx["pre"] + src + ctx["post"]
    expected = ["SS"] + ctx["before"] + [("SC", style, text)] + ctx["after"] + ["SE"]
    return dict(doc=doc, expected=expected, text=text, style=style, context=ctx["name"], src=src, flow=ctx["flow"],
                post=ctx["post"], nbreaks=len(lay.breaks))


# ------------------------------------------------------------------------------------------------
# reading the implementation's answer
# ------------------------------------------------------------------------------------------------
def project(line):
    """events line -> ([kind | ("SC", style, text)], verdict)"""
    evs, fin = split_line(line)
    out = []
    for e in evs:
        b = e.rsplit("@", 1)[0]
        if b.startswith("SC"):
            parts = b[2:].split(",")
            txt = "".join(chr(int(x)) for x in parts[-1].split(".")) if parts[-1] else ""
            out.append(("SC", parts[0], txt))
        elif b.startswith("DS"):
            out.append("DS")
        elif b[:2] in ("QS", "MS"):
            out.append(b[:2])
        else:
            out.append(b)
    return out, fin


def coq_spec_tables():
    """the escape tables of coq/Spec/FlowFold.v (the ones the theorems are stated with), read from the source"""
    src = open(os.path.join(core.COQ, "Spec", "FlowFold.v"), encoding="utf-8").read()
    src = re.sub(r"\(\*.*?\*\)", "", src, flags=re.S)
    m = re.search(r"Definition spec_named_escapes[^=]*:=\s*\[(.*?)\]\.", src, re.S)
    named = sorted((int(a), int(b)) for a, b in re.findall(r"\((\d+),\s*(\d+)\)", m.group(1))) if m else None
    m = re.search(r"Definition spec_numeric_escapes[^=]*:=\s*\[(.*?)\]\.", src, re.S)
    numeric = sorted((int(a), int(b)) for a, b in re.findall(r"\((\d+),\s*(\d+)%nat\)", m.group(1))) if m else None
    return named, numeric


def presenter_tables():
    return (sorted((ord(x), o) for o, xs in NAMED.items() for x in xs), sorted([(ord("x"), 2), (ord("u"), 4), (ord("U"), 8)]))


def load_known():
    out = []
    if os.path.exists(KNOWN_FILE):
        for l in open(KNOWN_FILE):
            l = l.strip()
            if l:
                d = json.loads(l)
                if d.get("property") == PID and d.get("status") == "known":
                    out.append(d)
    return out


# ------------------------------------------------------------------------------------------------
# recorded finding classes: decidable predicates on the generated case, and what the implementation is then
# required to do (anything else stays a violation).  No class is recorded at present: the two former ones were
# repaired in /repo (263b504, 0b5f0e0) and are "fixed" entries of known_findings_c04.jsonl, which suppress nothing.
# ------------------------------------------------------------------------------------------------
KNOWN_PREDICATES = {
    # class -> (predicate on the case, required behaviour of the implementation for cases of the class)
}


# ------------------------------------------------------------------------------------------------
# regression stream: the witnesses of the repaired findings as fixed documents with their expected events
# ------------------------------------------------------------------------------------------------
def _reg(doc, expected, text, context, flow, src, post):
    return dict(doc=doc, expected=["SS"] + expected + ["SE"], text=text, style="P", context="regression/" + context,
                src=src, flow=flow, post=post, nbreaks=src.count("\n"))


REGRESSION_DOCS = [
    # 263b504: an indented `---` / `...` line is content of the plain scalar
    _reg("a\n ---\n", ["DS", P("a ---"), "DE"], "a ---", "indented-marker", False, "a\n ---", "\n"),
    _reg("k:\n  --- a\n", ["DS", "MS", P("k"), P("--- a"), "ME", "DE"], "--- a", "indented-marker", False, "--- a", "\n"),
    _reg(" --- a: v\n", ["DS", "MS", P("--- a"), P("v"), "ME", "DE"], "--- a", "indented-marker", False, "--- a", ": v\n"),
    _reg("k: a\n  ...\n", ["DS", "MS", P("k"), P("a ..."), "ME", "DE"], "a ...", "indented-marker", False, "a\n  ...", "\n"),
    _reg("[\n ... ]\n", ["DS", "QS", P("..."), "QE", "DE"], "...", "indented-marker", True, "...", " ]\n"),
    _reg("k: a\n  ---\n  b\n", ["DS", "MS", P("k"), P("a --- b"), "ME", "DE"], "a --- b", "indented-marker", False,
         "a\n  ---\n  b", "\n"),
    _reg("- a\n\n  ... b\n", ["DS", "QS", P("a\n... b"), "QE", "DE"], "a\n... b", "indented-marker", False,
         "a\n\n  ... b", "\n"),
    # 0b5f0e0: '-' before a flow indicator is refused only as the first character of the scalar
    _reg("[a -]\n", ["DS", "QS", P("a -"), "QE", "DE"], "a -", "dash-before-flow-indicator", True, "a -", "]\n"),
    _reg("{k: a -}\n", ["DS", "MS", P("k"), P("a -"), "ME", "DE"], "a -", "dash-before-flow-indicator", True, "a -", "}\n"),
    _reg("[a\n  -, b]\n", ["DS", "QS", P("a -"), P("b"), "QE", "DE"], "a -", "dash-before-flow-indicator", True,
         "a\n  -", ", b]\n"),
    _reg("[a - -]\n", ["DS", "QS", P("a - -"), "QE", "DE"], "a - -", "dash-before-flow-indicator", True, "a - -", "]\n"),
    _reg("[x, a\t-]\n", ["DS", "QS", P("x"), P("a\t-"), "QE", "DE"], "a\t-", "dash-before-flow-indicator", True, "a\t-", "]\n"),
]
# ... and what must still be refused / still ends the scalar (the repairs did not overshoot)
REGRESSION_REJECTED = ["[-]\n", "[-, a]\n", "{-}\n", "[ -]\n"]
REGRESSION_SPLIT = [("a\n---\n", ["SS", "DS", P("a"), "DE", "DS", ("SC", "P", "~"), "DE", "SE"]),
                    ("a\n...\n", ["SS", "DS", P("a"), "DE", "SE"])]


def targets(tier, rng):
    """(label, iterable of target strings); the exhaustive part is a generator (614k strings in the thorough tier)"""
    groups = []
    maxlen = 3 if tier == "quick" else 4
    groups.append(("words", list(WORDS)))
    groups.append(("exhaustive<=%d/%d" % (maxlen, len(ALPHA)), gen.exhaustive(ALPHA, maxlen)))
    # plain-friendly alphabet, longer strings (folding targets, indicators inside words, `---` / `...` words)
    pl = 5 if tier == "quick" else 6
    groups.append(("plain-exhaustive<=%d/%d (plain style only)" % (pl, len(PLAIN_ALPHA)),
                   (PlainOnly(t) for t in gen.exhaustive(PLAIN_ALPHA, pl) if plain_feasible(t, False, True))))
    rnd = []
    for _ in range(6000 if tier == "quick" else 150000):
        k = rng.randint(4, 24)
        r = rng.random()
        if r < 0.4:
            rnd.append("".join(rng.choice(ALPHA) for _ in range(k)))
        elif r < 0.6:
            rnd.append("".join(rng.choice(ALPHA_WIDE) for _ in range(k)))
        elif r < 0.85:
            # word-like: mostly letters with single spaces / newlines (folding targets, plain-safe)
            rnd.append("".join(rng.choice("abé-:#.,a a a\n") for _ in range(k)).strip(" \n") or "a")
        else:
            rnd.append("".join(rng.choice(WORDS + ALPHA) for _ in range(rng.randint(2, 6))))
    groups.append(("random-4..24", rnd))
    longs = []
    for _ in range(40 if tier == "quick" else 400):
        k = rng.choice([127, 128, 129, 255, 256, 257, 500, 900])
        longs.append("".join(rng.choice("ab éa:a-a\U0001f600") for _ in range(k)).strip() or "a")
    groups.append(("long-127..900 (plain chunk boundary of 128)", longs))
    return groups


NOTES = ("theorems: T1/T2 full (escape tables, hexadecimal, resolve_escape); T3 the quoted character loop for all words "
         "with escapes and all single-line quoted scalars; T4 plain scalars (see coq/Properties/C04.v); T5 multi-line "
         "folding of quoted scalars (see coq/Properties/C04.v); CR / CRLF breaks, the buffered input and the syntactic "
         "context above the scanner are covered by the differential run only; the two former findings are repaired "
         "(263b504, 0b5f0e0) and run as a regression stream")
STYLE_NAME = {"D": "double-quoted", "S": "single-quoted", "P": "plain"}
BATCH = 150000


class Tally:
    def __init__(self):
        self.st = Counter()              # presenter choices
        self.ctx = Counter()
        self.styles = Counter()
        self.skipped = Counter()
        self.outcome = Counter()
        self.kn_hits = Counter()
        self.kn_example = {}
        self.multi = 0
        self.ndocs = 0
        self.selfcheck_bad = 0
        self.ci = 0
        self.sample_pool = []


def make_cases(t, rng, ta, docs_seen):
    out = []
    plan = (("D", 2), ("S", 1), ("P", 2)) if len(t) <= 4 else (("D", 3), ("S", 2), ("P", 3))
    if isinstance(t, PlainOnly):
        plan = (("P", 3),)
        t = str(t)
    for style, reps in plan:
        for _ in range(reps):
            ctxf = CONTEXTS[ta.ci % len(CONTEXTS)]
            ta.ci += 1
            c = build_case(t, style, ctxf, rng, ta.st)
            if c is None:
                ta.skipped[style] += 1
                continue
            h = hash(c["doc"])
            if h in docs_seen:
                continue
            docs_seen.add(h)
            out.append(c)
    return out


def run_batch(cases, res, ta, known):
    """both sides on one batch of cases; the verdicts go into res / ta"""
    for c in cases:
        style, t = c["style"], c["text"]
        back = ref_read_plain(c["src"]) if style == "P" else ref_read_quoted(c["src"], style == "D")
        if back != t:
            ta.selfcheck_bad += 1
            if ta.selfcheck_bad <= 10:
                res.add_tie_break("presenter self-check: the reference reader does not recover the target from the presentation",
                                  target=t, style=style, src=c["src"], reference_reads=back)
        ta.ctx[c["context"]] += 1
        ta.styles[style] += 1
        ta.multi += 1 if c["nbreaks"] else 0
    ta.ndocs += len(cases)
    if not (res.harness_ok and res.model_ok):
        return
    lines = [enc(c["doc"]) for c in cases]
    impl = {b: run_hx(["events", b], lines) for b in ("str", "iter")}
    model = run_mx(["events", "str"], lines)
    for i, c in enumerate(cases):
        res.evaluations += 1
        src = c["src"]
        if c["nbreaks"] or (c["style"] == "D" and "\\" in src) or (c["style"] == "S" and "''" in src[1:-1]):
            res.nontrivial.add(hash(c["doc"]))
        cls = None
        for k in known:
            pr = KNOWN_PREDICATES.get(k["class"])
            if pr and pr[0](c):
                cls = k["class"]
                break
        for b in ("str", "iter"):
            got, fin = project(impl[b][i])
            if cls is not None:
                # a recorded finding: the implementation must fail exactly the recorded way
                if KNOWN_PREDICATES[cls][1](got, fin):
                    ta.kn_hits[cls] += 1
                    ta.kn_example.setdefault(cls, (c["doc"], impl[b][i][-120:]))
                    ta.outcome["known:" + cls] += 1
                    continue
                if fin == "OK" and got == c["expected"]:
                    ta.outcome["ok (in a recorded class: the defect no longer shows)"] += 1
                    continue
            elif fin == "OK" and got == c["expected"]:
                ta.outcome["ok"] += 1
                continue
            sc = [e for e in got if isinstance(e, tuple) and e[1] == c["style"]]
            if fin != "OK":
                what = "the rendered document is rejected (%s)" % fin[:120]
            elif [e if isinstance(e, str) else "SC" for e in got] != [e if isinstance(e, str) else "SC" for e in c["expected"]]:
                what = "the rendered document is read with a different structure"
            else:
                what = "scalar text or style differs from the target"
            ta.outcome["bad"] += 1
            if len(res.violations) < 200:
                res.add_violation("%s scalar in context %s (back-end %s): %s" % (STYLE_NAME[c["style"]], c["context"], b, what),
                                  dict(input=c["doc"], codepoints=lines[i], backend=b, target=c["text"], target_codepoints=enc(c["text"]),
                                       style=c["style"], context=c["context"], scalar_source=src),
                                  impl=impl[b][i][-500:], got_scalars=[list(e) for e in sc][:4])
        me, mf = split_line(model[i])
        ie, if_ = split_line(impl["str"][i])
        if me != ie or fin_pos(mf) != fin_pos(if_):
            ta.outcome["model-mismatch"] += 1
            if len(res.tie_breaks) < 50:
                res.add_tie_break("correspondence: model pipeline != implementation (events with spans, verdict)", case=c["doc"],
                                  model=model[i][-400:], impl=impl["str"][i][-400:])
    for i in (11, len(cases) // 3, len(cases) // 2, len(cases) - 9):
        if 0 <= i < len(cases) and len(ta.sample_pool) < 8:
            c = cases[i]
            ta.sample_pool.append(dict(target=c["text"], style=c["style"], context=c["context"], document=c["doc"],
                                       impl=impl["str"][i][-160:]))


def run_regression_negative(res, ta):
    """the other side of the two repairs: '-' + flow indicator as the FIRST character is still refused, a marker in
    column 0 still ends the scalar (both back-ends; the model must agree)"""
    if not (res.harness_ok and res.model_ok):
        return
    docs = REGRESSION_REJECTED + [d for d, _ in REGRESSION_SPLIT]
    lines = [enc(d) for d in docs]
    impl = {b: run_hx(["events", b], lines) for b in ("str", "iter")}
    model = run_mx(["events", "str"], lines)
    for i, d in enumerate(docs):
        res.evaluations += 1
        ta.ndocs += 1
        ta.ctx["regression/negative"] += 1
        for b in ("str", "iter"):
            got, fin = project(impl[b][i])
            if i < len(REGRESSION_REJECTED):
                good = fin.startswith("ERR@") and "plain scalar cannot start with '-'" in fin
                what = "a plain scalar starting with '-' + flow indicator must be refused"
            else:
                good = fin == "OK" and got == REGRESSION_SPLIT[i - len(REGRESSION_REJECTED)][1]
                what = "a document marker in column 0 must end the plain scalar"
            if good:
                ta.outcome["ok"] += 1
            else:
                ta.outcome["bad"] += 1
                res.add_violation("regression stream (back-end %s): %s" % (b, what),
                                  dict(input=d, codepoints=lines[i], backend=b), impl=impl[b][i][-500:])
        me, mf = split_line(model[i])
        ie, if_ = split_line(impl["str"][i])
        if me != ie or fin_pos(mf) != fin_pos(if_):
            ta.outcome["model-mismatch"] += 1
            res.add_tie_break("correspondence: model pipeline != implementation (events with spans, verdict)", case=d,
                              model=model[i][-400:], impl=impl["str"][i][-400:])


def check_C04(tier, seed):
    res = Result(PID, tier, seed)
    proof = prepare(PID, res)
    rng = gen.rng_for(seed, PID)
    ta = Tally()
    known = load_known()
    # the presenter's escape table is the table of the Coq specification (which T1 proves equal to the generated one)
    if coq_spec_tables() != presenter_tables():
        res.add_tie_break("the presenter's escape tables differ from coq/Spec/FlowFold.v (spec_named_escapes / spec_numeric_escapes)",
                          coq=coq_spec_tables(), python=presenter_tables())
    run_batch([dict(c) for c in REGRESSION_DOCS], res, ta, known)
    run_regression_negative(res, ta)
    seen, docs_seen, dist = set(), set(), {}
    batch = []
    ntargets = 0
    for label, items in targets(tier, rng):
        k = 0
        for t in items:
            key = (t, isinstance(t, PlainOnly))
            if key in seen:
                continue
            seen.add(key)
            k += 1
            batch += make_cases(t, rng, ta, docs_seen)
            if len(batch) >= BATCH:
                run_batch(batch, res, ta, known)
                batch = []
        dist[label] = k
        ntargets += k
    if batch:
        run_batch(batch, res, ta, known)
    res.coverage["input_distribution"] = dict(
        target_groups=dist, targets=ntargets, documents=ta.ndocs, styles=dict(ta.styles), contexts=dict(ta.ctx),
        not_presentable=dict(ta.skipped), presenter_choices=dict(ta.st), multi_line_documents=ta.multi,
        alphabet=[("U+%04X" % ord(c)) for c in ALPHA])
    res.coverage["exhaustive"] = False
    res.coverage["outcomes"] = dict(ta.outcome)
    res.coverage["traces_validated_against_impl"] = res.evaluations
    res.coverage["known_finding_cases"] = dict(ta.kn_hits)
    res.coverage["presenter_selfcheck_failures"] = ta.selfcheck_bad
    for cls, n in sorted(ta.kn_hits.items()):
        res.known.append("%s: %d runs (cases x back-ends) of the recorded class fail the recorded way; e.g. %r -> %s"
                         % (cls, n, ta.kn_example[cls][0], ta.kn_example[cls][1]))
    res.samples = ta.sample_pool
    if tier == "thorough" and proof.get("ok"):
        with core.Lock():
            ok, out = core.coqchk(PID)
        res.coverage["coqchk"] = "ok" if ok else "FAILED"
        if not ok:
            res.add_tie_break("coqchk rejects the compiled proofs", error=out[-1500:])
    res.notes.append(NOTES)
    rule = ("targets: every string of length <= %d over the %d-symbol tricky alphabet, every plain-presentable string of length <= 5 "
            "(quick) / 6 (thorough) over the 8-symbol plain alphabet, a word list, random strings of length 4-24 "
            "and long strings around the 128-character chunk boundary; each presented 2-3 times per style (double, single, plain "
            "where presentable) with random escape/literal, fold/escaped-break, indentation and padding choices, contexts taken "
            "round-robin from %d builders; evaluations = documents (each run through both back-ends and the model); non-trivial = "
            "distinct documents whose scalar spans several lines, contains an escape or a doubled quote"
            % (3 if tier == "quick" else 4, len(ALPHA), len(CONTEXTS)))
    return res.finish(proof, rule)
