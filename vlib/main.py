"""./check entry point."""
import os
import sys

from . import core


def setup():
    t = core.Timer()
    with core.Lock():
        ok, msg, sha = core.gen_tables()
        core.log("[setup] translator:", msg[-300:], sha)
        if not ok:
            return 1
        core.coq_makefile()
        # build the dependency cones of the registered properties (and, best effort, everything else)
        import json
        man = json.load(open(os.path.join(core.VERIF, "MANIFEST.json")))
        claimed = [c["property_id"] for c in man["checks"]]
        targets = ["Properties/%s.vo" % p for p in claimed]
        # -k: a cone that does not build is reported by that property's own check (which rebuilds it and names the
        # broken obligation); it must not take the setup of the other properties down with it
        rc, out = core.sh(["make", "-k", "-j%d" % core.NPROC] + targets, cwd=core.COQ, timeout=7000)
        core.log(out[-1500:])
        if rc != 0:
            core.log("[setup] WARNING: some property cones do not build (their checks will report it)")
        core.sh(["make", "-k", "-j%d" % core.NPROC], cwd=core.COQ, timeout=7000)
        import glob
        tags = [""] + sorted(os.path.basename(p)[7:-2] for p in glob.glob(os.path.join(core.COQ, "Extract", "Extract?*.v")))
        for tag in tags:
            ok, out = core.build_model(tag)
            core.log("[setup] model %r:" % tag, out[-500:])
            if not ok and (tag == "" or tag in claimed):
                return 1
        ok, out = core.build_harness()
        core.log("[setup] harness:", out[-500:])
        if not ok:
            return 1
        ok, out = core.build_harness(release=True)
        core.log("[setup] harness (release):", out[-500:])
        if not ok:
            return 1
    core.log("[setup] done in %.1fs" % t.s())
    return 0


def main(argv):
    if not argv:
        print("usage: check <property> [quick|thorough] [--replay file] | check --setup", file=sys.stderr)
        return 2
    if argv[0] == "--setup":
        return setup()
    pid = argv[0]
    tier = os.environ.get("VERIF_TIER", "quick")
    replay = None
    i = 1
    while i < len(argv):
        if argv[i] in ("quick", "thorough"):
            tier = argv[i]
        elif argv[i] == "--replay":
            replay = argv[i + 1]
            i += 1
        i += 1
    seed = int(os.environ.get("VERIF_SEED", "20260929"))
    from . import props
    import importlib
    fn = getattr(props, "check_" + pid, None)
    if fn is None:
        try:
            mod = importlib.import_module("vlib.p_" + pid.lower())
            fn = getattr(mod, "check_" + pid, None)
        except ImportError:
            fn = None
    if fn is None:
        print("no check for", pid, file=sys.stderr)
        return 2
    if replay:
        return props.replay(pid, replay)
    return fn(tier, seed)


if __name__ == "__main__":
    sys.exit(main(sys.argv[1:]))
