"""Shared machinery of ./check: building (translator, Coq, extraction, OCaml driver, Rust harness),
the proof audit, running model and implementation on the same cases, evidence and verdicts."""
import fcntl
import hashlib
import json
import os
import re
import subprocess
import sys
import time

VERIF = os.path.dirname(os.path.dirname(os.path.abspath(__file__)))
REPO = os.environ.get("VERIF_REPO", "/repo")
COQ = os.path.join(VERIF, "coq")
BUILD = os.path.join(VERIF, "build")
OCAML_BUILD = os.path.join(BUILD, "ocaml")
CARGO_TARGET = os.path.join(BUILD, "cargo")
HX = os.path.join(CARGO_TARGET, "debug", "hx")
HX_REL = os.path.join(CARGO_TARGET, "release", "hx")
MX = os.path.join(OCAML_BUILD, "mx")
REPLAYS = os.path.join(VERIF, "replays")
EVIDENCE = os.path.join(VERIF, "evidence")
NPROC = min(16, os.cpu_count() or 4)

ENV = dict(os.environ)
ENV.update({"CARGO_NET_OFFLINE": "true", "CARGO_TARGET_DIR": CARGO_TARGET,
            "RUSTFLAGS": "--cfg saphyr_verif"})
# VERIF_COVERAGE=1 (tools/coverage.sh, never set by the registered commands): build the harness with source-based
# coverage instrumentation into its own target directory and let every harness process write a profile; the report
# shows which lines of /repo the generators of a check reach (lines no input reaches are where a change can hide)
COVERAGE = os.environ.get("VERIF_COVERAGE") == "1"
if COVERAGE:
    CARGO_TARGET = os.path.join(BUILD, "cov")
    HX = os.path.join(CARGO_TARGET, "debug", "hx")
    HX_REL = HX
    ENV.update({"CARGO_TARGET_DIR": CARGO_TARGET, "RUSTFLAGS": "--cfg saphyr_verif -C instrument-coverage",
                "RUSTUP_TOOLCHAIN": "nightly", "LLVM_PROFILE_FILE": os.path.join(CARGO_TARGET, "prof", "%8m.profraw")})

FORBIDDEN = re.compile(
    r"\b(Admitted|admit|Axiom|Axioms|Parameter|Parameters|Conjecture|Conjectures|Admit Obligations|"
    r"bypass_check|native_compute)\b|Unset\s+Guard|Unset\s+Positivity|Unset\s+Universe|type-in-type|impredicative-set")
# axioms of the Coq standard library that a property theorem may depend on (none needed so far)
AXIOM_ALLOW = set()

TRUSTED_BASE = [
    "Coq 8.16.1 kernel (coqc); vm_compute for finite table facts; no native_compute; thorough tier re-checks with coqchk",
    "no axioms: every property theorem must print 'Closed under the global context'",
    "tools/gen_tables.py (translator: character classes, escape/quoting/resolver tables, constants and guards, the scanner's dispatcher and the parser's node dispatcher -> coq/Gen/*.v)",
    "extraction with ExtrOcamlBasic only (no Extract Constant / no further Extract Inductive); ocamlfind ocamlopt 4.13.1; ocaml/driver.ml",
    "harness/ (Rust, links /repo's working tree with --cfg saphyr_verif) and this Python driver: feed identical inputs, compare honestly",
    "the hand-written Gallina model is tied to the code only by the table translator and the differential correspondence run",
]


class Timer:
    def __init__(self):
        self.t0 = time.time()

    def s(self):
        return round(time.time() - self.t0, 2)


def log(*a):
    print(*a, file=sys.stderr, flush=True)


def sh(cmd, cwd=None, timeout=3600, env=None, check=False, input=None):
    p = subprocess.run(cmd, cwd=cwd, shell=isinstance(cmd, str), env=env or ENV, timeout=timeout,
                       stdout=subprocess.PIPE, stderr=subprocess.STDOUT, input=input)
    out = p.stdout.decode("utf-8", "replace")
    if check and p.returncode != 0:
        raise RuntimeError("command failed: %s\n%s" % (cmd, out[-4000:]))
    return p.returncode, out


class Lock:
    """Serialises builds when several checks run at once."""

    def __enter__(self):
        os.makedirs(BUILD, exist_ok=True)
        self.f = open(os.path.join(BUILD, ".lock"), "w")
        fcntl.flock(self.f, fcntl.LOCK_EX)
        return self

    def __exit__(self, *a):
        fcntl.flock(self.f, fcntl.LOCK_UN)
        self.f.close()


# ------------------------------------------------------------------------------------------------
# building
# ------------------------------------------------------------------------------------------------
def gen_tables():
    """Translator: regenerate coq/Gen/*.v from the Rust sources; returns (ok, message, sha)."""
    script = os.path.join(VERIF, "tools", "gen_tables.py")
    if not os.path.exists(script):
        return True, "no translator yet", ""
    rc, out = sh([sys.executable, script, REPO, os.path.join(COQ, "Gen")])
    sha = hashlib.sha256()
    gd = os.path.join(COQ, "Gen")
    for f in sorted(os.listdir(gd)):
        if f.endswith(".v"):
            sha.update(open(os.path.join(gd, f), "rb").read())
    return rc == 0, out.strip(), sha.hexdigest()[:16]


COQ_DIRS = ["Gen", "Model", "Spec", "Proofs", "Properties"]


def coq_makefile():
    """_CoqProject is generated: every .v file under coq/{Gen,Model,Spec,Proofs,Properties} is part of the
    development (coqdep orders them).  Extract/*.v are compiled separately into build/."""
    files = []
    for d in COQ_DIRS:
        dd = os.path.join(COQ, d)
        if os.path.isdir(dd):
            files += sorted("%s/%s" % (d, f) for f in os.listdir(dd) if f.endswith(".v"))
    txt = "-R . Saphyr\n-arg -w -arg -notation-overridden,-deprecated-hint-without-locality,-ambiguous-paths\n" + "\n".join(files) + "\n"
    proj = os.path.join(COQ, "_CoqProject")
    old = open(proj).read() if os.path.exists(proj) else None
    mk = os.path.join(COQ, "Makefile")
    if old != txt or not os.path.exists(mk):
        with open(proj, "w") as f:
            f.write(txt)
        sh("coq_makefile -f _CoqProject -o Makefile", cwd=COQ, check=True)


def coq_build(targets, timeout=3000):
    """make the given .vo targets (full .vo build of their dependency cone). Returns (ok, output)."""
    coq_makefile()
    rc, out = sh(["make", "-j%d" % NPROC] + targets, cwd=COQ, timeout=timeout)
    return rc == 0, out


def coq_check_property(pid):
    """(Re)compile coq/Properties/<pid>.v and everything it depends on; audit what it printed.
    Returns dict(ok, obligations, discharged, broken, assumptions, output)."""
    vfile = os.path.join(COQ, "Properties", pid + ".v")
    res = dict(ok=False, obligations=0, discharged=0, broken=[], assumptions=[], output="", statements=[])
    src = re.sub(r"\(\*.*?\*\)", "", open(vfile).read(), flags=re.S)
    theorems = re.findall(r"^\s*(?:Theorem|Corollary)\s+([A-Za-z0-9_']+)", src, re.M)
    res["obligations"] = len(theorems)
    res["statements"] = theorems
    vo = vfile[:-2] + ".vo"
    if os.path.exists(vo):
        os.remove(vo)
    ok, out = coq_build(["Properties/%s.vo" % pid])
    res["output"] = out[-6000:]
    if not ok:
        m = re.search(r'File "\./([^"]+)", line (\d+)', out)
        where = "%s:%s" % (m.group(1), m.group(2)) if m else "?"
        # which theorem of the property file is affected: all of them if a dependency broke
        res["broken"] = [dict(where=where, theorems=theorems, error=out[-1500:])]
        return res
    # re-run the property file alone so that only its own Print Assumptions output is counted
    rc, out = sh(["coqc", "-R", COQ, "Saphyr", "-w", "-notation-overridden,-deprecated-hint-without-locality,-ambiguous-paths",
                  vfile], cwd=COQ, timeout=1200)
    res["output"] = out[-6000:]
    if rc != 0:
        res["broken"] = [dict(where="Properties/%s.v" % pid, theorems=theorems, error=out[-1500:])]
        return res
    closed = out.count("Closed under the global context")
    axioms = re.findall(r"^Axioms:\s*\n((?:.+\n)+)", out, re.M)
    bad = []
    for blk in axioms:
        for line in blk.splitlines():
            m = re.match(r"^([A-Za-z0-9_.']+)\s*:", line)
            if m and m.group(1) not in AXIOM_ALLOW:
                bad.append(m.group(1))
    res["assumptions"] = ["Closed under the global context"] * closed + bad
    res["discharged"] = closed
    if bad:
        res["broken"] = [dict(where="Properties/%s.v" % pid, theorems=theorems, error="depends on axioms: %s" % bad)]
        return res
    if closed < len(theorems):
        res["broken"] = [dict(where="Properties/%s.v" % pid, theorems=theorems,
                              error="only %d of %d theorems printed their assumptions" % (closed, len(theorems)))]
        return res
    res["ok"] = True
    return res


def coq_audit_sources():
    """grep the whole development for forbidden vernacular; returns list of offending lines."""
    bad = []
    for root, _, files in os.walk(COQ):
        for f in files:
            if not f.endswith(".v"):
                continue
            p = os.path.join(root, f)
            txt = open(p, encoding="utf-8").read()
            # strip comments (non-nested is enough: we never nest them)
            txt2 = re.sub(r"\(\*.*?\*\)", lambda m: "\n" * m.group(0).count("\n"), txt, flags=re.S)
            for i, line in enumerate(txt2.splitlines(), 1):
                if FORBIDDEN.search(line):
                    bad.append("%s:%d: %s" % (os.path.relpath(p, VERIF), i, line.strip()))
    return bad


def coqchk(pid, timeout=1500):
    rc, out = sh(["coqchk", "-silent", "-o", "-R", COQ, "Saphyr", "Saphyr.Properties.%s" % pid], cwd=COQ, timeout=timeout)
    return rc == 0, out[-3000:]


def build_model(tag=""):
    """Extract the model to OCaml and build the driver (only when something changed).
    tag "" : coq/Extract/Extract.v + ocaml/driver.ml -> build/ocaml/mx
    tag T  : coq/Extract/Extract<T>.v + ocaml/driver_<t>.ml -> build/ocaml_<t>/mx   (self-contained units)"""
    low = tag.lower()
    odir = OCAML_BUILD if not tag else os.path.join(BUILD, "ocaml_" + low)
    os.makedirs(odir, exist_ok=True)
    ext_v = os.path.join(COQ, "Extract", "Extract%s.v" % tag)
    drv = os.path.join(VERIF, "ocaml", "driver%s.ml" % ("_" + low if tag else ""))
    exe = os.path.join(odir, "mx")
    stamp = os.path.join(odir, ".stamp")
    deps = []
    for d in COQ_DIRS:
        dd = os.path.join(COQ, d)
        if os.path.isdir(dd):
            deps += [os.path.join(dd, f) for f in os.listdir(dd) if f.endswith(".v")]
    newest = max(os.path.getmtime(p) for p in [ext_v, drv] + deps)
    if os.path.exists(stamp) and os.path.exists(exe) and os.path.getmtime(stamp) >= newest:
        return True, "up to date"
    ok, out = coq_build(extract_deps(ext_v))
    if not ok:
        return False, out
    rc, out = sh(["coqc", "-R", COQ, "Saphyr", ext_v], cwd=odir, timeout=900)
    if rc != 0:
        return False, out
    sh(["cp", drv, os.path.join(odir, "driver.ml")], check=True)
    rc, out = sh("ocamlfind ocamlopt -O3 -w -a model.mli model.ml driver.ml -o mx", cwd=odir, timeout=900)
    if rc != 0:
        return False, out
    open(stamp, "w").write(str(time.time()))
    return True, "rebuilt"


def mx_path(tag=""):
    return MX if not tag else os.path.join(BUILD, "ocaml_" + tag.lower(), "mx")


def extract_deps(ext_v):
    src = open(ext_v).read()
    mods = []
    for m in re.finditer(r"Require Import ([^.]+)\.", src):
        mods += m.group(1).split()
    targets = []
    for mod in mods:
        for d in COQ_DIRS:
            if os.path.exists(os.path.join(COQ, d, mod + ".v")):
                targets.append("%s/%s.vo" % (d, mod))
    return targets


def build_harness(release=False):
    lock = os.path.join(VERIF, "harness", "Cargo.lock")
    if not os.path.exists(lock):
        sh(["cp", os.path.join(REPO, "Cargo.lock"), lock])
    cmd = ["cargo", "build", "--offline", "--quiet"] + (["--release"] if release and not COVERAGE else [])
    rc, out = sh(cmd, cwd=os.path.join(VERIF, "harness"), timeout=3000)
    return rc == 0, out[-4000:]


# ------------------------------------------------------------------------------------------------
# running both sides
# ------------------------------------------------------------------------------------------------
def enc(s):
    """case line for a Python str"""
    return " ".join(str(ord(c)) for c in s)


def dec(line):
    line = line.strip()
    return "".join(chr(int(x)) for x in line.split(" ")) if line else ""


def _run_one(exe, args, chunk, timeout):
    """run one process over a chunk; if it dies on a case (abort, stack overflow) mark that case CRASH and carry on
    with the rest in a fresh process (at most 25 restarts)"""
    out = []
    start = 0
    restarts = 0
    while start < len(chunk):
        part = chunk[start:]
        data = ("\n".join(part) + "\n").encode("utf-8")
        p = subprocess.Popen([exe] + list(args), stdin=subprocess.PIPE, stdout=subprocess.PIPE,
                             stderr=subprocess.DEVNULL, env=ENV)
        try:
            o, _ = p.communicate(data, timeout=timeout)
        except subprocess.TimeoutExpired:
            p.kill()
            p.communicate()
            return out + ["|TIMEOUT"] * len(part)
        o = o.decode("utf-8", "replace").split("\n")
        if o and o[-1] == "":
            o = o[:-1]
        if len(o) >= len(part):
            return out + o[:len(part)]
        out += o + ["|CRASH rc=%s" % p.returncode]
        start += len(o) + 1
        restarts += 1
        if restarts > 25:
            return out + ["|NOTRUN"] * (len(chunk) - start)
    return out


def _run_shards(exe, args, lines, timeout):
    n = len(lines)
    if n == 0:
        return []
    k = max(1, min(NPROC, n // 200))
    size = (n + k - 1) // k
    # the limit is there to catch a spinning process, not to bound honest work: scale it with the size of the shard, so that
    # a thorough tier on a loaded machine does not turn into a TIMEOUT verdict (20 minutes per 5 000 cases at least)
    timeout = max(timeout, 1200 * ((size + 4999) // 5000))
    import threading
    outs = [None] * k

    def work(i):
        outs[i] = _run_one(exe, args, lines[i * size:(i + 1) * size], timeout)
    ths = [threading.Thread(target=work, args=(i,)) for i in range(k)]
    [t.start() for t in ths]
    [t.join() for t in ths]
    res = []
    for i in range(k):
        res += outs[i]
    return res


def run_hx(args, lines, timeout=1200, release=False):
    return _run_shards(HX_REL if release else HX, args, lines, timeout)


def run_mx(args, lines, timeout=1200, tag=""):
    return _run_shards(mx_path(tag), args, lines, timeout)


def run_bin(name, args, lines, timeout=1200, release=False):
    """run another harness binary (harness/src/bin/<name>.rs) with the same line protocol"""
    return _run_shards(os.path.join(CARGO_TARGET, "release" if release and not COVERAGE else "debug", name), args, lines, timeout)


# ------------------------------------------------------------------------------------------------
# canonical-line helpers
# ------------------------------------------------------------------------------------------------
def split_line(line):
    """'ev;ev|FIN' -> ([ev...], FIN)"""
    i = line.rfind("|")
    if i < 0:
        return [], line
    body, fin = line[:i], line[i + 1:]
    return (body.split(";") if body else []), fin


def fin_pos(fin):
    """'ERR@i:l:c#whatever' -> 'ERR@i:l:c' ; other verdicts unchanged"""
    if fin.startswith("ERR@"):
        j = fin.find("#")
        return fin if j < 0 else fin[:j]
    return fin


def fin_msg(fin):
    j = fin.find("#")
    return "" if j < 0 else fin[j + 1:]


def ev_kind(e):
    """event string without span, scalar text, tags: kind + anchor id"""
    b = e.rsplit("@", 1)[0]
    if b.startswith("SC"):
        parts = b[2:].split(",")
        return "SC," + parts[1]
    if b.startswith("QS") or b.startswith("MS"):
        return b[:2] + "," + b[2:].split(",")[0]
    return b


def ev_nospan(e):
    return e.rsplit("@", 1)[0]


# ------------------------------------------------------------------------------------------------
# known findings
# ------------------------------------------------------------------------------------------------
def known_findings(pid):
    out = []
    p = os.path.join(VERIF, "known_findings.jsonl")
    if os.path.exists(p):
        for l in open(p):
            l = l.strip()
            if l:
                d = json.loads(l)
                if d.get("property") == pid and d.get("status") == "known":
                    out.append(d)
    return out


# ------------------------------------------------------------------------------------------------
# result / evidence / verdict
# ------------------------------------------------------------------------------------------------
class Result:
    def __init__(self, pid, tier, seed):
        self.pid, self.tier, self.seed = pid, tier, seed
        self.timer = Timer()
        self.coverage = {}
        self.assumptions = []
        self.violations = []      # dicts with a concrete failing input (replayable)
        self.tie_breaks = []      # broken proof obligations / correspondence, no failing input
        self.known = []           # strings for KNOWN-FINDING lines
        self.evaluations = 0
        self.nontrivial = set()
        self.samples = []
        self.notes = []

    def add_violation(self, what, case, **extra):
        self.violations.append(dict(what=what, case=case, **extra))

    def add_tie_break(self, what, **extra):
        self.tie_breaks.append(dict(what=what, **extra))

    def finish(self, proof, rule, extra_cov=None):
        """Write evidence, print verdict lines, return the exit status."""
        os.makedirs(EVIDENCE, exist_ok=True)
        os.makedirs(REPLAYS, exist_ok=True)
        cov = dict(self.coverage)
        cov.update(dict(
            obligations=max(1, proof.get("obligations", 0)),
            discharged=proof.get("discharged", 0),
            checker_cmd="make -C coq Properties/%s.vo  (coqc 8.16.1, full .vo build of the dependency cone; "
                        "thorough: + coqchk -o)" % self.pid,
            trusted_base=TRUSTED_BASE,
            theorems=proof.get("statements", []),
            assumptions_printed=proof.get("assumptions", []),
            evaluations=self.evaluations,
            distinct_nontrivial=len(self.nontrivial),
            rule=rule,
            samples=self.samples[:8] if self.samples else ["(no cases generated)"],
        ))
        if extra_cov:
            cov.update(extra_cov)
        nviol = len(self.violations) + len(self.tie_breaks)
        ev = dict(property_id=self.pid, tier=self.tier, seed=self.seed, level="proof", coverage=cov,
                  assumptions=self.assumptions, wall_s=self.timer.s(), violations=nviol, notes=self.notes)
        with open(os.path.join(EVIDENCE, self.pid + ".json"), "w") as f:
            json.dump(ev, f, indent=1, ensure_ascii=True)
        for k in self.known:
            print("KNOWN-FINDING: property=%s %s" % (self.pid, k))
        status = 0
        if self.violations:
            v = self.violations[0]
            path = write_replay(self.pid, dict(kind="failing-input", **v, others=len(self.violations) - 1,
                                               tie_breaks=self.tie_breaks[:5]))
            print("VIOLATION property=%s replay=%s" % (self.pid, path))
            status = 1
        elif self.tie_breaks:
            path = write_replay(self.pid, dict(kind="tie-break", breaks=self.tie_breaks[:20]))
            print("VIOLATION property=%s replay=%s no-failing-input-found" % (self.pid, path))
            status = 1
        log("[%s %s] evaluations=%d nontrivial=%d obligations=%s/%s violations=%d wall=%.1fs" % (
            self.pid, self.tier, self.evaluations, len(self.nontrivial), cov["discharged"], cov["obligations"],
            nviol, self.timer.s()))
        return status


def write_replay(pid, obj):
    os.makedirs(REPLAYS, exist_ok=True)
    blob = json.dumps(obj, sort_keys=True, ensure_ascii=True, indent=1)
    h = hashlib.sha256(blob.encode()).hexdigest()[:12]
    path = os.path.join(REPLAYS, "%s-%s.json" % (pid, h))
    with open(path, "w") as f:
        f.write(blob)
    return os.path.relpath(path, VERIF)


def prepare(pid, res, need_release=False, model_tags=("",)):
    """Common front part of every check: translator, proof obligations, audit, model + harness build.
    Returns the proof-status dict.  Build failures of the *machinery* (not of /repo) abort with exit 2;
    a /repo that no longer compiles is reported as a tie break."""
    with Lock():
        ok, msg, sha = gen_tables()
        res.coverage["gen_tables_sha"] = sha
        if not ok:
            res.add_tie_break("translator could not parse the Rust sources it is anchored in", detail=msg[-2000:])
        proof = coq_check_property(pid)
        for b in proof["broken"]:
            res.add_tie_break("proof obligation no longer checks", theorem=", ".join(b["theorems"]),
                              where=b["where"], error=b["error"][-1200:])
        bad = coq_audit_sources()
        if bad:
            res.add_tie_break("forbidden vernacular in the development", lines=bad[:20])
            proof["discharged"] = 0
        res.model_ok = True
        for tag in model_tags:
            ok, out = build_model(tag)
            if not ok:
                res.add_tie_break("the executable model no longer builds (unit %r)" % tag, error=out[-2000:])
                res.model_ok = False
        ok, out = build_harness()
        if ok and need_release:
            ok, out = build_harness(release=True)
        if not ok:
            res.add_tie_break("harness does not build against /repo's working tree", error=out[-3000:])
            res.harness_ok = False
        else:
            res.harness_ok = True
    return proof
