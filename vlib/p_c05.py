"""C05 — block scalars yield exactly the text YAML assigns to them.

Spec     : coq/Spec/BlockScalar.v (YAML 1.2.2 chapter 8.1: line model, `block_value`, `content_indent`, the renderer
           `render_block` and the side conditions `case_ok`), extracted (coq/Extract/ExtractC05.v, ocaml/driver_c05.ml ->
           build/ocaml_c05/mx spec).  For every generated case the extracted specification produces the YAML text and
           the value the scalar must have.  The same renderer and value function are mirrored below in Python,
           directly on the raw lines; the two are compared on every case (a disagreement is a bug in the
           specification code and is reported as a tie break).  The value function is also run against the expected
           trees of the yaml-test-suite cases that contain block scalars.
Oracle   : on the IMPLEMENTATION (`hx events str`, `hx events iter`, `hx events cap8`): the stream is accepted, its
           scalar events are exactly the keys of the context, the block scalar (style L / F, value = block_value) and
           the scalars of what follows it.
Tie      : the model pipeline (`mx events str|buf16|buf8`) yields the same event line as the implementation
           (text, spans, error position).
Theorems : coq/Properties/C05.v (about the scanner model's scan_block_scalar and its helpers on the string back-end;
           what is covered and what is not is listed at the top of that file).
Known    : known_findings_c05.jsonl — one open class (a tab at column 0 on the first line of a top-level scalar with
           auto-detected indentation is rejected; decidable predicate `known_class`).  The three classes recorded earlier (end of input after a last line
           of spaces under clip / keep, `---` after content at column 0) were repaired in /repo (42046c7, 001a921) and
           are `fixed` entries now: nothing is suppressed, their members are ordinary cases of the random stream and of
           the directed list (`REGRESSIONS`), and a regression is reported as a VIOLATION with the failing input.
"""
import json
import os
import re

from . import core, gen
from .core import Result, enc, fin_pos, prepare, run_hx, run_mx, split_line

PID = "C05"

# ------------------------------------------------------------------------------------------------
# Python mirror of coq/Spec/BlockScalar.v, written on the raw lines (spaces, rest)
# ------------------------------------------------------------------------------------------------
def content_indent(parent, explicit, raw):
    if explicit:
        return explicit if parent < 0 else parent + explicit
    for sp, s in raw:
        if s != "":
            return sp
    return max([sp for sp, _ in raw] + [parent + 1])


def line_kind(n, sp, s):
    """None for an empty line, else (content, spaced)"""
    if s == "" and sp <= n:
        return None
    content = " " * (sp - n) + s
    return content, content[0] in " \t"


def block_value(literal, chomp, n, raw):
    out = []
    prev = None          # spaced flag of the previous content line
    k = 0                # empty lines since then
    seen = False
    for sp, s in raw:
        lk = line_kind(n, sp, s)
        if lk is None:
            k += 1
            continue
        content, spc = lk
        if not seen:
            out.append("\n" * k)
        elif not literal and not prev and not spc:
            out.append(" " if k == 0 else "\n" * k)
        else:
            out.append("\n" * (k + 1))
        out.append(content)
        prev, k, seen = spc, 0, True
    if not seen:
        return "\n" * len(raw) if chomp == "k" else ""
    if chomp == "c":
        out.append("\n")
    elif chomp == "k":
        out.append("\n" * (1 + k))
    return "".join(out)


def header(c):
    ch = {"s": "-", "c": "", "k": "+"}[c["chomp"]]
    d = str(c["explicit"]) if c["explicit"] else ""
    return ("|" if c["literal"] else ">") + (d + ch if c["digit_first"] else ch + d)


def render(c):
    t = c["prefix"] + header(c) + c["hc"]
    for sp, s in c["raw"]:
        t += "\n" + " " * sp + s
    eof = c["eof"]
    if eof == "N":
        t += "\n"
    elif eof != "Z":
        t += "\n" + eof[1]
    if c["brk"]:
        t = t.replace("\n", "\r\n" if c["brk"] == 1 else "\r")
    return t


def cps(s):
    return ".".join(str(ord(ch)) for ch in s)


def uncps(s):
    return "".join(chr(int(x)) for x in s.split(".")) if s else ""


def spec_line(c):
    eof = c["eof"]
    return "|".join(["L" if c["literal"] else "F", c["chomp"], str(c["explicit"]), "1" if c["digit_first"] else "0", str(c["parent"]),
                     cps(c["prefix"]), cps(c["hc"]), ",".join("%d:%s" % (sp, cps(s)) for sp, s in c["raw"]),
                     eof if eof in ("N", "Z") else "R" + cps(eof[1]), str(c["brk"])])


# ------------------------------------------------------------------------------------------------
# generator
# ------------------------------------------------------------------------------------------------
TEXTS = ["a", "x", "text", "two words", "- a", "- - b", "k: v", "key:", "# c", "#", "[x", "]", "{a: b}", "\"q", "'", "'it''s'",
         "---", "...", "--- x", "... y", "----", "....", "%YAML 1.2", "%TAG ! tag:x,", "? x", ": v", "&a b", "*a", "!t", "!!str s",
         "| x", "|", ">", ">-", "|2", "a #b", "a # b", "a: |", "- >", "-", "?", ":", "@", "`", "~", "null", "0x1F", "\\n", "\\",
         "\u00e9", "\u4e2d\u6587", "\U0001f600 x", "a\u2028b", "n\u0085l", "a\u00a0b",
         "a line that is longer than sixteen characters", "y" * 40, "z" * 130, "w " * 70,
         "\ttab", "\t", "\t\t", "\t- a", "t\tt", "trail  ", "trail\t", "trail \t ", "a  b", "x ", "- ", "k:  ", "#  "]
LOOKS_LIKE_YAML = set(TEXTS[4:47])
HCS = ["", "", "", " ", "   ", " # c", "  #c", "\t# c", " #", " # a: |", "\t", " \t "]


def gen_context(rng):
    """-> dict(prefix, parent, before=[scalars], levels=[(kind, col)]) ; parent = -1 at top level"""
    r = rng.random()
    if r < 0.14:
        return dict(kind="top-bare", prefix="", parent=-1, before=[], levels=[])
    if r < 0.28:
        props = rng.choice(["", "", "", "!!str ", "&a ", "!t &b "])
        return dict(kind="top-doc", prefix="--- " + props, parent=-1, before=[], levels=[])
    if r < 0.31:
        return dict(kind="top-directive", prefix="%YAML 1.2\n--- ", parent=-1, before=[], levels=[])
    if r < 0.36:
        # a block sequence at the column of the mapping key that owns it ("indentless" sequence)
        col = rng.choice([0, 0, 2, 5, 14])
        pre = "" if col == 0 else "top:\n"
        before = ["k0"] if col == 0 else ["top", "k0"]
        text = pre + " " * col + "k0:\n" + " " * col + "-" + rng.choice([" ", "  ", "\t"])
        return dict(kind="indentless-seq", prefix=text, parent=col, before=before, levels=[("seq", col)])
    depth = rng.choice([1, 1, 1, 2, 2, 3, 3, 4])
    levels = []
    col = rng.choice([0, 0, 0, 0, 0, 1, 2, 14])
    text = ""
    before = []
    at_line_start = True
    for i in range(depth):
        kind = rng.choice(["map", "seq"])
        if at_line_start:
            text += " " * col
        levels.append((kind, col))
        last = i == depth - 1
        if kind == "map":
            key = "k%d" % i
            before.append(key)
            text += key + ":"
            if last:
                text += rng.choice([" ", " ", " ", "  ", "\t", " \t"])
            else:
                # a nested collection starts on the next line; a sequence may stay at the same column
                nxt = rng.choice([1, 2, 2, 2, 3, 4, 7, 12, 14, 16, 30])
                text += rng.choice(["", "", " ", " # c"]) + "\n"
                col = col + nxt
                at_line_start = True
        else:
            text += "-"
            if last:
                text += rng.choice([" ", " ", " ", "  ", "\t"])
            elif rng.random() < 0.6:
                gap = rng.choice([1, 1, 1, 1, 2, 3])
                text += " " * gap
                col = col + 1 + gap
                at_line_start = False
            else:
                nxt = rng.choice([1, 2, 2, 2, 3, 4, 7, 12, 14, 16, 30])
                text += "\n"
                col = col + nxt
                at_line_start = True
    props = rng.choice(["", "", "", "", "!!str ", "&a ", "!t "])
    return dict(kind="nested", prefix=text + props, parent=levels[-1][1], before=before, levels=levels)


def gen_follower(rng, ctx, n, has_text):
    """text after the scalar (starts at a line start) + the scalars it contributes"""
    out = ""
    after = []
    if ctx["parent"] < 0:
        # top level: document markers (and trailing comments once there is content indented by >= 1)
        if n >= 1 and has_text and rng.random() < 0.3:
            out += "# trailing comment\n"
            if rng.random() < 0.5:
                return out, after
        m = rng.choice(["...", "---", "--- zz", "... # c", "---\n", "...\n", "--- zz\n", "...\n---\nzz\n", "--- # c\nzz\n"])
        out += m
        if "zz" in m:
            after.append("zz")
        elif m.startswith("---"):
            after.append("~")            # "---" opens a document whose (absent) node is reported as the plain scalar "~"
        return out, after
    levels = ctx["levels"]
    if has_text and rng.random() < 0.25:
        c = rng.randrange(0, n)
        out += " " * c + "# trailing comment\n"
        if rng.random() < 0.3:
            return out, after
    elif rng.random() < 0.1:
        c = rng.randrange(0, ctx["parent"] + 1)
        out += " " * c + "# comment\n"
    j = rng.randrange(len(levels))
    kind, col = levels[j]
    if kind == "map":
        out += " " * col + "zz: 1"
        after += ["zz", "1"]
    else:
        out += " " * col + "- zz"
        after.append("zz")
    if rng.random() < 0.7:
        out += "\n"
    return out, after


def gen_lines(rng, n, auto, top0):
    """raw lines for content indentation n"""
    r = rng.random()
    count = 0 if r < 0.06 else rng.choice([1, 1, 2, 2, 3, 3, 4, 5, 6, 8])
    raw = []
    seen_text = False
    only_blank = rng.random() < 0.08
    for i in range(count):
        x = rng.random()
        if only_blank or x < 0.25:
            # whitespace-only line: 0 .. n+3 spaces (more than n spaces: a content line)
            k = rng.choice([0, 0, 0, rng.randrange(0, n + 1), n, n, n + 1, n + 2, n + 3]) if n > 0 else rng.choice([0, 0, 0, 1, 2])
            if auto and not seen_text and not only_blank:
                k = min(k, n)            # a leading empty line may not be longer than the first content line
            raw.append((k, ""))
            if k > n and not only_blank:
                seen_text = True
            continue
        s = rng.choice(TEXTS)
        e = rng.choice([0, 0, 0, 0, 1, 2, 3, 5])
        if auto and not seen_text:
            e = 0
        # (a tab at column 0 right below a top-level header with auto-detected indentation is generated too: the known
        #  class top-level-column-0-content-starts-with-tab)
        if n + e == 0 and re.match(r"^(---|\.\.\.)([ \t]|$)", s):
            e = 1 if (seen_text or not auto) else 0
            if e == 0:
                s = "=" + s
        raw.append((n + e, s))
        seen_text = True
    return raw


def gen_case(rng):
    ctx = gen_context(rng)
    parent = ctx["parent"]
    literal = rng.random() < 0.5
    chomp = rng.choice("sck")
    explicit = rng.choice([0, 0, 0, 0, 0, 0, 0, 1, 1, 2, 2, 3, 4, 5, 6, 7, 8, 9])
    if explicit:
        n = explicit if parent < 0 else parent + explicit
    else:
        n = parent + 1 + rng.choice([0, 0, 0, 1, 1, 1, 2, 3, 5, 13, 20])
    raw = gen_lines(rng, n, not explicit, parent < 0 and n == 0)
    n_spec = content_indent(parent, explicit, raw)
    has_text = any(line_kind(n_spec, sp, s) is not None for sp, s in raw)
    x = rng.random()
    after = []
    if x < 0.35:
        eof = "N"
    elif x < 0.6 and (not raw or raw[-1] != (0, "")):
        eof = "Z"
    elif x < 0.6:
        eof = "N"
    else:
        rest, after = gen_follower(rng, ctx, n_spec, has_text)
        eof = ("R", rest)
    c = dict(literal=literal, chomp=chomp, explicit=explicit, digit_first=rng.random() < 0.4, parent=parent,
             prefix=ctx["prefix"], hc=rng.choice(HCS), raw=raw, eof=eof,
             brk=rng.choice([0, 0, 0, 0, 0, 0, 1, 2]), before=ctx["before"], after=after, ctx=ctx["kind"],
             depth=len(ctx["levels"]))
    return c


DIRECTED = [
    # (prefix, parent, literal, chomp, explicit, raw, eof)   — corners named in the property text
    ("", -1, True, "c", 0, [(0, "a"), (0, "b")], "N"), ("", -1, True, "k", 0, [], "Z"), ("", -1, True, "k", 0, [], "N"),
    ("a: ", 0, True, "c", 0, [], "N"), ("a: ", 0, True, "k", 0, [], "N"), ("a: ", 0, True, "k", 0, [(0, ""), (0, "")], "N"),
    ("a: ", 0, True, "k", 0, [(0, ""), (2, "")], "Z"), ("- ", 0, True, "k", 0, [(3, "")], "Z"), ("- ", 0, True, "c", 0, [(3, "")], "Z"),
    ("", -1, False, "s", 2, [], ("R", "...\n")), ("", -1, True, "c", 0, [(3, "")], ("R", "---\n")),
    ("", -1, False, "c", 0, [(1, "a"), (1, "b"), (3, "c"), (1, "d"), (0, ""), (1, "e")], "N"),
    ("a: ", 0, True, "c", 0, [(2, "x"), (3, "")], "Z"), ("a: ", 0, True, "c", 0, [(2, "x"), (2, "")], "Z"),
    ("a: ", 0, True, "k", 0, [(2, "x"), (1, "")], "Z"), ("a: ", 0, True, "k", 0, [(2, "x"), (0, ""), (1, "")], "Z"),
    ("a: ", 0, False, "c", 0, [(2, "x"), (2, "")], "Z"), ("a: ", 0, True, "s", 0, [(2, "x"), (2, "")], "Z"),
    ("a:\n" + " " * 20 + "b: ", 20, True, "c", 0, [(22, "wide"), (22, "path")], "N"),
    ("a:\n" + " " * 14 + "b: ", 14, False, "k", 2, [(16, "wide"), (0, ""), (17, "more")], "Z"),
    ("- ", 0, True, "c", 1, [(3, "lead")], "N"), ("k: ", 0, False, "c", 0, [(1, "\ttab"), (1, "x")], "N"),
    # a tab at column 0 of a top-level scalar: first line (known class), second line and after a blank line (accepted)
    ("", -1, True, "c", 0, [(0, "\tx")], "N"), ("--- ", -1, False, "k", 0, [(0, "\t"), (0, "y")], "Z"),
    ("", -1, True, "c", 0, [(0, ""), (0, "\tx")], "N"), ("", -1, True, "c", 0, [(0, "x"), (0, "\ty")], "N"),
]

# the members of the three repaired finding classes (42046c7, 001a921): regression tests, nothing is suppressed.
# (prefix, parent, literal, chomp, explicit, raw, eof, scalars after the block scalar)
REGRESSIONS = []
for _lit in (True, False):
    for _chomp in "sck":
        for _pre, _par, _n in (("a: ", 0, 2), ("", -1, 1), ("- - ", 2, 5), ("a:\n" + " " * 14 + "b: ", 14, 16)):
            # the input ends inside a last line of k spaces: k < n, k = n, k > n; after content and after content + blank lines
            for _k in sorted({1, _n - 1, _n, _n + 1, _n + 3}):
                if _k >= 1:
                    REGRESSIONS.append((_pre, _par, _lit, _chomp, 0, [(_n, "x"), (_k, "")], "Z", []))
                    REGRESSIONS.append((_pre, _par, _lit, _chomp, 0, [(_n, "x"), (_n, "y"), (0, ""), (_k, "")], "Z", []))
                    REGRESSIONS.append((_pre, _par, _lit, _chomp, 0, [(_n, "x"), (_n + 1, ""), (_k, "")], "Z", []))
        # `---` after content at column 0 of a top-level scalar
        for _m, _after in (("---", ["~"]), ("---\n", ["~"]), ("---\nb\n", ["b"]), ("--- b", ["b"]), ("---\t# c\nb\n", ["b"]),
                           ("--- |\nc\n", None), ("...\n---\nb\n", ["b"]), ("...", [])):
            for _raw in ([(0, "a")], [(0, "a"), (0, "b"), (0, "")], [(0, "a"), (1, "--- x"), (0, "----")], [(0, ""), (0, "a")]):
                if _after is not None:
                    REGRESSIONS.append(("", -1, _lit, _chomp, 0, _raw, ("R", _m), _after))
                    REGRESSIONS.append(("--- ", -1, _lit, _chomp, 0, _raw, ("R", _m), _after))


def directed_cases():
    out = []
    for item in DIRECTED + REGRESSIONS:
        prefix, parent, literal, chomp, explicit, raw, eof = item[:7]
        before = ["a"] if prefix.startswith("a:") else (["k"] if prefix.startswith("k:") else [])
        if "b: " in prefix:
            before.append("b")
        after = ["~"] if eof not in ("N", "Z") and eof[1].startswith("---") else []
        if len(item) > 7:
            after = list(item[7])
        out.append(dict(literal=literal, chomp=chomp, explicit=explicit, digit_first=False, parent=parent, prefix=prefix, hc="",
                        raw=raw, eof=eof, brk=0, before=before, after=after, ctx="directed", depth=0))
    return out


# ------------------------------------------------------------------------------------------------
# known findings (known_findings_c05.jsonl): decidable predicates on the case (only `known` entries suppress)
# ------------------------------------------------------------------------------------------------
def load_known():
    p = os.path.join(core.VERIF, "known_findings_c05.jsonl")
    out = []
    if os.path.exists(p):
        for l in open(p):
            l = l.strip()
            if l:
                d = json.loads(l)
                if d.get("status") == "known" and d.get("property") == PID:
                    out.append(d)
    return out


def known_class(c, n):
    """name of the OPEN known-finding class the case belongs to, or None.  The classes
    eof-after-indentation-only-line/clip, eof-after-short-space-line/keep (42046c7) and
    column-0-content-followed-by-document-start (001a921) are repaired and must satisfy the specification."""
    raw = c["raw"]
    if c["parent"] < 0 and not c["explicit"] and raw and raw[0][0] == 0 and raw[0][1].startswith("\t"):
        return "top-level-column-0-content-starts-with-tab"
    return None


# ------------------------------------------------------------------------------------------------
# the yaml-test-suite as a sanity check of the specification
# ------------------------------------------------------------------------------------------------
HEADER_RE = re.compile(r"(^|[ \t])([|>])([+-]?)([1-9]?)([+-]?)([ \t]+#.*|[ \t]*)$")


def tree_unescape(s):
    out = []
    i = 0
    while i < len(s):
        ch = s[i]
        if ch == "\\" and i + 1 < len(s):
            nx = s[i + 1]
            i += 2
            out.append({"n": "\n", "t": "\t", "\\": "\\", "r": "\r", "b": "\b", "0": "\0", "e": "\x1b"}.get(nx, "\\" + nx))
            if nx == "x" and i + 2 <= len(s):
                out[-1] = chr(int(s[i:i + 2], 16))
                i += 2
        else:
            out.append(ch)
            i += 1
    return "".join(out)


def suite_block_scalars(yaml):
    """heuristic extraction of (literal, chomp, explicit, parent, raw, n) for the block scalars of a VALID suite
    document written with LF breaks; returns None when the text is outside what the heuristic understands"""
    lines = yaml.split("\n")
    ends_nl = yaml.endswith("\n")
    if ends_nl:
        lines = lines[:-1]
    found = []
    i = 0
    while i < len(lines):
        ln = lines[i]
        m = HEADER_RE.search(ln)
        if not m or ln.lstrip().startswith("#") or '"' in ln[:m.start(2)] or "'" in ln[:m.start(2)] or "[" in ln[:m.start(2)] \
                or "{" in ln[:m.start(2)]:
            i += 1
            continue
        if m.group(3) and m.group(5):
            return None
        before = ln[:m.start(2)]
        # parent indentation: column of the innermost collection opened on this line, else -1 at document level
        stripped = before.lstrip(" ")
        col = len(before) - len(stripped)
        parent = None
        rest = stripped
        if rest.startswith("---") or rest.strip() == "" and col == 0 and all(not p.strip() or p.startswith(("%", "#", "---")) for p in lines[:i]):
            parent = -1
            body = rest[3:] if rest.startswith("---") else rest
            if ":" in body or body.strip().startswith("-"):
                return None
        else:
            pos = col
            while rest.startswith("- ") or rest.startswith("? "):
                parent = pos
                k = len(rest) - len(rest[1:].lstrip(" "))
                pos += k
                rest = rest[k:]
            if re.match(r"^[^\s:#&!*][^:]*:\s", rest) or re.match(r"^[^\s:#&!*][^:]*:$", rest.rstrip()):
                parent = pos
            elif rest.startswith(": "):
                parent = pos
            if parent is None:
                if rest.strip() == "" or re.match(r"^([&!][^ ]* +)+$", rest):
                    # header alone on its line (value on the line after "key:"): parent = nearest shallower key line
                    j = i - 1
                    while j >= 0 and (not lines[j].strip() or len(lines[j]) - len(lines[j].lstrip(" ")) >= col):
                        j -= 1
                    if j < 0:
                        return None
                    parent = len(lines[j]) - len(lines[j].lstrip(" "))
                    if lines[j].lstrip(" ").startswith("- "):
                        return None
                else:
                    return None
        explicit = int(m.group(4)) if m.group(4) else 0
        ch = m.group(3) or m.group(5)
        chomp = {"": "c", "-": "s", "+": "k"}[ch]
        raw = []
        j = i + 1
        while j < len(lines):
            t = lines[j]
            sp = len(t) - len(t.lstrip(" "))
            s = t[sp:]
            if s != "":
                if parent < 0:
                    if sp == 0 and re.match(r"^(---|\.\.\.)([ \t]|$)", s):
                        break
                elif sp <= parent:
                    break
            raw.append((sp, s))
            j += 1
        n = content_indent(parent, explicit, raw)
        # trailing comment lines (less indented than the content) are not content
        while raw and raw[-1][1].startswith("#") and raw[-1][0] < n:
            raw.pop()
            while raw and raw[-1][1] == "" and False:
                raw.pop()
        if any(s != "" and sp < n for sp, s in raw):
            cut = next(k for k, (sp, s) in enumerate(raw) if s != "" and sp < n)
            if all(s.startswith("#") or s == "" for sp, s in raw[cut:]):
                raw = raw[:cut]
            else:
                return None
        found.append((m.group(2) == "|", chomp, explicit, parent, raw, n))
        i = j
    return found


def suite_sanity():
    checked = 0
    skipped = 0
    bad = []
    for t in gen.suite():
        y = t["yaml"]
        if t.get("fail") or ("|" not in y and ">" not in y) or "\r" in y or not t.get("tree"):
            continue
        want = [tree_unescape(l.strip()[5:].split(" ", 0)[0]) for l in t["tree"].split("\n")
                if re.match(r"^\s*=VAL ([&!<][^ ]* )*[|>]", l)]
        want = []
        for l in t["tree"].split("\n"):
            mm = re.match(r"^\s*=VAL ((?:&[^ ]+ |<[^>]*> )*)([|>])(.*)$", l)
            if mm:
                want.append((mm.group(2), tree_unescape(mm.group(3))))
        if not want:
            continue
        try:
            got = suite_block_scalars(y)
        except Exception:
            got = None
        if got is None or len(got) != len(want):
            skipped += 1
            continue
        for (lit, chomp, explicit, parent, raw, n), (st, val) in zip(got, want):
            v = block_value(lit, chomp, n, raw)
            checked += 1
            if (st == "|") != lit or v != val:
                bad.append(dict(test=t.get("name"), yaml=y[:300], expected=val, spec=v, parsed=dict(chomp=chomp, explicit=explicit,
                                                                                                   parent=parent, n=n, raw=raw)))
    return checked, skipped, bad


# ------------------------------------------------------------------------------------------------
def scalars_of(line):
    evs, fin = split_line(line)
    out = []
    for e in evs:
        b = e.rsplit("@", 1)[0]
        if b.startswith("SC"):
            parts = b[2:].split(",")
            out.append((parts[0], uncps(parts[-1])))
    return out, fin


def check_C05(tier, seed):
    res = Result(PID, tier, seed)
    proof = prepare(PID, res, model_tags=("", PID))
    rng = gen.rng_for(seed, PID)
    n_random = 30000 if tier == "quick" else 600000
    cases = directed_cases() + [gen_case(rng) for _ in range(n_random)]
    seen = set()
    uniq = []
    for c in cases:
        k = spec_line(c)
        if k not in seen:
            seen.add(k)
            uniq.append(c)
    cases = uniq
    known = {d["class"]: d for d in load_known()}
    kf = {}
    if res.harness_ok and res.model_ok:
        # ---- the extracted specification renders the case and gives the expected value ----
        spec = run_mx(["spec"], [spec_line(c) for c in cases], tag=PID)
        good = []
        rejected = 0
        for c, out in zip(cases, spec):
            f = out.split("|")
            if len(f) != 4 or out.startswith("DRIVERERR"):
                res.add_tie_break("specification driver failed", case=spec_line(c), out=out[-300:])
                continue
            ok, n = f[0].split(" ")
            c["n"] = int(n)
            c["text"] = uncps(f[1])
            c["value"] = uncps(f[2])
            c["classes"] = f[3]
            # cross-check with the Python mirror (independent rendering on the raw lines)
            pn = content_indent(c["parent"], c["explicit"], c["raw"])
            if pn != c["n"] or render(c) != c["text"] or block_value(c["literal"], c["chomp"], pn, c["raw"]) != c["value"]:
                res.add_tie_break("specification code: Coq (extracted) and Python mirror disagree", case=spec_line(c),
                                  coq=dict(n=c["n"], text=c["text"], value=c["value"]),
                                  python=dict(n=pn, text=render(c), value=block_value(c["literal"], c["chomp"], pn, c["raw"])))
                continue
            if ok != "1":
                rejected += 1           # the generator produced a case outside the side conditions: not used
                continue
            good.append(c)
        cases = good
        lines = [enc(c["text"]) for c in cases]
        impl = {b: run_hx(["events", b], lines) for b in ("str", "iter", "cap8")}
        model = {b: run_mx(["events", b], lines) for b in ("str", "buf16", "buf8")}
        cov = dict(style={}, chomp={}, indentation={}, context={}, eof={}, header_comment={}, breaks={}, wide_indent_cap16=0,
                   wide_indent_cap8=0, lines_hist={}, yaml_lookalike_lines=0, blank_lines=0, more_indented_lines=0,
                   whitespace_only_content_lines=0, leading_tab_lines=0, long_lines=0, empty_content=0)
        for i, c in enumerate(cases):
            res.evaluations += 1
            want = [("P", s) for s in c["before"]] + [("L" if c["literal"] else "F", c["value"])] + [("P", s) for s in c["after"]]
            cls = known_class(c, c["n"])
            for b in impl:
                got, fin = scalars_of(impl[b][i])
                if fin == "OK" and got == want:
                    continue
                if cls in known:
                    kf[cls] = kf.get(cls, 0) + 1
                    continue
                res.add_violation("block scalar value / style / acceptance differs from the specification (back-end %s)" % b,
                                  dict(input=c["text"], codepoints=lines[i], backend=b, case=spec_line(c), content_indent=c["n"],
                                       line_classes=c["classes"]),
                                  expected_scalars=want, got_scalars=got, verdict=fin[:200])
            if cls in known and all(scalars_of(impl[b][i]) == (want, "OK") for b in impl):
                res.add_tie_break("known finding class %s no longer reproduces on a member (update known_findings_c05.jsonl)" % cls,
                                  case=c["text"])
            ref = impl["str"][i]
            ie, if_ = split_line(ref)
            for mk, outs in model.items():
                me, mf = split_line(outs[i])
                if me != ie or fin_pos(mf) != fin_pos(if_):
                    res.add_tie_break("correspondence: %s model pipeline != implementation (events with text and spans; error position)" % mk,
                                      case=c["text"], model=outs[i][-400:], impl=ref[-400:])
            # coverage bookkeeping
            def bump(d, k):
                cov[d][k] = cov[d].get(k, 0) + 1
            bump("style", "literal" if c["literal"] else "folded")
            bump("chomp", c["chomp"])
            bump("indentation", "explicit" if c["explicit"] else "auto")
            bump("context", c["ctx"] if c["ctx"] != "nested" else "nested-depth-%d" % c["depth"])
            bump("eof", {"N": "final-newline", "Z": "no-final-newline"}.get(c["eof"], "followed-by-less-indented-line")
                 + ("/after-blank-line" if c["raw"] and c["raw"][-1][1] == "" else ""))
            bump("header_comment", "none" if not c["hc"] else ("comment" if "#" in c["hc"] else "white"))
            bump("breaks", ["LF", "CRLF", "CR"][c["brk"]])
            bump("lines_hist", str(min(len(c["raw"]), 8)))
            if c["n"] >= 14:
                cov["wide_indent_cap16"] += 1
            if c["n"] >= 6:
                cov["wide_indent_cap8"] += 1
            kinds = c["classes"].split(",") if c["classes"] else []
            cov["blank_lines"] += sum(1 for k in kinds if k.startswith("B"))
            cov["more_indented_lines"] += sum(1 for k in kinds if k.startswith("T") and k != "T0")
            cov["whitespace_only_content_lines"] += sum(1 for (sp, s), k in zip(c["raw"], kinds) if s == "" and k.startswith("T"))
            cov["leading_tab_lines"] += sum(1 for sp, s in c["raw"] if s.startswith("\t"))
            cov["yaml_lookalike_lines"] += sum(1 for sp, s in c["raw"] if s in LOOKS_LIKE_YAML)
            cov["long_lines"] += sum(1 for sp, s in c["raw"] if sp + len(s) > 16)
            if not any(k.startswith("T") for k in kinds):
                cov["empty_content"] += 1
            if len(kinds) >= 2 and any(k.startswith("T") for k in kinds):
                res.nontrivial.add(c["text"])
        for cls, cnt in sorted(kf.items()):
            d = known[cls]
            res.known.append("%s: %s (%d case evaluations of this run)" % (cls, d["what"], cnt))
        checked, skipped, bad = suite_sanity()
        for bd in bad[:5]:
            res.add_tie_break("specification disagrees with the expected tree of a yaml-test-suite case", **bd)
        cov["suite_block_scalars_checked_against_spec"] = checked
        cov["suite_cases_outside_the_extraction_heuristic"] = skipped
        cov["generated_outside_side_conditions"] = rejected
        res.coverage["input_distribution"] = cov
        res.coverage["traces_validated_against_impl"] = len(cases) * 3
        res.coverage["backends"] = ["str", "iter", "cap8"]
        res.coverage["model_instances"] = ["str", "buf16", "buf8"]
        for i in (0, 7, len(cases) // 3, len(cases) // 2, len(cases) - 2):
            if 0 <= i < len(cases):
                c = cases[i]
                res.samples.append(dict(input=c["text"], expected_value=c["value"], content_indent=c["n"], lines=c["classes"]))
    if tier == "thorough" and proof.get("ok"):
        with core.Lock():
            ok, out = core.coqchk(PID)
        res.coverage["coqchk"] = "ok" if ok else "FAILED"
        if not ok:
            res.add_tie_break("coqchk rejects the compiled proofs", error=out[-1500:])
    res.notes.append("theorems (scanner model, string back-end, all inputs of the class, line breaks LF / CR LF / CR): nls/chomping "
                     "arithmetic; content line through the buffered-peek loop and the raw fast path; skip_spaces_to / "
                     "skip_block_scalar_indent (narrow and wide path) / skip_first_line_indent; scan_block_scalar = block_value for "
                     "literal AND folded style, every chomping, explicit or auto indentation (content indentation 0 included), header "
                     "white space / comment, all line lists with >= 1 content line (final break then a less indented line / end of "
                     "input / `...` or `---` at column 0; end of input right after the last content line or inside a last line of "
                     "<= indentation spaces: clip drops it, keep counts it) and for content-less scalars (end-of-stream path, header "
                     "at end of input, enclosing-collection follower, document marker); C05_case_partial: the same for EVERY case of "
                     "the specification with case_ok outside the leading-tab class, from any scanner state at the indicator.  "
                     "C05_full (contexts in front of the indicator, buffered back-ends) is stated and still refuted on the faithful "
                     "model by the one remaining class (a tab at column 0 of the first line of a top-level scalar with auto-detected "
                     "indentation).")
    res.assumptions += [
        "reading R1: the end of the input terminates a line like a line break (yaml-test-suite JEF9-02)",
        "reading R2: an indentation indicator at top level counts from column 0 (parent indentation -1 read as 0)",
        "the follower line of a case does not start with NUL (no YAML stream contains it; the scanner reads it as the end of input)",
    ]
    rule = ("random line lists (text lines incl. YAML look-alikes, comments, leading tabs, trailing blanks, long and multi-byte lines; "
            "blank lines of 0..n+3 spaces; more-indented lines) x literal/folded x strip/clip/keep x auto/explicit(1-9, either "
            "indicator order) x contexts (bare, '--- ', directive, mapping value, sequence entry, nested up to 4 levels, parent "
            "indentation up to 60+) x header comment x LF/CRLF/CR x end shapes (final newline, none, trailing blank / "
            "whitespace-only lines, sibling key or entry, document markers, trailing comments); text and expected value come from "
            "the extracted Coq specification, cross-checked against a Python mirror; non-trivial = distinct texts with at least "
            "two lines and at least one content line")
    return res.finish(proof, rule)
