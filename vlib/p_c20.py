"""C20 — mapping lookups, equality and hashing are mutually consistent.

Implementation side: harness/src/bin/hx_c20.rs (four node types; recording Hasher).
Model side: coq/Model/Hashing.v extracted through coq/Extract/ExtractC20.v + ocaml/driver_c20.ml.
Oracle (this file, on the implementation's output only): see `oracle_section`.
Correspondence: every section the harness prints (lookup flags, found values, recorded hasher calls of every
subject and needle, the pairwise == matrix) equals the section the model prints for the same node, literally."""
from . import core, gen
from .core import Result, enc, prepare

ID = "C20"
TYPES = ["yaml", "owned", "marked", "markedowned"]

# ------------------------------------------------------------------------------------------------
# generators
# ------------------------------------------------------------------------------------------------
STR_ATOMS = ["a", "b", "foo", '"1"', "'true'", '"~"', '"null"', '"1.0"', '""', "\u00e9", '"a b"', "True", "Null", "yes",
             '"0"', '"-1"', "'0x1'", '"[a, b]"', "x1", "!!str 1", "!!str true", '"\\u00e9"', '"\U0001f600"', "a b",
             "'false'", '"-0.0"', '".nan"', "!!str ~", '"2"', "k", "v", "\u20ac", '"a\\nb"', "0x", "1_0", "1.0.0",
             '"\\x61"', "!foo 1", "'a'", '"b"', '"3"', "'7'", '"10"', "!!str 2", '"18446744073709551615"']
INT_ATOMS = ["1", "0", "-1", "0x1", "0o7", "+1", "7", "2", "3", "9223372036854775807", "-9223372036854775808",
             "!!int 1", "007", "0x7", "10", "-0"]
FLOAT_ATOMS = ["1.0", "1.5", "-0.0", "0.0", ".nan", ".NaN", ".inf", "-.inf", "1e3", "1000.0", "!!float 1", "-1.5", ".NAN",
               "+.inf", "1.", "0.", "-0.", "1e0", "!!float 0", "!!float -0", ".5", "5e-1"]
OTHER_ATOMS = ["true", "false", "~", "null", "NULL", "!!null null", "!!bool true", "!!null ~", "!!bool false"]
BAD_ATOMS = ["!!int x", "!!bool yes", "!!float a", "!!null 0"]
COLL_ATOMS = ["[a, b]", "{k: v}", "[]", "{}", "[1]", "[a, [b]]", "{a: {b: c}}", "[1.0, -0.0]", "{1: a}", "[~]", '["1"]',
              "[0.0]", "[-0.0]", "{a: 1, b: 2}", "{b: 2, a: 1}", "[.nan]", "[b, a]", "{k: [v]}", "[[]]", "[{}]"]
PROBE_VARIANTS = ["1", "true", "~", "null", "1.0", "0", "-0.0", "", "zz", "a", "A", "0x1", "[a, b]", "NULL", "\u00e9", "false",
                  "1.5", ".nan", ".inf", "7", "+1", "-1", "k", "{k: v}", "b", "foo", "2", "x", "!!int x", "a b", "\U0001f600",
                  "0.0", "1e3", "1000.0", "007", "e\u0301", "\u20ac", "a\nb", "9223372036854775807"]

HANDWRITTEN = [
    ('{1: int, "1": str, 1.0: float, true: bool, "true": strbool, ~: null, "~": strnull, null: dup}', ["1", "1.0", "true", "~", "null"]),
    ("1: a\n'1': b\n0x1: c\n+1: d\n", ["1", "0x1", "+1"]),
    ("-0.0: neg\n0.0: pos\n0: int\n-0: nint\n", ["-0.0", "0.0", "0", "-0"]),
    (".nan: a\n.NaN: b\n.NAN: c\n", [".nan", ".NaN"]),
    ("[a, b]: seq\n? {k: v}\n: map\n\"[a, b]\": str\n", ["[a, b]", "{k: v}"]),
    ("- a\n- b\n- {a: 1}\n- [x]\n", ["a", "0"]),
    ("plain scalar", ["plain scalar", "a"]),
    ("~", ["~", ""]),
    ("", [""]),
    ("&x a: 1\n*x : 2\nb: *x\n", ["a", "b", "x"]),
    ("a: 1\n---\nb: 2\n", ["a", "b"]),
    ('"\\u00e9": esc\n\u00e9: plain\n"e\\u0301": decomposed\n', ["\u00e9", "e\u0301"]),
    ("\U0001f600: emoji\n\"\\U0001F600\": esc\n", ["\U0001f600"]),
    ('"": empty\n? \n: nullkey\n', ["", "~"]),
    ("{a: {a: {a: deep}}, [[a]]: x, {a: {a: 1}}: y}", ["a"]),
    ("? [1, 2]\n: a\n? [1, 2]\n: b\n? [2, 1]\n: c\n", ["[1, 2]"]),
    ("? {a: 1, b: 2}\n: x\n? {b: 2, a: 1}\n: y\n", ["a", "b"]),
    ("!!int x: bad\n!!int y: bad2\nz: ok\n", ["x", "y", "z", "!!int x"]),
    ("!!str 1: tagged\n1: int\n", ["1"]),
    ("key: |\n  block\n  text\n\"key\": dq\n", ["key"]),
    ("k: &a [1, 2]\n*a : again\n", ["k"]),
    ("{a: 1, a: 2, a: 3}", ["a"]),
    ("{0: zero, 1: one, 2: two, 18446744073709551615: big, 9223372036854775807: max}", ["0", "1"]),
    ("[[a, b], {c: d}, ~, 1, 1.0, '1', true]", ["1", "c"]),
    ("1e3: a\n1000.0: b\n1000: c\n", ["1e3", "1000.0", "1000"]),
    ("0.1: a\n1e-1: b\n0.10: c\n", ["0.1", "1e-1", "0.10"]),
]


def unq(atom):
    """the string a reader would type for this key"""
    a = atom
    for t in ("!!str ", "!!int ", "!!float ", "!!null ", "!!bool ", "!foo "):
        if a.startswith(t):
            a = a[len(t):]
    if len(a) >= 2 and a[0] == a[-1] and a[0] in "'\"":
        a = a[1:-1]
        a = a.replace("\\u00e9", "\u00e9").replace("\\x61", "a").replace("\\n", "\n")
    return a


def gen_atom(rng, key):
    r = rng.random()
    if r < 0.36:
        return rng.choice(STR_ATOMS)
    if r < 0.54:
        return rng.choice(INT_ATOMS)
    if r < 0.68:
        return rng.choice(FLOAT_ATOMS)
    if r < 0.78:
        return rng.choice(OTHER_ATOMS)
    if r < 0.81:
        return rng.choice(BAD_ATOMS)
    return rng.choice(COLL_ATOMS)


def gen_node(rng, depth):
    """('atom', text) | ('map', [(knode, vnode)]) | ('seq', [node])"""
    r = rng.random()
    if depth <= 0 or r < 0.45:
        return ("atom", gen_atom(rng, False))
    if r < 0.8:
        n = rng.choice([0, 1, 2, 2, 3, 4, 6])
        return ("map", [(gen_key(rng, depth - 1), gen_node(rng, depth - 1)) for _ in range(n)])
    n = rng.choice([0, 1, 2, 3, 5])
    return ("seq", [gen_node(rng, depth - 1) for _ in range(n)])


def gen_key(rng, depth):
    if depth > 0 and rng.random() < 0.08:
        return gen_node(rng, depth)
    return ("atom", gen_atom(rng, True))


def flow(n):
    if n[0] == "atom":
        return n[1]
    if n[0] == "seq":
        return "[" + ", ".join(flow(x) for x in n[1]) + "]"
    return "{" + ", ".join("%s: %s" % (flow(k), flow(v)) for k, v in n[1]) + "}"


def multiline(s):
    return "\n" in s


def block(n, ind, rng):
    pad = " " * ind
    if n[0] == "atom" or not n[1]:
        return pad + flow(n) + "\n"
    out = []
    if n[0] == "seq":
        for x in n[1]:
            if x[0] != "atom" and x[1] and rng.random() < 0.5:
                out.append(pad + "-\n" + block(x, ind + 2, rng))
            else:
                out.append(pad + "- " + flow(x) + "\n")
        return "".join(out)
    for k, v in n[1]:
        ks = flow(k)
        nested = v[0] != "atom" and v[1] and rng.random() < 0.5
        if k[0] != "atom" or rng.random() < 0.12 or len(ks) > 60:
            out.append(pad + "? " + ks + "\n")
            out.append(pad + ":\n" + block(v, ind + 2, rng) if nested else pad + ": " + flow(v) + "\n")
        else:
            out.append(pad + ks + ":\n" + block(v, ind + 2, rng) if nested else pad + ks + ": " + flow(v) + "\n")
    return "".join(out)


def root_key_texts(n):
    if n[0] == "map":
        return [unq(flow(k)) for k, _ in n[1]]
    if n[0] == "seq":
        return [unq(flow(x)) for x in n[1] if x[0] == "atom"]
    return [unq(flow(n))]


def pick_probes(rng, texts, nvar=3):
    probes = []
    for t in texts:
        if t not in probes:
            probes.append(t)
    probes = probes[:8]
    for _ in range(nvar):
        v = rng.choice(PROBE_VARIANTS)
        if v not in probes:
            probes.append(v)
    return probes


def pick_ints(rng, n):
    ln = len(n[1]) if n[0] in ("map", "seq") else 0
    pool = [0, 1, 2, 3, 7, 10, max(ln - 1, 0), ln, ln + 1, 2 ** 63 - 1, 2 ** 63, 2 ** 64 - 1, 2 ** 32]
    out = [1]
    for t in root_key_texts(n):                 # integers that are the text of a (string or other) key
        if t.isdigit() and t.isascii() and int(t) < 2 ** 64 and int(t) not in out and len(out) < 5:
            out.append(int(t))
    for _ in range(4):
        v = rng.choice(pool)
        if v not in out:
            out.append(v)
    return out


def c20_cases(tier, rng):
    """list of dict(text, probes, ints, group)"""
    cases = []
    for text, probes in HANDWRITTEN:
        cases.append(dict(text=text, probes=pick_probes(rng, probes, 4),
                          ints=[0, 1, 2, 3, 2 ** 63 - 1, 2 ** 63, 2 ** 64 - 1], group="handwritten"))
    n = 6000 if tier == "quick" else 150000
    for i in range(n):
        depth = rng.choice([1, 1, 2, 2, 3])
        r = rng.random()
        if r < 0.75:
            nkeys = rng.choice([1, 2, 3, 4, 5, 6, 8, 12])
            node = ("map", [(gen_key(rng, depth - 1), gen_node(rng, depth - 1)) for _ in range(nkeys)])
        elif r < 0.93:
            node = ("seq", [gen_node(rng, depth - 1) for _ in range(rng.choice([0, 1, 2, 3, 5, 9]))])
        else:
            node = ("atom", gen_atom(rng, False))
        style = "flow" if rng.random() < 0.5 else "block"
        text = flow(node) if style == "flow" else block(node, 0, rng)
        cases.append(dict(text=text, probes=pick_probes(rng, root_key_texts(node)), ints=pick_ints(rng, node),
                          group="random-" + style + "-" + node[0]))
    seen = set()
    out = []
    for c in cases:
        key = (c["text"], tuple(c["probes"]), tuple(c["ints"]))
        if key not in seen:
            seen.add(key)
            out.append(c)
    return out


def case_line(c):
    line = enc(c["text"])
    for p in c["probes"]:
        line += " # " + enc(p)
    if c["ints"]:
        line += " @ " + " ".join(str(i) for i in c["ints"])
    return line


# ------------------------------------------------------------------------------------------------
# reading the harness output
# ------------------------------------------------------------------------------------------------
class DumpParser:
    def __init__(self, s):
        self.s, self.i = s, 0

    def peek(self):
        return self.s[self.i] if self.i < len(self.s) else ""

    def take(self, chars):
        j = self.i
        while self.i < len(self.s) and self.s[self.i] in chars:
            self.i += 1
        return self.s[j:self.i]

    def expect(self, c):
        if self.peek() != c:
            raise ValueError("dump: expected %r at %d in %r" % (c, self.i, self.s))
        self.i += 1

    @staticmethod
    def cps(t):
        return "".join(chr(int(x)) for x in t.split(".")) if t else ""

    def node(self):
        c = self.peek()
        self.i += 1
        if c == "N":
            return ("N",)
        if c == "X":
            return ("X",)
        if c == "B":
            d = self.peek()
            self.i += 1
            return ("B", d == "1")
        if c == "I":
            neg = self.peek() == "-"
            if neg:
                self.i += 1
            self.expect("0")
            self.expect("x")
            v = int(self.take("0123456789abcdef"), 16)
            return ("I", -v if neg else v)
        if c == "F":
            h = self.s[self.i:self.i + 16]
            self.i += 16
            return ("F", int(h, 16))
        if c == "S":
            return ("S", self.cps(self.take("0123456789.")))
        if c == "A":
            return ("A", int(self.take("0123456789")))
        if c == "R":
            st = self.peek()
            self.i += 1
            self.expect(",")
            if self.peek() == "-":
                self.i += 1
                tg = None
            else:
                self.expect("h")
                self.expect("=")
                h = self.cps(self.take("0123456789."))
                self.expect("/")
                self.expect("s")
                self.expect("=")
                tg = (h, self.cps(self.take("0123456789.")))
            self.expect(",")
            return ("R", self.cps(self.take("0123456789.")), st, tg)
        if c == "Q":
            self.expect("[")
            items = []
            if self.peek() == "]":
                self.i += 1
                return ("Q", tuple(items))
            while True:
                items.append(self.node())
                if self.peek() == ",":
                    self.i += 1
                else:
                    self.expect("]")
                    return ("Q", tuple(items))
        if c == "M":
            self.expect("{")
            items = []
            if self.peek() == "}":
                self.i += 1
                return ("M", tuple(items))
            while True:
                k = self.node()
                self.expect("=")
                v = self.node()
                items.append((k, v))
                if self.peek() == ",":
                    self.i += 1
                else:
                    self.expect("}")
                    return ("M", tuple(items))
        raise ValueError("dump: bad node %r at %d in %r" % (c, self.i, self.s))


def parse_dump(s):
    p = DumpParser(s)
    n = p.node()
    if p.i != len(s):
        raise ValueError("dump: trailing input in %r" % s)
    return n


def undump(n):
    """inverse of parse_dump (to print expected values in the harness' form)"""
    t = n[0]
    cps = lambda s: ".".join(str(ord(c)) for c in s)
    if t in ("N", "X"):
        return t
    if t == "B":
        return "B1" if n[1] else "B0"
    if t == "I":
        return "I%s0x%x" % ("-" if n[1] < 0 else "", abs(n[1]))
    if t == "F":
        return "F%016x" % n[1]
    if t == "S":
        return "S" + cps(n[1])
    if t == "A":
        return "A%d" % n[1]
    if t == "R":
        tg = "-" if n[3] is None else "h=%s/s=%s" % (cps(n[3][0]), cps(n[3][1]))
        return "R%s,%s,%s" % (n[2], tg, cps(n[1]))
    if t == "Q":
        return "Q[" + ",".join(undump(x) for x in n[1]) + "]"
    return "M{" + ",".join("%s=%s" % (undump(k), undump(v)) for k, v in n[1]) + "}"


def f64_class(bits):
    """the Eq class of an OrderedFloat: NaN, zero, or the bits"""
    ex, man = (bits >> 52) & 0x7ff, bits & ((1 << 52) - 1)
    if ex == 0x7ff and man:
        return "nan"
    if bits & ((1 << 63) - 1) == 0:
        return "zero"
    return bits


def node_eq(a, b):
    """independent reading of Eq: same variant, same content; floats by OrderedFloat class; order-sensitive"""
    if a[0] != b[0]:
        return False
    t = a[0]
    if t == "F":
        return f64_class(a[1]) == f64_class(b[1])
    if t == "Q":
        return len(a[1]) == len(b[1]) and all(node_eq(x, y) for x, y in zip(a[1], b[1]))
    if t == "M":
        return len(a[1]) == len(b[1]) and all(node_eq(k, k2) and node_eq(v, v2) for (k, v), (k2, v2) in zip(a[1], b[1]))
    return a == b


def parse_section(sec):
    """'<type>!D..!P..!J..!K..!E..' -> dict"""
    f = sec.split("!")
    d = dict(type=f[0], dump=None, P=[], J=[], K=[], E=None, raw="!".join(f[1:]), empty=False)
    for x in f[1:]:
        if x == "EMPTY":
            d["empty"] = True
        elif x[0] == "D":
            d["dump"] = x[1:]
        elif x[0] == "P":
            d["P"].append(x[1:].split(":"))
        elif x[0] == "J":
            d["J"].append(x[1:].split(":"))
        elif x[0] == "K":
            dm, ops = x[1:].split("~")
            d["K"].append((dm, ops))
        elif x[0] == "E":
            d["E"] = x[1:].split("_")
    return d


def cps_str(t):
    return "".join(chr(int(x)) for x in t.split(".")) if t else ""


def oracle_section(sec):
    """The property on ONE node type's observed behaviour.  Returns a list of failure descriptions."""
    bad = []
    root = parse_dump(sec["dump"])
    pairs = root[1] if root[0] == "M" else ()
    items = root[1] if root[0] == "Q" else ()
    # -- string lookups
    for rec in sec["P"]:
        if len(rec) != 7:
            bad.append("probe record malformed / mutable and shared accessors disagree: %s" % ":".join(rec)[:300])
            continue
        kc, flags, vget, vidx, vexp, ops_b, ops_o = rec
        k = cps_str(kc)
        expected = None
        for key, val in pairs:
            if key == ("S", k):                      # some key is a resolved string equal to k (first one)
                expected = undump(val)
                break
        want = "1" if expected is not None else "0"
        names = ["as_mapping_get", "contains_mapping_key", "index[k] returns", "get(&Value(String(k)))",
                 "as_mapping_get_mut", "index_mut[k] returns"]
        if len(set(flags)) != 1 or flags[0] not in "01":
            bad.append("the lookups for key %r disagree: %s" % (k, ", ".join("%s=%s" % z for z in zip(names, flags))))
        elif flags[0] != want:
            bad.append("key %r: lookups report %s but %s key is the string %r" % (
                k, "presence" if flags[0] == "1" else "absence", "no" if want == "0" else "a", k))
        exp_v = expected if expected is not None else "-"
        for nm, v, fl in (("as_mapping_get", vget, flags[0]), ("index", vidx, flags[2]), ("get(&node)", vexp, flags[3])):
            if fl == "1" and v != exp_v:
                bad.append("key %r: %s returned %s, the first entry with that key holds %s" % (k, nm, v[:80], exp_v[:80]))
        if ops_b != ops_o:
            bad.append("borrowed and owned string node %r receive different hasher calls: %s / %s" % (k, ops_b, ops_o))
        for dm, ops in sec["K"]:
            if dm == "S" + kc and ops != ops_b:
                bad.append("key node %r and the needle built for it hash differently: %s / %s" % (k, ops, ops_b))
    # -- integer lookups
    for rec in sec["J"]:
        if len(rec) != 5:
            bad.append("integer record malformed / mutable and shared accessors disagree: %s" % ":".join(rec)[:300])
            continue
        i = int(rec[0])
        x, s, m, xm, sm = rec[1]
        vx, vs, vm = rec[2], rec[3], rec[4]
        exp_seq = undump(items[i]) if root[0] == "Q" and i < len(items) else None
        exp_map = None
        if root[0] == "M" and i < 2 ** 63:
            for key, val in pairs:
                if key == ("I", i):
                    exp_map = undump(val)
                    break
        exp_x = exp_seq if root[0] == "Q" else exp_map
        if (x, vx) != (("1", exp_x) if exp_x is not None else ("0", "-")):
            bad.append("node[%d] %s, expected %s" % (i, "returned " + vx[:80] if x == "1" else "panicked", exp_x))
        if (s, vs) != (("1", exp_seq) if exp_seq is not None else ("0", "-")):
            bad.append("as_sequence_get(%d) gave %s/%s, expected %s" % (i, s, vs[:80], exp_seq))
        if (m, vm) != (("1", exp_map) if exp_map is not None else ("0", "-")):
            bad.append("mapping.get(&Integer(%d)) gave %s/%s, expected %s" % (i, m, vm[:80], exp_map))
        if xm != x or sm != s:
            bad.append("mutable integer accessors disagree with the shared ones for %d: %s" % (i, rec[1]))
    # -- Eq and Hash of the subjects
    K, E = sec["K"], sec["E"]
    nodes = [parse_dump(dm) for dm, _ in K]
    if E is None or len(E) != len(K) or any(len(r) != len(K) for r in E):
        bad.append("== matrix malformed")
        return bad
    for a in range(len(K)):
        for b in range(len(K)):
            eq = E[a][b] == "1"
            if eq and K[a][1] != K[b][1]:
                bad.append("%s == %s but their hasher calls differ: %s / %s" % (K[a][0][:80], K[b][0][:80], K[a][1][:200], K[b][1][:200]))
            if eq != node_eq(nodes[a], nodes[b]):
                bad.append("%s == %s is %s, contents say %s" % (K[a][0][:80], K[b][0][:80], eq, not eq))
            if E[a][b] != E[b][a]:
                bad.append("== is not symmetric on %s, %s" % (K[a][0][:80], K[b][0][:80]))
    if root[0] == "M":                                 # K = root, k1, v1, k2, v2, ...: keys of a map are pairwise unequal
        kidx = list(range(1, len(K), 2))
        for a in kidx:
            for b in kidx:
                if a < b and E[a][b] == "1":
                    bad.append("the mapping holds two equal keys %s, %s" % (K[a][0][:80], K[b][0][:80]))
    return bad


def model_case_line(dump, c):
    cps = lambda s: ".".join(str(ord(ch)) for ch in s)
    line = dump
    for p in c["probes"]:
        line += "#" + cps(p)
    if c["ints"]:
        line += "@" + " ".join("%d:%x" % (i, i) for i in c["ints"])
    return line


def run_mode(res, cases, lines, mode, stats):
    impl = core.run_bin("hx_c20", [mode], lines)
    todo = []                # (case index, [sections])
    for i, c in enumerate(cases):
        out = impl[i]
        res.evaluations += 1
        cd = dict(input=c["text"], codepoints=enc(c["text"]), probes=c["probes"], ints=[str(x) for x in c["ints"]], load=mode)
        if out.startswith("ERR@"):
            stats["load-error"] = stats.get("load-error", 0) + 1
            continue
        if not out.startswith("OK "):
            res.add_violation("lookup / hashing aborted abnormally: %s" % out[:200], cd, impl=out[:400])
            continue
        secs = [parse_section(s) for s in out[3:].split(" ;; ")]
        if len(secs) != 4 or [s["type"] for s in secs] != TYPES:
            res.add_tie_break("harness output malformed", case=c["text"], out=out[:300])
            continue
        if all(s["empty"] for s in secs):
            stats["empty-stream"] = stats.get("empty-stream", 0) + 1
            continue
        failed = False
        try:
            for s in secs:
                for b in oracle_section(s):
                    failed = True
                    res.add_violation("%s: %s" % (s["type"], b), cd, impl=("!".join([s["type"], s["raw"]]))[:1500])
                    break
            # the four node types behave identically and their copies of the same node hash identically
            for s in secs[1:]:
                if s["raw"] != secs[0]["raw"] and not failed:
                    failed = True
                    what = "node types yaml and %s differ in lookups / == / hasher calls" % s["type"]
                    for (d0, o0), (d1, o1) in zip(secs[0]["K"], s["K"]):
                        if d0 == d1 and o0 != o1:
                            what = "copies of node %s hash differently: yaml %s, %s %s" % (d0[:80], o0[:200], s["type"], o1[:200])
                            break
                    res.add_violation(what, cd, yaml=secs[0]["raw"][:1200], other=s["raw"][:1200])
        except (ValueError, IndexError) as e:
            res.add_tie_break("harness output unreadable: %s" % e, case=c["text"], out=out[:300])
            continue
        todo.append((i, secs))
        # statistics / non-triviality
        root = parse_dump(secs[0]["dump"])
        stats["root-" + root[0]] = stats.get("root-" + root[0], 0) + 1
        found = sum(1 for r in secs[0]["P"] if len(r) == 7 and r[1][0] == "1")
        absent = sum(1 for r in secs[0]["P"] if len(r) == 7 and r[1][0] == "0")
        stats["probes-found"] = stats.get("probes-found", 0) + found
        stats["probes-absent"] = stats.get("probes-absent", 0) + absent
        stats["int-probes-hit"] = stats.get("int-probes-hit", 0) + sum(1 for r in secs[0]["J"] if len(r) == 5 and r[1][0] == "1")
        stats["int-probes-panic"] = stats.get("int-probes-panic", 0) + sum(1 for r in secs[0]["J"] if len(r) == 5 and r[1][0] == "0")
        if root[0] == "M":
            for k, _ in root[1]:
                stats["key-" + k[0]] = stats.get("key-" + k[0], 0) + 1
            near = 0
            for r in secs[0]["P"]:
                if len(r) == 7 and r[1][0] == "0":
                    k = cps_str(r[0])
                    # a non-string key whose usual spelling is the probe
                    for key, _ in root[1]:
                        if (key[0] == "I" and k in (str(key[1]), hex(key[1]))) or (key[0] == "B" and k == ("true" if key[1] else "false")) \
                                or (key[0] == "N" and k in ("~", "null", "NULL", "")) or (key[0] == "F" and k in c["text"] and k) \
                                or (key[0] == "R" and key[1] == k):
                            near += 1
                            break
            stats["probes-absent-but-text-of-a-non-string-key"] = stats.get("probes-absent-but-text-of-a-non-string-key", 0) + near
            if len(root[1]) >= 2 and found >= 1:
                res.nontrivial.add((mode, secs[0]["dump"], tuple(c["probes"])))
        dup = sum(1 for a, row in enumerate(secs[0]["E"] or []) for b, ch in enumerate(row) if a < b and ch == "1")
        if dup:
            stats["cases-with-equal-subject-pairs"] = stats.get("cases-with-equal-subject-pairs", 0) + 1
    # correspondence with the Coq model
    mlines = [model_case_line(secs[0]["dump"], cases[i]) for i, secs in todo]
    model = core.run_mx(["lookup", "good"], mlines, tag=ID)
    nbad = 0
    for (i, secs), mo in zip(todo, model):
        ms = mo.split(" ;; ")
        if len(ms) != 2:
            res.add_tie_break("model driver failed", case=cases[i]["text"], model=mo[:300], dump=secs[0]["dump"][:300])
            continue
        for s, m in zip(secs, (ms[0], ms[0], ms[1], ms[1])):
            if s["raw"] != m:
                nbad += 1
                if nbad <= 10:
                    a, b = s["raw"].split("!"), m.split("!")
                    diff = [(x, y) for x, y in zip(a, b) if x != y][:3]
                    res.add_tie_break("correspondence: model (hash_stream / hyaml_eqb / lookups) != implementation, type %s (%s)" % (s["type"], mode),
                                      case=cases[i]["text"], probes=cases[i]["probes"], first_differences=[(x[:300], y[:300]) for x, y in diff])
                break
    stats["traces-validated-" + mode] = len(todo)
    return impl


def check_C20(tier, seed):
    res = Result(ID, tier, seed)
    proof = prepare(ID, res, model_tags=(ID,))
    rng = gen.rng_for(seed, ID)
    cases = c20_cases(tier, rng)
    groups = {}
    for c in cases:
        groups[c["group"]] = groups.get(c["group"], 0) + 1
    res.coverage["input_distribution"] = dict(groups=groups, probes_per_case=round(sum(len(c["probes"]) for c in cases) / max(1, len(cases)), 2),
                                              int_probes_per_case=round(sum(len(c["ints"]) for c in cases) / max(1, len(cases)), 2))
    res.coverage["node_types"] = TYPES
    res.coverage["load_modes"] = ["eager (resolved scalars)", "deferred (Representation nodes; every 4th case)"]
    if res.harness_ok and res.model_ok:
        lines = [case_line(c) for c in cases]
        stats = {}
        impl = run_mode(res, cases, lines, "eager", stats)
        sub = [i for i in range(len(cases)) if i % 4 == 0 or cases[i]["group"] == "handwritten"]
        stats_d = {}
        run_mode(res, [cases[i] for i in sub], [lines[i] for i in sub], "deferred", stats_d)
        res.coverage["eager"] = stats
        res.coverage["deferred"] = stats_d
        # "nodes that compare equal hash equally", across two separately loaded texts, eager and deferred, four node types
        # (hx_c07 eqpair: E/H = equal / hashes equal for the eager documents, D/G for the deferred ones): every case text
        # against itself, against its neighbour, and the same tag written in two ways (deferred leaves keep it as written)
        texts = [c["text"] for c in cases if 0 < len(c["text"]) <= 600]
        pairs = [(t, t) for t in texts[:2500]] + list(zip(texts[:1500], texts[1:1501]))
        pairs += [("!!str a\n", "!<tag:yaml.org,2002:str> a\n"), ("- !!int 1\n", "- !<tag:yaml.org,2002:int> 1\n"),
                  ("%TAG !e! tag:x,\n--- !e!ab c\n", "%TAG !e! tag:x,a\n--- !e!b c\n"), ("k: !local v\n", "k: !<!local> v\n"),
                  ("%TAG !y! tag:yaml.org,2002:\n--- !y!str a\n", "!!str a\n"),
                  ("{!!str a: !!int 1}\n", "{!<tag:yaml.org,2002:str> a: !<tag:yaml.org,2002:int> 1}\n"),
                  ("{0.0: a}\n", "{-0.0: a}\n"), ("[.nan]\n", "[.NaN]\n"), ("1\n", "0x1\n"), ("'1'\n", "\"1\"\n")]
        ep = core.run_bin("hx_c07", ["eqpair"], ["%s#%s" % (core.enc(a), core.enc(b)) for a, b in pairs])
        eqs = dict(equal=0, different=0, skipped=0)
        for (a, b), o in zip(pairs, ep):
            res.evaluations += 1
            f = o.split("|")
            if o.startswith("|PANIC") or len(f) != 4:
                res.add_violation("eq/hash of two loaded texts panicked", dict(input=a, other=b), out=o[:200])
                continue
            if "SKIP" in f:
                eqs["skipped"] += 1
                continue
            eqs["equal" if f[0][:2] == "E1" else "different"] += 1
            for t, r in zip(TYPES, f):
                if (r[:2] == "E1" and r[2:4] != "H1") or (r[4:6] == "D1" and r[6:8] != "G1"):
                    res.add_violation("%s nodes compare equal but hash differently (E/H eager, D/G deferred)" % t,
                                      dict(input=a, other=b, node=t), out=o)
        res.coverage["eq_implies_hash_pairs"] = eqs
        res.coverage["traces_validated_against_impl"] = stats.get("traces-validated-eager", 0) + stats_d.get("traces-validated-deferred", 0)
        for i in (0, 4, len(cases) // 3, len(cases) // 2, len(cases) - 3):
            if 0 <= i < len(cases):
                sec = impl[i].split(" ;; ")[0]
                res.samples.append(dict(input=cases[i]["text"], probes=cases[i]["probes"],
                                        yaml=[f[:140] for f in sec.split("!") if f[:1] in "DPJ"][:8]))
    rule = ("YAML texts (hand-written corner cases; random flow and block mappings / sequences / scalars, depth <= 3, keys drawn from "
            "strings, integers in several spellings, floats incl. -0.0/.nan/.inf, booleans, nulls, tagged and bad-tagged scalars, "
            "collections; duplicates arise from the spellings) x probes (the text of every root key, type-like variants, absent strings) "
            "x usize probes (in range, out of range, 2^63-1, 2^63, 2^64-1) x 4 node types x {eager, deferred}; non-trivial = distinct "
            "(load mode, root mapping with >= 2 keys, probes) where at least one probe is found")
    return res.finish(proof, rule)
