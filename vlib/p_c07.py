"""C07 — loaded documents mirror the event stream exactly.

Oracle   : Spec/BuildDocs.v `spec_of_events` (extracted, build/ocaml_c07/mx all, field 1) applied to the
           IMPLEMENTATION's own events, compared with the implementation's loaded documents.
Tie      : Model/Loader.v `load_events` on the same events (field 0) and the whole string->documents model
           (main unit, `mx load`) against the real loader.
Inputs   : (1) the C01 parse space (only accepted inputs reach the oracle; for the others: the load fails with
               the parser's own error);
           (2) synthetic event sentences pushed straight into the real YamlLoader (hx_c07 load): exhaustive
               key patterns of small mappings, random trees with aliases (to closed, open, unknown nodes),
               duplicate / complex / BadValue keys, several documents; plus mutilated sentences for the tie of
               the panic sites.
(The sentence generator below is shared with p_c19.py.)"""
import re

from . import core, gen
from .core import Result, enc, prepare, run_bin, run_hx, run_mx, split_line
from .props import abnormal, c08_float_class, dedupe, size_hist

CORE = "116.97.103.58.121.97.109.108.46.111.114.103.44.50.48.48.50.58"      # tag:yaml.org,2002:

_FLOAT = re.compile(r"(?<![A-Za-z0-9])(F[0-9a-f]{16}|Fd-?0x[0-9a-f]+\^-?0x[0-9a-f]+|Fnan|F-inf|Finf)(?![0-9a-z])")


def canon(d):
    """floats: model prints exact decimals, implementation bit patterns -> sign/NaN class (values: C08)"""
    return _FLOAT.sub(lambda m: c08_float_class(m.group(1)), d)


def zero_sign_blind(d):
    return d.replace("F8000000000000000", "F0000000000000000")


def cps(s):
    return ".".join(str(ord(c)) for c in s)


# ------------------------------------------------------------------------------------------------
# synthetic sentences
# ------------------------------------------------------------------------------------------------
def tag_txt(t):
    if t is None:
        return "-"
    h, s = t
    return "h=%s/s=%s" % (h if h == CORE else cps(h), cps(s))


TAGS = [None, None, None, None, (CORE, "int"), (CORE, "str"), (CORE, "float"), (CORE, "bool"), (CORE, "null"),
        ("!", "foo")]
TEXTS = ["a", "b", "c", "", "1", "01", "0x1", "0o1", "+1", "1.0", "1.00", "1e0", "0.0", "-0.0", "0", "-0", "~", "null",
         "Null", "true", "True", "false", ".nan", ".NaN", ".inf", "-.inf", "x y", "2", "0x2", "k",
         # 64-bit boundary band: the value of each is decided by the resolver model (C08), the loader must keep it
         "0xFFFFFFFFFFFFFFFF", "0x8000000000000000", "0x7FFFFFFFFFFFFFFF", "+9223372036854775808", "9223372036854775807",
         "-9223372036854775808", "9223372036854775808", "-9223372036854775809", "0o1000000000000000000000",
         "0o777777777777777777777", "+18446744073709551615", "0x", "0o8", "1_000"]
# (no overflowing / denormal decimals here: as mapping keys they collide after rounding, which the exact-decimal spec
#  of the float value cannot see; rounding is C08's subject)
STYLES = "PPPPPSDLF"


class Sent:
    """builds one sentence; hands out anchor ids like the parser (increasing from 1)"""

    def __init__(self, rng):
        self.rng = rng
        self.evs = []
        self.next_id = 1

    def anchor(self, p=0.25):
        if self.rng.random() < p:
            self.next_id += 1
            return self.next_id - 1
        return 0

    def scalar(self, text=None, style=None, tag=0, aid=None):
        r = self.rng
        text = r.choice(TEXTS) if text is None else text
        style = r.choice(STYLES) if style is None else style
        tag = r.choice(TAGS) if tag == 0 else tag
        aid = self.anchor(0.2) if aid is None else aid
        self.evs.append("SC%s,%d,%s,%s" % (style, aid, tag_txt(tag), cps(text)))

    def alias(self):
        # mostly an id handed out already (closed or still open), sometimes one never defined
        hi = self.next_id + (1 if self.rng.random() < 0.15 else 0)
        self.evs.append("AL%d" % self.rng.randrange(1, max(2, hi)))

    def node(self, depth):
        r = self.rng
        x = r.random()
        if depth <= 0 or x < 0.45:
            if x < 0.12 and self.next_id > 1:
                self.alias()
            else:
                self.scalar()
        elif x < 0.7:
            self.evs.append("QS%d,%s" % (self.anchor(), tag_txt(r.choice(TAGS[:5] + [("!", "s")]))))
            for _ in range(r.randrange(0, 4)):
                self.node(depth - 1)
            self.evs.append("QE")
        else:
            self.evs.append("MS%d,%s" % (self.anchor(), tag_txt(r.choice([None, None, ("!", "m")]))))
            for _ in range(r.randrange(0, 5)):
                k = r.random()
                if k < 0.15:
                    self.node(depth - 1)                      # complex / alias / any key
                elif k < 0.25:
                    self.scalar(text="a", style="P", tag=(CORE, "int"), aid=0)      # BadValue key
                else:
                    self.scalar(text=r.choice(["1", "0x1", "a", "0.0", "-0.0", "1.0", "~", "null", "b", "01"]),
                                style=r.choice("PPPPD"), tag=r.choice([None, None, None, (CORE, "str")]))
                self.node(depth - 1)
            self.evs.append("ME")

    def doc(self, depth):
        self.evs.append("DS%d" % self.rng.randrange(2))
        self.node(depth)
        self.evs.append("DE")


def with_spans(evs):
    """deterministic, pairwise different spans (the loader does not interpret them)"""
    out = []
    for k, e in enumerate(evs):
        out.append("%s@%d:%d:%d-%d:%d:%d" % (e, 3 * k, k // 4, k % 7, 3 * k + 2, k // 4, k % 7 + 2))
    return ";".join(out)


def random_sentences(n, rng):
    out = []
    for _ in range(n):
        s = Sent(rng)
        s.evs.append("SS")
        for _ in range(rng.choice([1, 1, 1, 2, 3])):
            s.doc(rng.choice([1, 2, 2, 3, 4]))
        s.evs.append("SE")
        out.append(with_spans(s.evs))
    return out


KEYS = [("1", None), ("0x1", None), ("0.0", None), ("-0.0", None), ("a", None), ("a", (CORE, "int")), "seq", "alias"]


def key_pattern_sentences(maxlen):
    """every mapping of up to maxlen entries with keys drawn from KEYS (equal after resolution: 1/0x1, 0.0/-0.0;
    BadValue key; a complex key; an alias key referring to the anchored scalar `a` in front), values v0, v1, ..."""
    import itertools
    out = []
    for n in range(maxlen + 1):
        for ks in itertools.product(range(len(KEYS)), repeat=n):
            evs = ["SS", "DS0", "QS0,-", "SCP,1,-,%s" % cps("a"), "MS0,-"]
            for j, ki in enumerate(ks):
                k = KEYS[ki]
                if k == "seq":
                    evs += ["QS0,-", "SCP,0,-,%s" % cps("a"), "QE"]
                elif k == "alias":
                    evs.append("AL1")
                else:
                    evs.append("SCP,0,%s,%s" % (tag_txt(k[1]), cps(k[0])))
                evs.append("SCP,0,-,%s" % cps("v%d" % j))
            evs += ["ME", "QE", "DE", "SE"]
            out.append(with_spans(evs))
    return out


DIRECTED = [
    # alias to the open collection that carries the anchor; alias as key; nested complex keys
    "SS;DS0;MS1,-;SCP,0,-,97;AL1;ME;DE;SE",
    "SS;DS0;QS1,-;AL1;SCP,2,-,120;AL2;QE;DE;DS1;AL1;DE;SE",
    "SS;DS0;MS0,-;MS0,-;QS0,-;SCP,0,-,97;QE;SCP,0,-,98;ME;MS0,-;ME;ME;DE;SE",
    "SS;DS0;QS0,-;SCP,1,-,107;MS0,-;AL1;SCP,0,-,49;AL1;SCP,0,-,50;ME;QE;DE;SE",
    # 0.0 / -0.0 / 0.0 as keys (the key object kept differs between eager and deferred+resolved: C19 finding)
    "SS;DS0;MS0,-;SCP,0,-,48.46.48;SCP,0,-,97;SCP,0,-,45.48.46.48;SCP,0,-,98;SCP,0,-,48.46.48;SCP,0,-,99;ME;DE;SE",
    "SS;DS0;MS0,-;SCP,0,h=%s/s=105.110.116,97;SCP,0,-,49;SCP,0,-,98;SCP,0,-,50;ME;DE;SE" % CORE,
    "SS;SE",
    "SS;DS0;SCP,0,-,;DE;SE",
]


def mutilate(sentences, rng, n):
    """drop / duplicate / swap one event: mostly NOT sentences any more (tie of the panic sites only)"""
    out = []
    for _ in range(n):
        evs = rng.choice(sentences).split(";")
        if len(evs) < 3:
            continue
        i = rng.randrange(len(evs))
        r = rng.random()
        if r < 0.4:
            del evs[i]
        elif r < 0.7:
            evs.insert(i, evs[i])
        else:
            j = rng.randrange(len(evs))
            evs[i], evs[j] = evs[j], evs[i]
        out.append(";".join(evs))
    return out


def synthetic(tier, rng):
    quick = tier == "quick"
    groups = [("directed", [with_spans(s.split(";")) for s in DIRECTED]),
              ("key-patterns<=%d/8" % (4 if quick else 5), key_pattern_sentences(4 if quick else 5)),
              ("random-trees", random_sentences(6000 if quick else 150000, rng))]
    return groups


def strip_spans(sentence):
    return ";".join(e.rsplit("@", 1)[0] for e in sentence.split(";")) if sentence else ""


# hx_c07 load output fields
F_NAMES = ["yaml", "owned", "marked", "markedowned"]


def impl_fields(line):
    f = line.split("|")
    if len(f) != 17:
        return None
    d = {}
    for t, name in enumerate(F_NAMES):
        d[name] = dict(eager=f[3 * t], deferred=f[3 * t + 1], resolved=f[3 * t + 2])
    d["spans"] = dict(marked_eager=f[12], marked_deferred=f[13], marked_resolved=f[14], markedowned_eager=f[15])
    d["flags"] = f[16]
    return d


MX_NAMES = ["model", "spec", "eager", "deferred", "resolved", "m_eager", "m_deferred", "m_resolved", "accepted", "eq"]


def mx_fields(line):
    f = line.split("|")
    if len(f) != len(MX_NAMES):
        return None
    return dict(zip(MX_NAMES, f))


def has_collection(d):
    return "Q[" in d or "M{" in d


# ------------------------------------------------------------------------------------------------
def check_C07(tier, seed):
    res = Result("C07", tier, seed)
    proof = prepare("C07", res, model_tags=("", "C07"))
    rng = gen.rng_for(seed, "C07")
    groups = gen.parse_space(tier, rng)
    groups.append(("directed-texts", ["{0.0: a, -0.0: b, 0.0: c}\n", "&a [*a, &b x, *b, {k: *b, k: 1, 0x1: b, 1: c}]\n--- *a\n",
                                      "? [a, {b: c}]\n: d\n? [a, {b: c}]\n: e\n", "{!!int a: 1, b: 2}\n", "&x k: *x\n",
                                      "- &a a\n- {*a : 1, *a : 2}\n", "a: 1\n---\n---\n- b\n...\n",
                                      "- 0xFFFFFFFFFFFFFFFF\n- 0x8000000000000000\n- +9223372036854775808\n- 0o1000000000000000000000\n"
                                      "- 9223372036854775807\n- -9223372036854775808\n- 9223372036854775808\n- +18446744073709551615\n",
                                      "{0x7FFFFFFFFFFFFFFF: a, 9223372036854775807: b, 0xFFFFFFFFFFFFFFFF: c, -1: d}\n"]))
    cases, dist = dedupe(groups)
    lines = [enc(s) for s in cases]
    syn_groups = synthetic(tier, rng)
    sents, sdist = dedupe(syn_groups)
    mutants, _ = dedupe([("mutilated", mutilate(sents, rng, 2000 if tier == "quick" else 40000))])
    res.coverage["input_distribution"] = dict(texts=dict(groups=dist, sizes=size_hist(cases)),
                                              sentences=dict(groups=sdist, mutilated=len(mutants)))
    if res.harness_ok and res.model_ok:
        # ---------------- (1) real inputs ----------------
        ev = run_hx(["push", "str:multi"], lines)          # the events Parser::load hands to the loader
        ld = run_hx(["load", "yaml", "eager"], lines)
        ldo = run_hx(["load", "owned", "eager"], lines)
        api = run_bin("hx_c07", ["api"], lines)             # the public entry points load_from_str / _iter / _parser
        pipe = run_mx(["load"], lines)                      # whole model: scanner + parser(load mode) + loader
        acc = [i for i in range(len(cases)) if split_line(ev[i])[1] == "OK"]
        mx = run_mx(["all"], [ev[i].rsplit("|", 1)[0] for i in acc], tag="C07")
        mxi = dict(zip(acc, mx))
        verdicts = dict(accepted=len(acc), rejected=0)
        checked_against_model = 0
        for i, s in enumerate(cases):
            res.evaluations += 1
            evs, fin = split_line(ev[i])
            case = dict(input=s, codepoints=lines[i])
            if abnormal(fin) or not (ld[i].startswith("OK") or ld[i].startswith("ERR@")):
                res.add_violation("load or event delivery ended abnormally", case, events=ev[i][-300:], load=ld[i][-300:])
                continue
            if ldo[i] != ld[i]:
                res.add_violation("Yaml and YamlOwned load differently", case, yaml=ld[i][-400:], owned=ldo[i][-400:])
            # load_from_str / load_from_iter / load_from_parser are wired to the same loader (error texts of the
            # char-iterator back-end are C10's business: only the verdict and the documents are compared there)
            a = api[i].split("|")
            if len(a) != 6 or a[5] != ld[i] or any((x[:2] != ld[i][:2]) or (x.startswith("OK") and x != ld[i]) for x in (a[0], a[4])):
                res.add_violation("load_from_str / load_from_iter / load_from_parser return other documents than the "
                                  "loader driven by Parser::load", case, api=api[i][-500:], load=ld[i][-300:])
            if fin != "OK":
                verdicts["rejected"] += 1
                # a load fails exactly when the parser reports an error, and with that error
                if ld[i] != fin:
                    res.add_violation("the parser reports an error but the load does not fail with it", case,
                                      events=fin, load=ld[i][-300:])
                if pipe[i].startswith("OK"):
                    res.add_tie_break("correspondence: model pipeline loads what the implementation rejects", case=s,
                                      model=pipe[i][-200:], impl=ld[i][-200:])
                continue
            if not ld[i].startswith("OK"):
                res.add_violation("the parser accepts the input but the load fails", case, load=ld[i][-300:])
                continue
            m = mx_fields(mxi[i])
            if m is None:
                res.add_tie_break("model driver failed on the implementation's events", case=s, out=mxi[i][-300:])
                continue
            impl = canon(ld[i])
            if m["accepted"] != "1" or m["spec"] == "NOSENTENCE":
                res.add_violation("events of a successful load are not a sentence (no tree decomposition)", case,
                                  events=ev[i][-400:])
                continue
            if canon(m["spec"]) != impl:
                res.add_violation("loaded documents differ from the specification (build_docs) applied to the "
                                  "implementation's own events", case, impl=ld[i][-600:], spec=m["spec"][-600:],
                                  events=ev[i][-600:])
            if canon(m["model"]) != impl:
                res.add_tie_break("correspondence: loader model on the real events != real loader", case=s,
                                  model=m["model"][-400:], impl=ld[i][-400:])
            if canon(pipe[i]) != impl:
                res.add_tie_break("correspondence: model pipeline (string -> documents) != real load", case=s,
                                  model=pipe[i][-400:], impl=ld[i][-400:])
            checked_against_model += 1
            if has_collection(ld[i]):
                res.nontrivial.add(ld[i])
        res.coverage["verdicts"] = verdicts
        # ---------------- (2) synthetic sentences into the real loader ----------------
        si = run_bin("hx_c07", ["load"], sents)
        sm = run_mx(["all"], sents, tag="C07")
        shapes = dict(alias=0, dupkeys=0, badkey=0, multi_doc=0)
        for j, sen in enumerate(sents):
            res.evaluations += 1
            case = dict(sentence=strip_spans(sen))
            f, m = impl_fields(si[j]), mx_fields(sm[j])
            if f is None or m is None:
                if f is None:
                    res.add_violation("the real loader failed on a synthetic sentence", case, out=si[j][-300:])
                else:
                    res.add_tie_break("model driver failed on a synthetic sentence", case=case, out=sm[j][-300:])
                continue
            impl = f["yaml"]["eager"]
            if not impl.startswith("OK"):
                res.add_violation("the real loader panicked on a grammatical sentence", case, out=impl[-300:])
                continue
            if f["owned"]["eager"] != impl:
                res.add_violation("Yaml and YamlOwned hold different data for one sentence", case,
                                  yaml=impl[-400:], owned=f["owned"]["eager"][-400:])
            if m["accepted"] != "1":
                res.add_tie_break("generator produced a non-sentence", case=case)
                continue
            if canon(m["spec"]) != canon(impl):
                res.add_violation("real loader on a synthetic sentence differs from the specification (build_docs)",
                                  case, impl=impl[-600:], spec=m["spec"][-600:])
            if canon(m["model"]) != canon(impl):
                res.add_tie_break("correspondence: loader model != real loader on a synthetic sentence", case=case,
                                  model=m["model"][-400:], impl=impl[-400:])
            checked_against_model += 1
            shapes["alias"] += ";AL" in sen
            shapes["badkey"] += "X=" in impl
            shapes["multi_doc"] += " ; " in impl
            shapes["dupkeys"] += sen.count(";SC") + sen.count(";AL") > 2 * impl.count("=") + impl.count(",") + 4 and "M{" in impl
            if has_collection(impl):
                res.nontrivial.add(impl)
        res.coverage["sentence_shapes"] = shapes
        # ---------------- tie of the panic sites on non-sentences ----------------
        mi = run_bin("hx_c07", ["load"], mutants)
        mm = run_mx(["all"], mutants, tag="C07")
        npanic = 0
        for j, sen in enumerate(mutants):
            res.evaluations += 1
            f, m = impl_fields(mi[j]), mx_fields(mm[j])
            if f is None or m is None:
                res.add_tie_break("driver failed on a mutilated sentence", case=strip_spans(sen), impl=mi[j][-200:], model=mm[j][-200:])
                continue
            impl = f["yaml"]["eager"]
            ip, mp = impl.startswith("PANIC"), m["model"].startswith("MODELPANIC")
            npanic += ip
            if ip != mp or (not ip and canon(impl) != canon(m["model"])):
                res.add_tie_break("correspondence: loader model != real loader on a non-sentence (panic sites / documents)",
                                  case=strip_spans(sen), model=m["model"][-300:], impl=impl[-300:])
        res.coverage["mutilated_panics"] = npanic
        res.coverage["traces_validated_against_impl"] = checked_against_model + len(mutants)
        for i in (acc[len(acc) // 3] if acc else None, acc[2 * len(acc) // 3] if acc else None):
            if i is not None:
                res.samples.append(dict(input=cases[i], events=ev[i][:300], loaded=ld[i][:300]))
        for j in (1, len(sents) // 2, len(sents) - 3):
            if 0 <= j < len(sents):
                res.samples.append(dict(sentence=strip_spans(sents[j])[:300], loaded=si[j].split("|")[0][:300]))
    if tier == "thorough" and proof.get("ok"):
        with core.Lock():
            ok, out = core.coqchk("C07")
        res.coverage["coqchk"] = "ok" if ok else "FAILED"
        if not ok:
            res.add_tie_break("coqchk rejects the compiled proofs", error=out[-1500:])
    rule = ("(1) the C01 input space (exhaustive small strings, token/line soups, yaml-test-suite variants, mutated suite, "
            "directed texts): accepted inputs are loaded and compared with the extracted specification applied to the "
            "implementation's own events; rejected inputs must fail to load with the parser's error; (2) synthetic event "
            "sentences pushed into the real YamlLoader: every mapping of <=4 entries over 8 key kinds, random trees with "
            "aliases to closed/open/unknown nodes, duplicate, complex and BadValue keys, several documents; (3) mutilated "
            "sentences for the panic sites of the model; non-trivial = distinct loaded document lists containing a collection")
    return res.finish(proof, rule)
