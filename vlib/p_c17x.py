"""C17, repeated Parser::load(recv, false): per-call segmentation, model vs implementation, and the one-document-per-call
oracle on the implementation.  Called from check_C17 (vlib/props.py) through the hook

    from .p_c17x import single_calls
    single_calls(res, cases, lines, plain["str"])

after `prepare("C17", res, model_tags=("", "C17"))`.

Implementation side: harness/src/bin/hx_c17.rs (`hx_c17 single str|iter`): the driver of `hx push str:single` with a '#'
between the calls.  Model side: the extracted `load_repeated_str` of coq/Model/Lazy.v (coq/Extract/ExtractC17.v,
ocaml/driver_c17.ml; theorems C17_single_load_is_iteration / C17_single_load_one_document_per_call)."""
from . import core
from .core import split_line, fin_pos

MODEL_MAX_CHARS = 4000     # the extracted model is slower than the implementation


def split_calls(line):
    """'seg#seg|FIN' -> ([[ev...], ...], FIN)"""
    i = line.rfind("|")
    if i < 0:
        return None, line
    body, fin = line[:i], line[i + 1:]
    return [seg.split(";") if seg else [] for seg in body.split("#")], fin


def shape_failures(segs, fin):
    """the statement of C17_single_load_one_document_per_call on one result: list of failure texts"""
    bad = []
    ok = fin == "OK"
    for j, seg in enumerate(segs):
        last = j == len(segs) - 1
        if last and not ok:
            continue                      # the failing call: the events before the error, whatever they are
        body = seg
        if j == 0:
            if not seg or not seg[0].startswith("SS@"):
                bad.append("call 1 does not start with StreamStart")
                continue
            body = seg[1:]
        if last:
            if len(body) != 1 or not body[0].startswith("SE@"):
                bad.append("the last call of a complete stream delivers %r, not StreamEnd alone" % body[:3])
            continue
        kinds = [e[:2] for e in body]
        if len(body) < 3 or kinds[0] != "DS" or kinds[-1] != "DE" or kinds.count("DS") != 1 or kinds.count("DE") != 1 \
                or "SE" in kinds or "SS" in kinds:
            bad.append("call %d does not deliver exactly one document: %r" % (j + 1, kinds[:12]))
            continue
        depth = 0
        for p, kk in enumerate(kinds[1:-1]):
            if kk in ("QS", "MS"):
                depth += 1
            elif kk in ("QE", "ME"):
                depth -= 1
            if depth < 0 or (depth == 0 and p != len(kinds) - 3):
                bad.append("call %d: the document holds more or less than one node" % (j + 1))
                break
        else:
            if depth != 0:
                bad.append("call %d: unbalanced document" % (j + 1))
    return bad


def single_calls(res, cases, lines, plain_str):
    """res: the Result of check_C17; cases/lines: inputs and their code-point encodings; plain_str: `hx events str` lines."""
    impl = {b: core.run_bin("hx_c17", ["single", b], lines) for b in ("str", "iter")}
    short = [l if len(cases[i]) <= MODEL_MAX_CHARS else None for i, l in enumerate(lines)]
    idx = [i for i, l in enumerate(short) if l is not None]
    mout = core.run_mx(["single"], [short[i] for i in idx], tag="C17")
    model = dict(zip(idx, mout))
    n_model = n_multi = 0
    for i, s in enumerate(cases):
        res.evaluations += 1
        ref = impl["str"][i]
        segs, fin = split_calls(ref)
        case = dict(input=s[:4000], codepoints=lines[i][:20000], api="load(recv, false) repeated")
        if segs is None or "PANIC" in fin or "BADCASE" in fin or "NOTRUN" in fin:
            if "NOTRUN" not in fin:
                res.add_violation("repeated load(recv, false) panics", case, impl=ref[-400:])
            continue
        if impl["iter"][i] != ref:
            res.add_violation("repeated load(recv, false): the calls deliver different events on the iterator back-end",
                              dict(case, backend="iter"), iter=impl["iter"][i][-500:], str=ref[-500:])
        # the calls together = the iteration (events, spans, error message and position)
        flat = ";".join(e for seg in segs for e in seg) + "|" + fin
        if flat != plain_str[i]:
            res.add_violation("repeated load(recv, false): the calls together do not deliver the iterator's events/spans/error",
                              case, calls=ref[-600:], pull=plain_str[i][-600:])
        # one document per call (oracle = the statement of C17_single_load_one_document_per_call)
        for b in shape_failures(segs, fin):
            res.add_violation("repeated load(recv, false): " + b, case, calls=ref[-600:])
        # model vs implementation: the same events in the same calls, the same error position
        if i in model:
            n_model += 1
            msegs, mfin = split_calls(model[i])
            if msegs != segs or fin_pos(mfin) != fin_pos(fin):
                res.add_tie_break("correspondence: extracted load_repeated_str (Model/Lazy.v) != implementation (events per call, spans, error position)",
                                  case=s[:2000], model=model[i][-500:], impl=ref[-500:])
            elif len(segs) >= 3:
                n_multi += 1
                res.nontrivial.add("single/%d" % i)
    res.coverage["single_calls"] = dict(inputs=len(cases), model_runs=n_model, model_matches_with_3plus_calls=n_multi,
                                        backends=["str", "iter"])
