"""C18 — Byte input decodes to the same documents, and decoding always ends.

Sides:
  implementation  build/cargo/debug/hx_c18  (YamlDecoder::decode under 7 trap configurations, watchdog; `text` mode =
                  Yaml::load_from_str)
  model           build/ocaml_c18/mx        (extracted coq/Model/Decode.v: choose_encoding; decode_loop over the toy decoder;
                                             coq/Model/Decoders.v: decode_model = detection + UTF-8 / UTF-16 decoder models with
                                             BOM sniffing inside the loop; coq/Spec/EncodingSpec.v: decode_spec, the one-shot
                                             specification the theorems equate it with)
  independent     Python's own utf-8 / utf-16-le / utf-16-be codecs (strict / ignore / replace)

Oracle (on the implementation's outputs):
  A  texts x 6 encodings x traps: the decoded documents equal the documents of the text loaded directly, under every
     trap, whenever the detection precondition of theorem C18_detect_ascii / C18_detect_bom holds;
  B  arbitrary bytes: every trap returns (no PANIC / TIMEOUT), Strict = decode error exactly when the input is malformed
     in the encoding the *model* detects (with the byte index and the sequence of the first malformed sequence), otherwise
     and for Ignore / Replace the documents of the independently decoded text; the callback traps behave like the built-in
     trap they imitate and see the right arguments;
  C  the loop model over the toy decoder agrees with the implementation on UTF-16LE input without surrogates
     (result class, error index and length, output length).
  D  the decoder models (coq/Model/Decoders.v: UTF-8, UTF-16LE/BE, BOM sniffing, capacity discipline) inside the loop
     model, extracted (`mx model`), and the one-shot specification (`mx spec`, coq/Spec/EncodingSpec.v: decode_spec)
     against the real `decode` on every byte string of B: result text (through the documents it loads as), error index and
     malformed bytes; under observing callbacks every invocation must agree in (malformation length, bytes after, rest of
     the input, capacity of the output String, characters decoded since the last invocation).  The callbacks
     obs-shrink<K> leave exactly K spare bytes, which makes the decoder's OutputFull rule visible in the capacity
     observed at the next malformation.
"""
import itertools
import json
import os
import time

from . import core, gen
from .core import Result, prepare, run_bin, run_mx

ID = "C18"
ALPHABET = [0x00, 0x0A, 0x20, 0x2D, 0x41, 0x80, 0xC3, 0xE4, 0xFE, 0xFF]
SURR_ALPHABET = [0x00, 0x41, 0xD8, 0xDC, 0x3D, 0xDB, 0xFF, 0xFE, 0xED, 0xA0, 0xF0, 0x90, 0xBF, 0xEF, 0xBB]
MODES = ["strict", "ignore", "replace", "call-continue", "call-ignore", "call-break", "call-breakmsg"]
ENCODINGS = [("utf8", "utf-8", b""), ("utf8+bom", "utf-8", b"\xef\xbb\xbf"),
             ("utf16le", "utf-16-le", b""), ("utf16le+bom", "utf-16-le", b"\xff\xfe"),
             ("utf16be", "utf-16-be", b""), ("utf16be+bom", "utf-16-be", b"\xfe\xff")]
PYCODEC = {"utf8": "utf-8", "utf16le": "utf-16-le", "utf16be": "utf-16-be"}
OBS_ALL = ["obs-replace", "obs-ignore", "obs-break", "obs-breakmsg"]
OBS_SHRINK = ["obs-shrink0", "obs-shrink1", "obs-shrink2", "obs-shrink3", "obs-shrink4", "obs-shrink5", "obs-shrink7"]
MODEL_MAXLEN = 320          # the extracted loop model is quadratic in the number of malformations
KNOWN_FILE = os.path.join(core.VERIF, "known_findings_c18.jsonl")

LATIN = "\u00e9\u00fc\u00df\u00f1\u00c5\u00f8\u0142\u0416\u03a9"
CJK = "\u4e2d\u6587\u5b57\u6f22\u304b\u306a\u30ab\u30ca\ud55c\uae00\uff01\u3000"
ASTRAL = "\U0001f600\U0001d11e\U00020000\U0010ffff\U00010000"
ODD = "\ufeff\u2028\u2029\u0085\u00a0\ufffd\uffff\ud7ff\ue000"
ASCII_WORDS = ["a", "b", "key", "value", "x1", "true", "null", "1", "2.5", "0x1F", "~", "foo bar"]
YAMLISH = ["%s: %s", "- %s\n- %s", "[%s, %s]", "{%s: %s}", "'%s': \"%s\"", "--- %s\n... \n--- %s\n", "%s:\n  - %s\n",
           "- %s: |\n    %s\n", "? %s\n: %s\n", "&a %s\n", "# %s\n%s", "\"%s\\n%s\"", "- - %s\n  - %s\n", "%s: >-\n  %s\n",
           "!!str %s: !t %s", "%s:   %s   # c"]


def bl(b):
    """case line of a byte string"""
    return " ".join(str(x) for x in b)


def tl(s):
    """case line of a text"""
    return " ".join(str(ord(c)) for c in s)


# ------------------------------------------------------------------------------------------------
# the detection precondition (same predicates as coq/Spec/EncodingSpec.v: ascii_first / ascii_start)
# ------------------------------------------------------------------------------------------------
def ascii_first(t):
    return len(t) >= 1 and 0 < ord(t[0]) < 128


def ascii_start(t):
    return ascii_first(t) and (len(t) < 2 or t[1] != "\0")


def detectable(encname, t):
    if encname.endswith("+bom"):
        return True
    if t == "":
        return True                      # no bytes at all: nothing to detect, nothing to decode
    return ascii_start(t) if encname == "utf8" else ascii_first(t)


# ------------------------------------------------------------------------------------------------
# case generation
# ------------------------------------------------------------------------------------------------
def rand_word(rng, pools, maxlen):
    n = rng.randrange(1, maxlen + 1)
    return "".join(rng.choice(rng.choice(pools)) for _ in range(n))


def gen_texts(tier, rng):
    groups = []
    # every text of length <= 3 (thorough: 4) over a small mixed alphabet
    small = "a- :\n\u00e9\u4e2d\U0001f600"
    groups.append(("exhaustive-text<=%d/%d" % (3 if tier == "quick" else 4, len(small)),
                   list(gen.exhaustive(small, 3 if tier == "quick" else 4))))
    # the family of the repaired defect: short texts that expand when going from UTF-16 to UTF-8
    fam = []
    for k in range(0, 24):
        for lead in ("a", "- ", "k: ", "'"):
            fam.append(lead + CJK[0] * k)
            fam.append(lead + "".join(CJK[i % len(CJK)] for i in range(k)))
            fam.append(lead + LATIN[0] * k)
            fam.append(lead + (ASTRAL[0] * (k // 2)) + CJK[1] * (k % 2))
    groups.append(("expanding-short", fam))
    n = 4000 if tier == "quick" else 60000
    pools_all = [LATIN, CJK, ASTRAL, "abcxyz019", " \n:-,[]{}#'\"|>&*!%?", ODD]
    short = []
    for _ in range(n):
        r = rng.random()
        ln = rng.randrange(0, 41) if r < 0.8 else rng.randrange(41, 400)
        first = rng.choice("abkz-'\"[{ #?&!|>%1~\t\n") if rng.random() < 0.85 else rng.choice(LATIN + CJK + ASTRAL + "\0")
        body = "".join(rng.choice(rng.choice(pools_all)) for _ in range(max(0, ln - 1)))
        short.append((first + body) if ln else "")
    groups.append(("random-mixed", short))
    ym = []
    for _ in range(n):
        k = rng.randrange(1, 4)
        parts = []
        for _ in range(k):
            f = rng.choice(YAMLISH)
            a = rng.choice(ASCII_WORDS) if rng.random() < 0.4 else rand_word(rng, [LATIN, CJK, ASTRAL, "abc"], 6)
            b = rng.choice(ASCII_WORDS) if rng.random() < 0.3 else rand_word(rng, [LATIN, CJK, ASTRAL, "abc", CJK], 12)
            parts.append(f.replace("%s", a, 1).replace("%s", b, 1))
        ym.append(rng.choice(["\n", "\n", "\n---\n"]).join(parts))
    groups.append(("yaml-ish", ym))
    st = [t["yaml"] for t in gen.suite()]
    rng.shuffle(st)
    groups.append(("yaml-test-suite", st[:150 if tier == "quick" else len(st)]))
    soup = gen.soups(300 if tier == "quick" else 20000, rng) + gen.line_soups(300 if tier == "quick" else 20000, rng)
    groups.append(("token/line soups", soup))
    big = []
    for _ in range(40 if tier == "quick" else 600):
        target = rng.randrange(400, 4097)
        lines = []
        sz = 0
        while sz < target:
            l = "%s%s: %s" % (rng.choice(["", "", "- ", "  "]), rand_word(rng, ["abc", CJK, LATIN], 8),
                              rand_word(rng, ["abc ", CJK, LATIN, ASTRAL], 40))
            lines.append(l)
            sz += len(l) + 1
        big.append("\n".join(lines)[:target])
    groups.append(("long<=4k", big))
    seen, out, dist = set(), [], {}
    for label, items in groups:
        k = 0
        for t in items:
            if t in seen:
                continue
            try:
                t.encode("utf-8")
            except UnicodeEncodeError:      # a lone surrogate is not a text
                continue
            seen.add(t)
            out.append(t)
            k += 1
        dist[label] = k
    return out, dist


def gen_bytes(tier, rng, texts):
    groups = []
    L = 4 if tier == "quick" else 6
    groups.append(("exhaustive-bytes<=%d/10" % L,
                   [bytes(t) for n in range(L + 1) for t in itertools.product(ALPHABET, repeat=n)]))
    Ls = 3 if tier == "quick" else 5
    groups.append(("exhaustive-bytes<=%d/15(surrogates,BOM parts)" % Ls,
                   [bytes(t) for n in range(Ls + 1) for t in itertools.product(SURR_ALPHABET, repeat=n)]))
    n = 20000 if tier == "quick" else 300000
    rb = []
    for _ in range(n):
        r = rng.random()
        ln = rng.randrange(0, 25) if r < 0.7 else rng.randrange(25, 200) if r < 0.97 else rng.randrange(200, 4097)
        pool = rng.choice([None, ALPHABET, SURR_ALPHABET, SURR_ALPHABET + ALPHABET])
        body = bytes(rng.randrange(256) if pool is None else rng.choice(pool) for _ in range(ln))
        pre = rng.choice([b"", b"", b"a", b"a\0", b"\0a", b"\xff\xfe", b"\xfe\xff", b"\xef\xbb\xbf", b"\xef\xbb", b"-\0 \0"])
        rb.append(pre + body)
    groups.append(("random-bytes", rb))
    gb = []
    for _ in range(n):
        t = rng.choice(texts)
        if len(t) > 300 and rng.random() < 0.9:
            t = t[:rng.randrange(1, 60)]
        _, codec, bom = rng.choice(ENCODINGS)
        b = bytearray(bom + t.encode(codec))
        for _ in range(rng.randrange(1, 4)):
            r = rng.random()
            p = rng.randrange(len(b) + 1)
            if r < 0.3:
                del b[p:]                                        # truncation (odd lengths, half pairs, cut BOM)
            elif r < 0.5 and b:
                b[min(p, len(b) - 1)] = rng.randrange(256)       # substitution
            elif r < 0.65:
                b[p:p] = bytes([rng.choice(SURR_ALPHABET)])      # insertion (shifts UTF-16 alignment)
            elif r < 0.8 and b:
                del b[min(p, len(b) - 1)]                        # deletion
            elif r < 0.9:
                b[p:p] = rng.choice([b"\x00\xd8", b"\xd8\x00", b"\x00\xdc", b"\xdc\x00", b"\xed\xa0\x80", b"\xc0\x80",
                                     b"\xf4\x90\x80\x80", b"\xff\xfe", b"\xfe\xff", b"\xef\xbb\xbf"])
            else:
                b[p:] = bytes(reversed(b[p:]))                   # endianness flip of the tail
        gb.append(bytes(b))
    groups.append(("garbled-encodings", gb))
    seen, out, dist = set(), [], {}
    for label, items in groups:
        k = 0
        for b in items:
            if b not in seen:
                seen.add(b)
                out.append(b)
                k += 1
        dist[label] = k
    return out, dist


# ------------------------------------------------------------------------------------------------
# independent decoding in the encoding the model detects
# ------------------------------------------------------------------------------------------------
def py_expect(b, enc, skip):
    """(strict, ignore, replace): strict is a text or (byte_idx, malformed_len)"""
    codec = PYCODEC[enc]
    body = b[skip:]
    try:
        s = body.decode(codec, "strict")
    except UnicodeDecodeError as x:
        s = (x.start + skip, x.end - x.start)
    return s, body.decode(codec, "ignore"), body.decode(codec, "replace")


def strip_cb(r):
    """'RESULT cb=n:args' -> (RESULT, n, [(len, after, rest)...])"""
    i = r.rfind(" cb=")
    if i < 0:
        return r, -1, []
    head, tail = r[:i], r[i + 4:]
    n, _, args = tail.partition(":")
    tup = [tuple(int(x) for x in a.split(",")) for a in args.split(";") if a]
    return head, int(n), tup


def abnormal(r):
    return r.startswith(("PANIC", "TIMEOUT", "CRASH", "|CRASH", "|TIMEOUT", "IOERR", "BAD")) or r == ""


def load_known():
    out = {}
    if os.path.exists(KNOWN_FILE):
        for l in open(KNOWN_FILE):
            l = l.strip()
            if l and not l.startswith("#"):
                d = json.loads(l)
                if d.get("property") == ID and d.get("status") == "known":
                    out[d["class"]] = d
    return out


def check_C18(tier, seed):
    res = Result(ID, tier, seed)
    proof = prepare(ID, res, model_tags=("C18",))
    if tier == "thorough" and proof.get("ok"):
        with core.Lock():
            ok, out = core.coqchk(ID)
        res.coverage["coqchk"] = "ok" if ok else out[-400:]
        if not ok:
            res.add_tie_break("coqchk rejects the compiled proofs", error=out[-1200:])
    rng = gen.rng_for(seed, ID)
    texts, tdist = gen_texts(tier, rng)
    blobs, bdist = gen_bytes(tier, rng, texts)
    known = load_known()
    known_hits = {}
    res.coverage["input_distribution"] = dict(texts=tdist, bytes=bdist)
    res.coverage["encodings"] = [e[0] for e in ENCODINGS]
    res.coverage["traps"] = MODES
    rule = ("texts (exhaustive <=3/4 over an 8-symbol ASCII/Latin/CJK/astral alphabet, short expanding texts, random mixed "
            "texts with 80% of lengths in 0..40, YAML-ish documents, yaml-test-suite, token/line soups, long texts up to 4k) x 6 "
            "encodings x 7 trap configurations (Strict, Ignore, Replace, Call x 4 callbacks); byte strings: exhaustive <= 4 "
            "(quick) / 6 (thorough) over {00,0A,20,2D,41,80,C3,E4,FE,FF}, exhaustive <= 3/5 over a 15-byte surrogate/BOM "
            "alphabet, random bytes, truncated / garbled encodings; the extracted decoder models (decode_model) and the "
            "one-shot specification (decode_spec) on all of these byte strings <= 320 bytes (+ a sample of longer ones) under "
            "Strict / Ignore / Replace and, for malformed inputs, under observing callbacks (every invocation: lengths, rest, "
            "capacity, text so far), plus capacity probes (malformed . text . malformed) under callbacks that shrink the output "
            "String to len + 0..7; non-trivial = distinct byte inputs that are UTF-16, contain a non-ASCII byte or are malformed")
    res.assumptions = [
        "encoding_rs 0.8.41 behaves like its models in coq/Model/Decoders.v (UTF-8 and UTF-16LE/BE decoders as incremental "
        "decoders: fast paths, byte-wise state machines, capacity discipline, BOM sniffing of new_decoder()); NOT proved - "
        "validated on every run: the extracted decode_model and the real decode agree on every generated byte string in "
        "result text (through the documents), error index and malformed bytes, and in every callback invocation (lengths, "
        "rest of the input, text decoded so far, capacity of the output String, incl. callbacks that shrink the capacity "
        "to len + 0..7 so that the decoder's OutputFull rule shows). Proved about the models: the contract of the "
        "termination theorem (every state), and decode_model = decode_spec (every input, trap, callback)",
        "Python's utf-8 / utf-16-le / utf-16-be codecs (strict / ignore / replace and UnicodeDecodeError.start/end) as a "
        "second, independent reference for what the bytes mean in the encoding the model detects",
        "String::reserve / String::push / String::shrink_to modelled as RawVec::grow_amortized for u8 (max(2*cap, "
        "len+additional, 8)) resp. capacity = max(len, min_capacity); validated by the capacities the callbacks observe",
        "a YAMLDecodingTrapFn callback is a total function (it returns and does not panic); in the result theorem its effect "
        "on the text does not depend on the capacity it is handed",
    ]
    if not (res.harness_ok and res.model_ok):
        return res.finish(proof, rule)

    def violation(what, b, **extra):
        res.add_violation(what, dict(bytes_hex=bytes(b).hex(), case_line=bl(b), length=len(b)), **extra)

    # ---------------------------------------------------------------------------------------------
    # A. texts x encodings x traps
    # ---------------------------------------------------------------------------------------------
    direct = dict(zip(texts, run_bin("hx_c18", ["text"], [tl(t) for t in texts])))
    with_bom = {}
    a_cases = []                      # (text index, encoding name, bytes, compare?)
    for ti, t in enumerate(texts):
        for name, codec, bom in ENCODINGS:
            a_cases.append((ti, name, bom + t.encode(codec), detectable(name, t)))
    a_out = run_bin("hx_c18", MODES, [bl(c[2]) for c in a_cases])
    bomtexts = [t for t in texts if len(t) <= 64]
    with_bom = dict(zip(bomtexts, run_bin("hx_c18", ["text"], [tl("\ufeff" + t) for t in bomtexts])))
    compared = 0
    hangs = []
    for (ti, name, b, cmp_), line in zip(a_cases, a_out):
        t = texts[ti]
        rs = line.split("\t")
        if len(rs) != len(MODES):
            rs = (rs + ["CRASH"] * len(MODES))[:len(MODES)] if line and not line.startswith("|") else [line or "CRASH"] * len(MODES)
        res.evaluations += 1
        if b and (name.startswith("utf16") or any(x >= 0x80 for x in b)):
            res.nontrivial.add(b)
        for m, r in zip(MODES, rs):
            head, ncb, _ = strip_cb(r)
            if head in ("NOTRUN", "|NOTRUN"):
                continue
            if abnormal(head):
                if head.startswith("TIMEOUT") or head.startswith("|TIMEOUT"):
                    hangs.append((len(b), b, t, name, m))
                else:
                    violation("decode of the %s encoding of a text does not return normally under trap %s: %s" % (name, m, head[:80]),
                              b, text=t, text_codepoints=tl(t), encoding=name, trap=m, impl=head[:300])
                continue
            if not cmp_:
                continue
            compared += 1
            want = direct[t]
            if head != want or ncb > 0:
                violation("decoding the %s encoding under trap %s differs from loading the text directly" % (name, m), b,
                          text=t, text_codepoints=tl(t), encoding=name, trap=m, decoded=head[:400], direct=want[:400],
                          callbacks=ncb)
        # literal reading for a text that itself starts with a byte-order mark: the with-BOM encodings of t are the
        # plain encodings of U+FEFF + t
        if name.endswith("+bom") and t in with_bom and not abnormal(rs[0]) and rs[0] not in ("NOTRUN", "|NOTRUN"):
            if rs[0] != with_bom[t]:
                cls = "text-starts-with-bom"
                if cls in known and rs[0] == direct[t]:
                    h = known_hits.setdefault(cls, dict(count=0, first=None))
                    h["count"] += 1
                    rank = (not rs[0].startswith("OK M{"), len(b))       # prefer a small mapping as the printed example
                    if h["first"] is None or rank < h["rank"]:
                        h["first"], h["rank"] = (b, t, name, rs[0], with_bom[t]), rank
                else:
                    violation("decoding a text that starts with U+FEFF (%s) differs from loading that text directly" % name, b,
                              text="\ufeff" + t, text_codepoints=tl("\ufeff" + t), encoding=name, trap="strict",
                              decoded=rs[0][:400], direct=with_bom[t][:400])
    if hangs:
        hangs.sort(key=lambda h: h[0])
        _, b, t, name, m = hangs[0]
        violation("decode does not terminate (watchdog) on the %s encoding of a text under trap %s" % (name, m), b,
                  text=t, text_codepoints=tl(t), encoding=name, trap=m, hanging_cases=len(hangs))
    res.coverage["text_cases"] = dict(texts=len(texts), byte_inputs=len(a_cases), compared_results=compared)

    # ---------------------------------------------------------------------------------------------
    # B. arbitrary bytes (the text encodings of A take part as well: they are byte strings too)
    # ---------------------------------------------------------------------------------------------
    seen = set(blobs)
    extra = []
    for c in a_cases:
        if c[2] not in seen and len(c[2]) <= 64:
            seen.add(c[2])
            extra.append(c[2])
    allb = blobs + extra
    lines = [bl(b) for b in allb]
    b_out = run_bin("hx_c18", MODES, lines)
    det = run_mx(["detect"], lines, tag="C18")
    expects = []
    need_text = set()
    for b, d in zip(allb, det):
        p = d.split()
        if len(p) != 2 or p[0] not in PYCODEC:
            expects.append(None)
            continue
        e = py_expect(b, p[0], int(p[1]))
        expects.append((p[0], int(p[1]), e))
        for v in e:
            if isinstance(v, str):
                need_text.add(v)
    need_text = list(need_text)
    loaded = dict(zip(need_text, run_bin("hx_c18", ["text"], [tl(t) for t in need_text])))
    hangs = []
    classes = {}
    toy_cases = []
    for b, line, ex, d in zip(allb, b_out, expects, det):
        res.evaluations += 1
        rs = line.split("\t")
        if len(rs) != len(MODES):
            rs = [line or "CRASH"] * len(MODES)
        heads = {}
        cbs = {}
        skip = False
        for m, r in zip(MODES, rs):
            head, ncb, args = strip_cb(r)
            heads[m], cbs[m] = head, (ncb, args)
            if head in ("NOTRUN", "|NOTRUN"):
                skip = True
            elif abnormal(head):
                skip = True
                if "TIMEOUT" in head:
                    hangs.append((len(b), b, m))
                else:
                    violation("decode does not return normally under trap %s: %s" % (m, head[:80]), b, trap=m, impl=head[:300])
        if skip:
            continue
        if ex is None:
            res.add_tie_break("detection model gave no answer", case=bl(b), model=d)
            continue
        enc, k, (st, ig, rp) = ex
        malformed = not isinstance(st, str)
        if malformed or enc != "utf8" or any(x >= 0x80 for x in b):
            res.nontrivial.add(b)
        cl = "%s%s/%s" % (enc, "+bom" if k else "", "malformed" if malformed else "wellformed")
        classes[cl] = classes.get(cl, 0) + 1
        # Strict
        if malformed:
            idx, ln = st
            want = "DECODEERR Invalid character sequence at %d: %s" % (idx, str(list(b[idx:idx + ln])))
        else:
            want = loaded[st]
        if heads["strict"] != want:
            alt = alt_detection(b, heads["strict"], loaded)
            if alt and alt != enc:
                res.add_tie_break("correspondence: detection model chose %s, the implementation evidently decoded as %s" % (enc, alt),
                                  case=bl(b), bytes_hex=b.hex(), impl=heads["strict"][:300])
            elif malformed != heads["strict"].startswith("DECODEERR"):
                violation("Strict trap: %s" % ("malformed input is not reported as a decode error" if malformed
                                               else "well-formed input is rejected"), b,
                          detected=enc, bom_len=k, impl=heads["strict"][:300], expected=want[:300])
            elif malformed:
                violation("Strict trap: the reported byte index / malformed sequence is wrong", b, detected=enc, bom_len=k,
                          impl=heads["strict"][:300], expected=want[:300])
            else:
                violation("decoded documents differ from loading the independently decoded text", b, detected=enc, bom_len=k,
                          trap="strict", impl=heads["strict"][:300], expected=want[:300])
        # Ignore / Replace continue as configured
        for m, txt in (("ignore", ig), ("replace", rp)):
            if heads[m] != loaded[txt]:
                violation("%s trap: result differs from loading the text decoded with malformed sequences %s" % (
                    m, "dropped" if m == "ignore" else "replaced by U+FFFD"), b, detected=enc, bom_len=k, trap=m,
                    impl=heads[m][:300], expected=loaded[txt][:300])
        # the callback traps
        for m, like in (("call-continue", "replace"), ("call-ignore", "ignore"), ("call-break", "strict")):
            if heads[m] != heads[like]:
                violation("callback trap %s does not behave like %s" % (m, like), b, impl=rs[MODES.index(m)][:300],
                          builtin=heads[like][:300])
        wantmsg = "DECODEERR custom" if heads["strict"].startswith("DECODEERR") else heads["strict"]
        if heads["call-breakmsg"] != wantmsg:
            violation("callback trap with its own message: wrong result", b, impl=heads["call-breakmsg"][:300], expected=wantmsg[:300])
        for m in ("call-continue", "call-ignore", "call-break", "call-breakmsg"):
            ncb, args = cbs[m]
            if malformed:
                idx, ln = st
                ok = ncb >= 1 and args and args[0][0] == ln and args[0][2] == len(b) - idx
                if m.startswith("call-break"):
                    ok = ok and ncb == 1
            else:
                ok = ncb == 0
            if not ok:
                violation("callback trap %s: callback invoked with wrong arguments / wrong number of times" % m, b,
                          impl=rs[MODES.index(m)][-200:], expected_first=(st if malformed else None))
        # C. class on which the toy decoder of the model is faithful: UTF-16LE, no BOM, no surrogate code unit
        if enc == "utf16le" and k == 0 and not any(0xD8 <= b[i + 1] <= 0xDF for i in range(0, len(b) - 1, 2)):
            toy_cases.append((b, st, rp, heads["strict"]))
    if hangs:
        hangs.sort(key=lambda h: h[0])
        _, b, m = hangs[0]
        violation("decode does not terminate (watchdog) under trap %s" % m, b, trap=m, hanging_cases=len(hangs))
    res.coverage["byte_cases"] = dict(inputs=len(allb), classes=classes)

    # ---------------------------------------------------------------------------------------------
    # C. loop model (toy decoder) vs implementation
    # ---------------------------------------------------------------------------------------------
    tlines = [bl(c[0]) for c in toy_cases]
    toy_s = run_mx(["toy", "strict"], tlines, tag="C18")
    toy_r = run_mx(["toy", "replace"], tlines, tag="C18")
    for (b, st, rp, impl), ms, mr in zip(toy_cases, toy_s, toy_r):
        res.evaluations += 1
        if isinstance(st, str):
            want_s = "DONE %d" % len(st.encode("utf-8"))
            ok = ms.startswith(want_s + " ") and not impl.startswith("DECODEERR")
        else:
            want_s = "DECODEERR %d %d" % st
            ok = ms == want_s and impl == "DECODEERR Invalid character sequence at %d: %s" % (st[0], str(list(b[st[0]:st[0] + st[1]])))
        want_r = "DONE %d" % len(rp.encode("utf-8"))
        if not ok:
            res.add_tie_break("correspondence: decode_loop model (toy decoder, Strict) != implementation", case=bl(b),
                              model=ms, impl=impl[:200], expected=want_s)
        if not mr.startswith(want_r + " "):
            res.add_tie_break("correspondence: decode_loop model (toy decoder, Replace): output length differs", case=bl(b),
                              model=mr, expected=want_r)
    res.coverage["loop_model_cases"] = len(toy_cases)
    res.coverage["traces_validated_against_impl"] = len(allb) + len(toy_cases)

    # ---------------------------------------------------------------------------------------------
    # D. decoder models + one-shot specification vs implementation
    # ---------------------------------------------------------------------------------------------
    t0 = time.time()
    check_models(res, rng, tier, allb, b_out, texts, loaded, violation)
    res.coverage["decoder_model_seconds"] = round(time.time() - t0, 1)

    for cls, h in known_hits.items():
        b, t, name, got, want = h["first"]
        res.known.append("%s: %d inputs; e.g. bytes %s = %s of the text U+FEFF+%r: decode gives `%s`, Yaml::load_from_str of that "
                         "text gives `%s` (%s)" % (cls, h["count"], b.hex(), name.replace("+bom", ""), t, got[:60], want[:60],
                                                   known[cls].get("what", "")))
    res.coverage["known_findings"] = {c: h["count"] for c, h in known_hits.items()}
    for i in (7, len(a_cases) // 3, len(a_cases) // 2, len(a_cases) - 9):
        if 0 <= i < len(a_cases):
            ti, name, b, _ = a_cases[i]
            res.samples.append(dict(text=texts[ti][:60], encoding=name, bytes_hex=b[:40].hex(), impl=a_out[i].split("\t")[0][:120]))
    for i in (len(allb) // 5, len(allb) // 2, len(allb) - 3):
        if 0 <= i < len(allb):
            res.samples.append(dict(bytes_hex=allb[i][:40].hex(), detected=det[i], impl=b_out[i][:200]))
    return res.finish(proof, rule)


def alt_detection(b, impl_strict, loaded):
    """which encoding (with the BOM rule of the model) explains the implementation's Strict result, if exactly one does"""
    hits = []
    for enc in PYCODEC:
        for k in (0, 2, 3):
            if k > len(b):
                continue
            try:
                s = b[k:].decode(PYCODEC[enc], "strict")
                want = loaded.get(s)
            except UnicodeDecodeError as x:
                i, ln = x.start + k, x.end - x.start
                want = "DECODEERR Invalid character sequence at %d: %s" % (i, str(list(b[i:i + ln])))
            if want is not None and want == impl_strict and enc not in hits:
                hits.append(enc)
    return hits[0] if len(hits) == 1 else None


# ------------------------------------------------------------------------------------------------
# D. decoder models + one-shot specification vs implementation
# ------------------------------------------------------------------------------------------------
def probe_inputs(tier, rng, texts):
    """capacity probes: a malformed sequence, an encoded text, a malformed sequence - the callback that follows the first
    one fixes the spare capacity the decoder then works with"""
    out = []
    bad = {"utf-8": [b"\xff", b"\x80", b"\xe4\xb8", b"\xf0\x9f\x98"], "utf-16-le": [b"\x00\xdc", b"\x00\xd8"],
           "utf-16-be": [b"\xdc\x00", b"\xd8\x00"]}
    pre = {"utf-8": b"a", "utf-16-le": b"a\0", "utf-16-be": b"\0a"}
    pool = [t for t in texts if 0 < len(t) <= 12]
    rng.shuffle(pool)
    fam = ["a", "ab", "abc", "abcd", "abcde", "é", "aé", "éa", "éab", "中", "a中", "中a", "中abcd",
           "\U0001f600", "a\U0001f600", "ab\U0001f600", "abc\U0001f600", "\U0001f600a", "ééé", "中文字",
           "abcdefghé", "abcdefgéh", "abécd中ef\U0001f600gh", "﻿", "﻿a", "퟿"]
    for t in fam + pool[:150 if tier == "quick" else 3000]:
        for codec in ("utf-8", "utf-16-le", "utf-16-be"):
            try:
                body = t.encode(codec)
            except UnicodeEncodeError:
                continue
            for b1 in bad[codec]:
                for b2 in bad[codec][:2] + [b""]:
                    out.append(pre[codec] + b1 + body + b2)
                    out.append(pre[codec] + b1 + body + b1 + body + b2)
    return out


def mask_cap(r):
    """' obs=n:a,b,c,CAP,delta;...' with every CAP replaced by '-' (the specification has no capacity)"""
    i = r.rfind(" obs=")
    if i < 0:
        return r
    head, tail = r[:i], r[i + 5:]
    n, _, body = tail.partition(":")
    ents = []
    for e in body.split(";") if body else []:
        f = e.split(",", 4)
        if len(f) == 5:
            f[3] = "-"
        ents.append(",".join(f))
    return "%s obs=%s:%s" % (head, n, ";".join(ents))


def split_obs(r):
    i = r.rfind(" obs=")
    return (r, None) if i < 0 else (r[:i], r[i:])


def check_models(res, rng, tier, allb, b_out, texts, loaded, violation):
    builtin = ["strict", "ignore", "replace"]
    small = [(b, line) for b, line in zip(allb, b_out) if len(b) <= MODEL_MAXLEN]
    big = [(b, line) for b, line in zip(allb, b_out) if len(b) > MODEL_MAXLEN]
    rng.shuffle(big)
    cases = small + big[:30 if tier == "quick" else 300]
    rng.shuffle(cases)                    # spread the long inputs over the shards
    blobs = [c[0] for c in cases]
    lines = [bl(b) for b in blobs]
    impl_builtin = []
    for b, line in cases:
        rs = line.split("\t")
        impl_builtin.append(rs[:3] if len(rs) == len(MODES) else None)
    model1 = run_mx(["model"] + builtin, lines, tag="C18")
    spec1 = run_mx(["spec"] + builtin, lines, tag="C18")
    # the observing callbacks: everything malformed (callbacks happen) and a sample of the well-formed inputs
    ocases = [b for (b, _), ib in zip(cases, impl_builtin) if ib and ib[0].startswith("DECODEERR")]
    wf = [b for (b, _), ib in zip(cases, impl_builtin) if ib and not ib[0].startswith("DECODEERR")]
    ocases += wf[:3000 if tier == "quick" else 60000]
    olines = [bl(b) for b in ocases]
    impl_obs = run_bin("hx_c18", OBS_ALL, olines)
    model_obs = run_mx(["model"] + OBS_ALL, olines, tag="C18")
    spec_obs = run_mx(["spec"] + OBS_ALL, olines, tag="C18")
    # capacity probes under the shrinking callbacks (and everything malformed that is short)
    seen = set(blobs)
    probes = [b for b in probe_inputs(tier, rng, texts) if b not in seen]
    probes = list(dict.fromkeys(probes))
    mal_short = [b for (b, _), ib in zip(cases, impl_builtin) if ib and ib[0].startswith("DECODEERR") and len(b) <= 24]
    rng.shuffle(mal_short)
    pcases = probes + mal_short[:6000 if tier == "quick" else 120000]
    plines = [bl(b) for b in pcases]
    pmodes = builtin + ["obs-replace"] + OBS_SHRINK
    impl_p = run_bin("hx_c18", pmodes, plines)
    model_p = run_mx(["model"] + pmodes, plines, tag="C18")
    spec_p = run_mx(["spec"] + pmodes, plines, tag="C18")

    # texts the model / specification produce that have not been loaded yet
    need = set()

    def text_of(r):
        head, _ = split_obs(r)
        if head.startswith("TEXT"):
            t = head[5:]
            try:
                return "".join(chr(int(x)) for x in t.split(".")) if t else ""
            except ValueError:
                return None
        return None

    for outs in (model1, spec1, model_obs, spec_obs, model_p, spec_p):
        for l in outs:
            for r in l.split("\t"):
                t = text_of(r)
                if t is not None and t not in loaded:
                    try:
                        t.encode("utf-8")
                        need.add(t)
                    except UnicodeEncodeError:
                        pass
    need = list(need)
    loaded2 = dict(loaded)
    loaded2.update(zip(need, run_bin("hx_c18", ["text"], [tl(t) for t in need])))

    def expect_of(r, b):
        """what the implementation must print for a model / specification result"""
        head, obs = split_obs(r)
        if head.startswith("TEXT"):
            t = text_of(r)
            want = loaded2.get(t, "NOT-A-TEXT") if t is not None else "NOT-A-TEXT"
        elif head.startswith("DECODEERR "):
            f = head.split(" ")
            seq = [int(x) for x in f[2].split(".")] if len(f) > 2 and f[2] else []
            want = "DECODEERR Invalid character sequence at %s: %s" % (f[1], str(seq))
        elif head == "CBERR":
            want = "DECODEERR custom"
        else:
            want = "MODEL:" + head
        return want + (obs or "")

    counts = dict(model=0, spec=0, callbacks=0)
    bad_m = bad_s = 0

    def compare(b, modes, impl_rs, model_l, spec_l):
        nonlocal bad_m, bad_s
        mr, sr = model_l.split("\t"), spec_l.split("\t")
        if len(mr) != len(modes) or len(sr) != len(modes):
            res.add_tie_break("the extracted decoder model / specification gave no answer", case=bl(b), model=model_l[:200], spec=spec_l[:200])
            return
        for m, ir, mo, so in zip(modes, impl_rs, mr, sr):
            ihead, _ = split_obs(ir)
            if abnormal(ihead) or ihead in ("NOTRUN", "|NOTRUN"):
                continue                                  # reported by B
            res.evaluations += 1
            counts["model"] += 1
            i = ir.rfind(" obs=")
            if i >= 0:
                counts["callbacks"] += int(ir[i + 5:].partition(":")[0] or 0)
            wm = expect_of(mo, b)
            if wm != ir:
                bad_m += 1
                if bad_m <= 20:
                    res.add_tie_break("correspondence: decoder model (decode_model) != implementation under %s" % m, case=bl(b),
                                      bytes_hex=b.hex(), model=mo[:400], impl=ir[:400], expected_impl=wm[:400])
            counts["spec"] += 1
            ws = expect_of(so, b)
            if ws != mask_cap(ir):
                bad_s += 1
                if bad_s <= 20:
                    violation("the result of decode under %s is not the one-shot decoding of the specification (decode_spec)" % m, b,
                              trap=m, spec=so[:400], impl=ir[:400], expected_impl=ws[:400])

    for (b, _), ib, ml, sl in zip(cases, impl_builtin, model1, spec1):
        if ib is not None:
            compare(b, builtin, ib, ml, sl)
    for b, io, ml, sl in zip(ocases, impl_obs, model_obs, spec_obs):
        ios = io.split("\t")
        if len(ios) == len(OBS_ALL):
            compare(b, OBS_ALL, ios, ml, sl)
    for b, ip, ml, sl in zip(pcases, impl_p, model_p, spec_p):
        ips = ip.split("\t")
        if len(ips) != len(pmodes):
            continue
        if b:
            res.nontrivial.add(b)
        compare(b, pmodes, ips, ml, sl)
    if bad_m > 20:
        res.add_tie_break("correspondence: %d decoder-model disagreements in total (first 20 listed)" % bad_m)
    res.coverage["decoder_model_cases"] = dict(inputs=len(cases), **{'longer_than_%d' % MODEL_MAXLEN: min(len(big), 30 if tier == "quick" else 300)},
                                               capacity_probes=len(pcases), model_results_compared=counts["model"],
                                               spec_results_compared=counts["spec"], callback_invocations_compared=counts["callbacks"],
                                               observed_inputs=len(ocases), modes=builtin + OBS_ALL, probe_modes=pmodes)
    res.coverage["traces_validated_against_impl"] = res.coverage.get("traces_validated_against_impl", 0) + counts["model"]
