(* Line-protocol driver around the extracted C18 model (build/ocaml_c18/model.ml).
   usage: mx detect < cases      -> "<utf8|utf16le|utf16be> <bom length>"
          mx toy <strict|ignore|replace> < cases
                                 -> "DONE <len> <cap>" | "DECODEERR <byte_idx> <malformed_len>" | "CBERR"
                                    | "MODELPANIC" | "MODELFUEL"
          mx model <mode> [<mode> ...] < cases    decode_model (Model/Decoders.v) under the trap <mode>
          mx spec  <mode> [<mode> ...] < cases    decode_spec  (Spec/EncodingSpec.v)
                                 -> per mode, TAB separated:
                                    "TEXT <cp.cp.cp>" | "DECODEERR <byte_idx> <b.b.b>" | "CBERR"
                                    | "MODELPANIC" | "MODELFUEL" | "ABNORMAL"
                                    followed, for the callback modes, by " obs=<n>:<len>,<after>,<rest>,<cap>,<delta>;..."
                                    (one entry per callback invocation, the same rendering as hx_c18; the
                                    specification has no capacity: <cap> is "-")
             modes: strict | ignore | replace
                    | obs-ignore     callback: continue
                    | obs-replace    callback: push U+FFFD, continue
                    | obs-shrink<K>  callback: output.shrink_to(output.len() + K), continue
                    | obs-break      callback: break with an empty message
                    | obs-breakmsg   callback: break with a message
   Case line = space-separated decimal bytes (empty line = empty input). *)
open Model

let rec pos_of_int i = if i = 1 then XH else if i land 1 = 0 then XO (pos_of_int (i lsr 1)) else XI (pos_of_int (i lsr 1))
let n_of_int i = if i = 0 then N0 else Npos (pos_of_int i)
let rec int_of_pos = function XH -> 1 | XO p -> 2 * int_of_pos p | XI p -> 2 * int_of_pos p + 1
let int_of_n = function N0 -> 0 | Npos p -> int_of_pos p

let decode_case line =
  let line = String.trim line in
  if line = "" then [] else List.map (fun x -> n_of_int (int_of_string x)) (String.split_on_char ' ' line)

let enc_name = function Utf8 -> "utf8" | Utf16LE -> "utf16le" | Utf16BE -> "utf16be"

let detect line =
  let (e, k) = choose_encoding (decode_case line) in
  Printf.sprintf "%s %d" (enc_name e) (int_of_n k)

let toy which line =
  match toy_run (n_of_int which) (decode_case line) with
  | Done (l, c) -> Printf.sprintf "DONE %d %d" (int_of_n l) (int_of_n c)
  | DecodeError (i, m) -> Printf.sprintf "DECODEERR %d %d" (int_of_n i) (int_of_n m)
  | CallbackError -> "CBERR"
  | Panicked _ -> "MODELPANIC"
  | OutOfFuel -> "MODELFUEL"

let dots l = String.concat "." (List.map (fun x -> string_of_int (int_of_n x)) l)

let rec drop k l = if k <= 0 then l else match l with [] -> [] | _ :: t -> drop (k - 1) t
let rec take k l = if k <= 0 then [] else match l with [] -> [] | x :: t -> x :: take (k - 1) t
let rec is_prefix p l = match p, l with [] , _ -> true | x :: p', y :: l' -> x = y && is_prefix p' l' | _ :: _, [] -> false

(* the log of callback invocations: what hx_c18 prints for its obs-* modes *)
let log : string list ref = ref []
let prev : n list ref = ref []
let note ml af rest text cap =
  let delta = if is_prefix !prev text then dots (drop (List.length !prev) text) else "!" ^ dots text in
  log := Printf.sprintf "%d,%d,%d,%s,%s" (int_of_n ml) (int_of_n af) (List.length rest) cap delta :: !log
let obs_suffix () =
  let l = List.rev !log in
  Printf.sprintf " obs=%d:%s" (List.length l) (String.concat ";" l)

type action = Ignore_ | Replace_ | Shrink of int | Break of bool

let action_of mode =
  match mode with
  | "obs-ignore" -> Some Ignore_
  | "obs-replace" -> Some Replace_
  | "obs-break" -> Some (Break true)
  | "obs-breakmsg" -> Some (Break false)
  | _ ->
      let p = "obs-shrink" in
      let lp = String.length p in
      if String.length mode > lp && String.sub mode 0 lp = p then Some (Shrink (int_of_string (String.sub mode lp (String.length mode - lp))))
      else None

(* the callbacks of hx_c18 on the model's String = (text, capacity) *)
let model_cb act ml af rest (text, cap) =
  note ml af rest text (string_of_int (int_of_n cap));
  match act with
  | Ignore_ -> prev := text; XCbContinue (text, cap)
  | Replace_ ->
      let t2 = text @ [n_of_int 65533] in
      prev := t2;
      (* String::push of a 3-byte character: reserve(3) *)
      XCbContinue (t2, reserve (text_len text) cap (n_of_int 3))
  | Shrink k ->
      prev := text;
      (* Vec::shrink_to(len + k): capacity = max(len, len + k) if that is smaller *)
      let want = int_of_n (text_len text) + k in
      XCbContinue (text, if int_of_n cap > want then n_of_int want else cap)
  | Break e -> prev := text; XCbBreak e

let spec_cb act ml af rest text =
  note ml af rest text "-";
  match act with
  | Ignore_ | Shrink _ -> prev := text; TCbContinue text
  | Replace_ -> let t2 = text @ [n_of_int 65533] in prev := t2; TCbContinue t2
  | Break e -> prev := text; TCbBreak e

let run_model mode bytes =
  log := []; prev := [];
  let trap, is_cb =
    match mode with
    | "strict" -> XStrict, false
    | "ignore" -> XIgnore, false
    | "replace" -> XReplace, false
    | _ -> (match action_of mode with Some a -> XCall (model_cb a), true | None -> failwith ("bad mode " ^ mode)) in
  let r =
    match decode_model trap bytes with
    | XDone (t, _) -> "TEXT " ^ dots t
    | XDecodeError (i, m) -> Printf.sprintf "DECODEERR %d %s" (int_of_n i) (dots (take (int_of_n m) (drop (int_of_n i) bytes)))
    | XCallbackError -> "CBERR"
    | XPanicked _ -> "MODELPANIC"
    | XOutOfFuel -> "MODELFUEL" in
  if is_cb then r ^ obs_suffix () else r

let run_spec mode bytes =
  log := []; prev := [];
  let trap, is_cb =
    match mode with
    | "strict" -> SStrict, false
    | "ignore" -> SIgnore, false
    | "replace" -> SReplace, false
    | _ -> (match action_of mode with Some a -> SCall (spec_cb a), true | None -> failwith ("bad mode " ^ mode)) in
  let r =
    match decode_spec trap bytes with
    | DText t -> "TEXT " ^ dots t
    | DError (i, b) -> Printf.sprintf "DECODEERR %d %s" (int_of_n i) (dots b)
    | DCallbackError -> "CBERR"
    | DAbnormal -> "ABNORMAL" in
  if is_cb then r ^ obs_suffix () else r

let multi run modes line =
  let bytes = decode_case line in
  String.concat "\t" (List.map (fun m -> try run m bytes with e -> "MODELEXN " ^ Printexc.to_string e) modes)

let () =
  let args = Array.to_list Sys.argv |> List.tl in
  let f =
    match args with
    | ["detect"] -> detect
    | ["toy"; "strict"] -> toy 0
    | ["toy"; "ignore"] -> toy 1
    | ["toy"; "replace"] -> toy 2
    | "model" :: (_ :: _ as modes) -> multi run_model modes
    | "spec" :: (_ :: _ as modes) -> multi run_spec modes
    | _ -> prerr_endline "usage: mx detect | toy <strict|ignore|replace> | model <mode>... | spec <mode>..."; exit 2
  in
  let out = Buffer.create (1 lsl 16) in
  (try
     while true do
       let line = input_line stdin in
       Buffer.add_string out (try f line with e -> "MODELEXN " ^ Printexc.to_string e);
       Buffer.add_char out '\n';
       if Buffer.length out > (1 lsl 16) then (print_string (Buffer.contents out); Buffer.clear out)
     done
   with End_of_file -> ());
  print_string (Buffer.contents out)
