(* Line-protocol driver around the extracted C18 model (build/ocaml_c18/model.ml).
   usage: mx detect < cases      -> "<utf8|utf16le|utf16be> <bom length>"
          mx toy <strict|ignore|replace> < cases
                                 -> "DONE <len> <cap>" | "DECODEERR <byte_idx> <malformed_len>" | "CBERR"
                                    | "MODELPANIC" | "MODELFUEL"
   Case line = space-separated decimal bytes (empty line = empty input). *)
open Model

let rec pos_of_int i = if i = 1 then XH else if i land 1 = 0 then XO (pos_of_int (i lsr 1)) else XI (pos_of_int (i lsr 1))
let n_of_int i = if i = 0 then N0 else Npos (pos_of_int i)
let rec int_of_pos = function XH -> 1 | XO p -> 2 * int_of_pos p | XI p -> 2 * int_of_pos p + 1
let int_of_n = function N0 -> 0 | Npos p -> int_of_pos p

let decode_case line =
  let line = String.trim line in
  if line = "" then [] else List.map (fun x -> n_of_int (int_of_string x)) (String.split_on_char ' ' line)

let enc_name = function Utf8 -> "utf8" | Utf16LE -> "utf16le" | Utf16BE -> "utf16be"

let detect line =
  let (e, k) = choose_encoding (decode_case line) in
  Printf.sprintf "%s %d" (enc_name e) (int_of_n k)

let toy which line =
  match toy_run (n_of_int which) (decode_case line) with
  | Done (l, c) -> Printf.sprintf "DONE %d %d" (int_of_n l) (int_of_n c)
  | DecodeError (i, m) -> Printf.sprintf "DECODEERR %d %d" (int_of_n i) (int_of_n m)
  | CallbackError -> "CBERR"
  | Panicked _ -> "MODELPANIC"
  | OutOfFuel -> "MODELFUEL"

let () =
  let args = Array.to_list Sys.argv |> List.tl in
  let f =
    match args with
    | ["detect"] -> detect
    | ["toy"; "strict"] -> toy 0
    | ["toy"; "ignore"] -> toy 1
    | ["toy"; "replace"] -> toy 2
    | _ -> prerr_endline "usage: mx detect | toy <strict|ignore|replace>"; exit 2
  in
  let out = Buffer.create (1 lsl 16) in
  (try
     while true do
       let line = input_line stdin in
       Buffer.add_string out (try f line with e -> "MODELEXN " ^ Printexc.to_string e);
       Buffer.add_char out '\n';
       if Buffer.length out > (1 lsl 16) then (print_string (Buffer.contents out); Buffer.clear out)
     done
   with End_of_file -> ());
  print_string (Buffer.contents out)
