(* Line-protocol driver around the extracted byte-level model of StrInput (build/ocaml_c10/model.ml).
   usage: mx methods < cases
   Case line: `<k> <la> <cp> <cp> ...` — the text, the offset (skip_n k), then lookahead la if la > 0.
   One result line per case, the same probes in the same order and the same rendering as harness/src/bin/hx_c10.rs:
     <name>=<value>|<remaining bytes>/<buflen>      or <name>=PANIC (any Panic outcome) / <name>=FUEL *)
open Model

let rec pos_of_int i = if i = 1 then XH else if i land 1 = 0 then XO (pos_of_int (i lsr 1)) else XI (pos_of_int (i lsr 1))
let n_of_int i = if i = 0 then N0 else Npos (pos_of_int i)
let rec int_of_pos = function XH -> 1 | XO p -> 2 * int_of_pos p | XI p -> 2 * int_of_pos p + 1
let int_of_n = function N0 -> 0 | Npos p -> int_of_pos p
let rec nat_of_int i = if i <= 0 then O else S (nat_of_int (i - 1))
let rec int_of_nat = function O -> 0 | S n -> 1 + int_of_nat n

let b x = if x then "1" else "0"
let ch c = string_of_int (int_of_n c)
let dots l = String.concat "." (List.map (fun x -> string_of_int (int_of_n x)) l)

(* lift the shapes of the model functions to  bstr -> (string * bstr) outcome *)
let q f render = fun st -> (match f st with Ok v -> Ok (render v, st) | Err (a, m) -> Err (a, m) | Panic k -> Panic k | OutOfFuel -> OutOfFuel)
let m f render = fun st -> (match f st with Ok (v, st') -> Ok (render v, st') | Err (a, m) -> Err (a, m) | Panic k -> Panic k | OutOfFuel -> OutOfFuel)
let u f = fun st -> (match f st with Ok st' -> Ok ("", st') | Err (a, m) -> Err (a, m) | Panic k -> Panic k | OutOfFuel -> OutOfFuel)

let run line =
  let toks = List.filter (fun x -> x <> "") (String.split_on_char ' ' (String.trim line)) in
  match toks with
  | ks :: las :: cps ->
    (try
      let k = int_of_string ks and la = int_of_string las in
      let cs = List.map (fun x -> n_of_int (int_of_string x)) cps in
      let at i = (match List.nth_opt cs (k + i) with Some c -> c | None -> N0) in
      let a0 = at 0 and a1 = at 1 and a2 = at 2 in
      let fresh () =
        match sb_skip_n (nat_of_int k) { sb_bytes = bytes_of cs; sb_look = O } with
        | Ok st -> Some (if la > 0 then sb_lookahead (nat_of_int la) st else st)
        | _ -> None in
      let out = ref [] in
      let probe name f =
        let r = match fresh () with
          | None -> "PANIC"
          | Some st ->
            (match f st with
             | Ok (v, st') -> Printf.sprintf "%s|%d/%d" v (List.length st'.sb_bytes) (int_of_nat (sb_buflen st'))
             | Panic _ -> "PANIC"
             | OutOfFuel -> "FUEL"
             | Err (_, _) -> "ERR") in
        out := (name ^ "=" ^ r) :: !out in
      let colon = n_of_int 58 and dash = n_of_int 45 and dot = n_of_int 46 in
      probe "state" (fun st -> Ok ("", st));
      probe "lookahead3_1" (fun st -> Ok ("", sb_lookahead (nat_of_int 1) (sb_lookahead (nat_of_int 3) st)));
      probe "bufmaxlen" (fun st -> Ok (string_of_int (int_of_nat sb_bufmaxlen), st));
      probe "buf_is_empty" (fun st -> Ok (b (sb_buf_is_empty st), st));
      probe "raw_read_ch" (m sb_raw_read_ch ch);
      probe "raw_read_non_breakz_ch" (m sb_raw_read_non_breakz_ch (function None -> "-" | Some c -> ch c));
      probe "skip" (u sb_skip);
      List.iter (fun n -> probe (Printf.sprintf "skip_n%d" n) (u (sb_skip_n (nat_of_int n)))) [0; 1; 2; 3];
      probe "peek" (q sb_peek ch);
      List.iter (fun n -> probe (Printf.sprintf "peek_nth%d" n) (q (sb_peek_nth (nat_of_int n)) ch)) [0; 1; 2; 3; 4];
      probe "look_ch" (m sb_look_ch ch);
      probe "next_char_is.self" (q (sb_next_char_is a0) b);
      probe "next_char_is.colon" (q (sb_next_char_is colon) b);
      probe "next_char_is.nul" (q (sb_next_char_is N0) b);
      List.iter (fun n ->
        probe (Printf.sprintf "nth_char_is%d.self" n) (q (sb_nth_char_is (nat_of_int n) (at n)) b);
        probe (Printf.sprintf "nth_char_is%d.nul" n) (q (sb_nth_char_is (nat_of_int n) N0) b)) [1; 2];
      probe "next_2_are.self" (q (sb_next_2_are a0 a1) b);
      probe "next_2_are.dash" (q (sb_next_2_are dash dash) b);
      probe "next_2_are.self_nul" (q (sb_next_2_are a0 N0) b);
      probe "next_3_are.self" (q (sb_next_3_are a0 a1 a2) b);
      probe "next_3_are.dash" (q (sb_next_3_are dash dash dash) b);
      probe "next_3_are.dot" (q (sb_next_3_are dot dot dot) b);
      probe "next_3_are.self_nul" (q (sb_next_3_are a0 a1 N0) b);
      probe "next_is_document_indicator" (q sb_next_is_document_indicator b);
      probe "next_is_document_start" (q sb_next_is_document_start b);
      probe "next_is_document_end" (q sb_next_is_document_end b);
      List.iter (fun (nm, st_) ->
        probe ("skip_ws_to_eol." ^ nm) (m (sb_skip_ws_to_eol st_) (fun (n, r) ->
          match r with
          | Some (t, w) -> Printf.sprintf "%d,ok,%s,%s" (int_of_n n) (b t) (b w)
          | None -> Printf.sprintf "%d,err" (int_of_n n)))) [("yes", SkipYes); ("no", SkipNo)];
      probe "next_can_be_plain_scalar.block" (q (sb_next_can_be_plain_scalar false) b);
      probe "next_can_be_plain_scalar.flow" (q (sb_next_can_be_plain_scalar true) b);
      probe "next_is_blank_or_break" (q sb_next_is_blank_or_break b);
      probe "next_is_blank_or_breakz" (q sb_next_is_blank_or_breakz b);
      probe "next_is_blank" (q sb_next_is_blank b);
      probe "next_is_break" (q sb_next_is_break b);
      probe "next_is_breakz" (q sb_next_is_breakz b);
      probe "next_is_z" (q sb_next_is_z b);
      probe "next_is_flow" (q sb_next_is_flow b);
      probe "next_is_digit" (q sb_next_is_digit b);
      probe "next_is_alpha" (q sb_next_is_alpha b);
      probe "skip_while_non_breakz" (m sb_skip_while_non_breakz (fun n -> string_of_int (int_of_n n)));
      probe "skip_while_blank" (m sb_skip_while_blank (fun n -> string_of_int (int_of_n n)));
      probe "fetch_while_is_alpha" (m (sb_fetch_while_is_alpha [n_of_int 120]) (fun (o, n) ->
        Printf.sprintf "%d,%s" (int_of_n n) (dots o)));
      String.concat ";" (List.rev !out)
    with _ -> "BADCASE")
  | _ -> "BADCASE"

let () =
  if Array.length Sys.argv < 2 || Sys.argv.(1) <> "methods" then (prerr_endline "usage: mx methods < cases"; exit 2);
  (try
    while true do
      let line = input_line stdin in
      print_endline (run line)
    done
  with End_of_file -> ())
