(* C03 driver around the extracted token grammar + parser model (build/ocaml_c03/model.ml).
   usage: mx check < layout-trees > results
   Case line:  <es> <ee> <tree>      es/ee = 0|1 (explicit document start / end marker), tree in prefix notation,
   space separated:
     S <props> <style P|S|D|L|F> <cps|_>        scalar
     A <cps>                                    alias
     N                                          node left out
     P <props>                                  properties only
     BS <props> <n> item^n                      block sequence
     IS <props> <n> item^n                      indentless sequence
     BM <props> <n> (<kt> key <vt> value)^n     block mapping
     FS <props> <trail> <n> (n node | p key <vt> value)^n
     FM <props> <trail> <n> (<kt> key <vt> value)^n
   props = <anchor cps|->/<tag handle cps,suffix cps|->/<tag first 0|1>
   Output (mode check):  <wf 0|1> <bound 0|1> <agree 0|1> <ntokens> <nevents>|<events of the spec, hx notation without spans>|<parser verdict>
   where agree = [map fst (parse_tokens (wrap (tokens_of t)))] = wrap_events (events_of t) and the run ended with PDone.
   Mode tokens: the token list of wrap es ee (tokens_of t) in the notation of `hx tokens` without spans.
   Mode stream: case line <keep> <ndocs> doc^n (see check_stream); same output for stream_toks / stream_events / docs_wf / docs_bound. *)
open Model

let rec pos_of_int i = if i = 1 then XH else if i land 1 = 0 then XO (pos_of_int (i lsr 1)) else XI (pos_of_int (i lsr 1))
let n_of_int i = if i = 0 then N0 else Npos (pos_of_int i)
let rec int_of_pos = function XH -> 1 | XO p -> 2 * int_of_pos p | XI p -> 2 * int_of_pos p + 1
let int_of_n = function N0 -> 0 | Npos p -> int_of_pos p
let cps l = String.concat "." (List.map (fun c -> string_of_int (int_of_n c)) l)
let of_cps s = if s = "" || s = "_" then [] else List.map (fun x -> n_of_int (int_of_string x)) (String.split_on_char '.' s)
let tag = function None -> "-" | Some t -> Printf.sprintf "h=%s/s=%s" (cps t.tg_handle) (cps t.tg_suffix)
let sty = function Plain -> "P" | SingleQuoted -> "S" | DoubleQuoted -> "D" | Literal -> "L" | Folded -> "F"
let style_of = function "P" -> Plain | "S" -> SingleQuoted | "D" -> DoubleQuoted | "L" -> Literal | "F" -> Folded | _ -> failwith "style"
let ev_body = function
  | EStreamStart -> "SS" | EStreamEnd -> "SE"
  | EDocumentStart b -> if b then "DS1" else "DS0" | EDocumentEnd -> "DE"
  | EAlias i -> Printf.sprintf "AL%d" (int_of_n i)
  | EScalar (v, st, a, t) -> Printf.sprintf "SC%s,%d,%s,%s" (sty st) (int_of_n a) (tag t) (cps v)
  | ESequenceStart (a, t) -> Printf.sprintf "QS%d,%s" (int_of_n a) (tag t)
  | ESequenceEnd -> "QE"
  | EMappingStart (a, t) -> Printf.sprintf "MS%d,%s" (int_of_n a) (tag t)
  | EMappingEnd -> "ME"
let tok_body = function
  | TStreamStart -> "SS" | TStreamEnd -> "SE"
  | TVersionDirective (a, b) -> Printf.sprintf "VD%d,%d" (int_of_n a) (int_of_n b)
  | TTagDirective (h, p) -> Printf.sprintf "TD%s,%s" (cps h) (cps p)
  | TDocumentStart -> "DS" | TDocumentEnd -> "DE"
  | TBlockSequenceStart -> "BSS" | TBlockMappingStart -> "BMS" | TBlockEnd -> "BE"
  | TFlowSequenceStart -> "FSS" | TFlowSequenceEnd -> "FSE" | TFlowMappingStart -> "FMS" | TFlowMappingEnd -> "FME"
  | TBlockEntry -> "BEN" | TFlowEntry -> "FEN" | TKey -> "K" | TValue -> "V"
  | TAlias n -> "AL" ^ cps n | TAnchor n -> "AN" ^ cps n
  | TTag (h, s) -> Printf.sprintf "TG%s,%s" (cps h) (cps s)
  | TScalar (st, v) -> Printf.sprintf "SC%s,%s" (sty st) (cps v)
let fin = function
  | PDone -> "OK"
  | PScanErr (s, _) -> Printf.sprintf "ERR#s%d" (int_of_n s)
  | PParseErr (s, _) -> Printf.sprintf "ERR#p%d" (int_of_n s)
  | PPanic n -> Printf.sprintf "MODELPANIC%d" (int_of_n n)
  | PFuel -> "MODELFUEL"

(* ---------- reading a layout tree ---------- *)
let parse_props s =
  match String.split_on_char '/' s with
  | [a; t; f] ->
      let anchor = if a = "-" then None else Some (of_cps a) in
      let tg = if t = "-" then None else
        (match String.index_opt t ',' with
         | Some i -> Some (of_cps (String.sub t 0 i), of_cps (String.sub t (i + 1) (String.length t - i - 1)))
         | None -> failwith "tag") in
      { pr_anchor = anchor; pr_tag = tg; pr_tag_first = (f = "1") }
  | _ -> failwith "props"
let flagv = function "0" -> false | "1" -> true | _ -> failwith "flag"
let rec tree = function
  | "S" :: p :: st :: v :: r -> (LScalar (parse_props p, style_of st, of_cps v), r)
  | "A" :: n :: r -> (LAlias (of_cps n), r)
  | "N" :: r -> (LNone, r)
  | "P" :: p :: r -> (LProps (parse_props p), r)
  | "BS" :: p :: n :: r -> let (l, r) = many tree (int_of_string n) r in (LBSeq (parse_props p, l), r)
  | "IS" :: p :: n :: r -> let (l, r) = many tree (int_of_string n) r in (LISeq (parse_props p, l), r)
  | "BM" :: p :: n :: r -> let (l, r) = many entry (int_of_string n) r in (LBMap (parse_props p, l), r)
  | "FS" :: p :: t :: n :: r -> let (l, r) = many fsent (int_of_string n) r in (LFSeq (parse_props p, l, flagv t), r)
  | "FM" :: p :: t :: n :: r -> let (l, r) = many entry (int_of_string n) r in (LFMap (parse_props p, l, flagv t), r)
  | x :: _ -> failwith ("tree " ^ x)
  | [] -> failwith "tree: end of line"
and many : 'a. (string list -> 'a * string list) -> int -> string list -> 'a list * string list = fun f n r ->
  if n = 0 then ([], r) else let (x, r) = f r in let (l, r) = many f (n - 1) r in (x :: l, r)
and entry = function
  | kt :: r ->
      let (k, r) = tree r in
      (match r with
       | vt :: r -> let (v, r) = tree r in (((flagv kt, k), (flagv vt, v)), r)
       | [] -> failwith "entry")
  | [] -> failwith "entry"
and fsent = function
  | "n" :: r -> let (x, r) = tree r in (Inl x, r)
  | "p" :: r ->
      let (k, r) = tree r in
      (match r with
       | vt :: r -> let (v, r) = tree r in (Inr (k, (flagv vt, v)), r)
       | [] -> failwith "fsent")
  | _ -> failwith "fsent"

let m0 = { m_index = N0; m_line = N0; m_col = N0 }
let span0 = { sp_start = m0; sp_end = m0 }
let parse_case line =
  match List.filter (fun s -> s <> "") (String.split_on_char ' ' (String.trim line)) with
  | es :: ee :: r ->
      let (t, rest) = tree r in
      if rest <> [] then failwith "trailing input";
      (flagv es, flagv ee, t)
  | _ -> failwith "case"

let b x = if x then "1" else "0"
let check line =
  let (es, ee, t) = parse_case line in
  let toks = wrap es ee (tokens_of t) in
  let (evs, e) = parse_tokens (List.map (fun k -> (span0, k)) toks) SEnded false in
  let got = List.map fst evs in
  let exp = wrap_events es (events_of t) in
  let agree = e = PDone && got = exp in
  Printf.sprintf "%s %s %s %d %d|%s|%s" (b (wf_root es t)) (b (bound [] env0 (pre_events t))) (b agree)
    (List.length toks) (List.length exp) (String.concat ";" (List.map ev_body exp))
    (if agree then "OK" else String.concat ";" (List.map ev_body got) ^ "#" ^ fin e)

(* stream case:  <keep 0|1> <ndocs> doc^n,  doc = <ndirs> (V <major> <minor> | T <handle cps> <prefix cps>)^k <start 0|1> <ends> <tree> *)
let rec nat_of_int i = if i = 0 then O else S (nat_of_int (i - 1))
let rec dirs n r =
  if n = 0 then ([], r) else
  match r with
  | "V" :: a :: b :: r -> let (l, r) = dirs (n - 1) r in (DVersion (n_of_int (int_of_string a), n_of_int (int_of_string b)) :: l, r)
  | "T" :: h :: p :: r -> let (l, r) = dirs (n - 1) r in (DTag (of_cps h, of_cps p) :: l, r)
  | _ -> failwith "directive"
let doc = function
  | nd :: r ->
      let (ds, r) = dirs (int_of_string nd) r in
      (match r with
       | st :: en :: r ->
           let (t, r) = tree r in
           ({ ld_dirs = ds; ld_start = flagv st; ld_root = t; ld_ends = nat_of_int (int_of_string en) }, r)
       | _ -> failwith "doc")
  | [] -> failwith "doc"
let check_stream line =
  match List.filter (fun s -> s <> "") (String.split_on_char ' ' (String.trim line)) with
  | keep :: n :: r ->
      let keep = flagv keep in
      let (ds, rest) = many doc (int_of_string n) r in
      if rest <> [] then failwith "trailing input";
      let toks = stream_toks ds in
      let (evs, e) = parse_tokens (List.map (fun k -> (span0, k)) toks) SEnded keep in
      let got = List.map fst evs in
      let exp = stream_events keep ds in
      let agree = e = PDone && got = exp in
      Printf.sprintf "%s %s %s %d %d|%s|%s" (b (docs_wf true ds)) (b (docs_bound keep [] (n_of_int 1) ds)) (b agree)
        (List.length toks) (List.length exp) (String.concat ";" (List.map ev_body exp))
        (if agree then "OK" else String.concat ";" (List.map ev_body got) ^ "#" ^ fin e)
  | _ -> failwith "case"

(* flow-text case (Spec/FlowText.v):  W <cps> | S <n> (n node | p <key cps> node)^n | M <n> (<key cps> node)^n
   output: <fwf> <is_coll> <depth> <fgram>|<doc_text cps>|<wrap false false (tokens_of (lt f))>|<wrap_events false (events_of (lt f))> *)
let rec int_of_nat = function O -> 0 | S n -> 1 + int_of_nat n
let rec fnode = function
  | "W" :: w :: r -> (FW (of_cps w), r)
  | "S" :: n :: r -> let (l, r) = many fent (int_of_string n) r in (FS l, r)
  | "M" :: n :: r -> let (l, r) = many fpair (int_of_string n) r in (FM l, r)
  | _ -> failwith "fnode"
and fent = function
  | "n" :: r -> let (x, r) = fnode r in ((None, x), r)
  | "p" :: k :: r -> let (x, r) = fnode r in ((Some (of_cps k), x), r)
  | _ -> failwith "fent"
and fpair = function
  | k :: r -> let (x, r) = fnode r in ((of_cps k, x), r)
  | [] -> failwith "fpair"
let check_flow line =
  let (f, rest) = fnode (List.filter (fun s -> s <> "") (String.split_on_char ' ' (String.trim line))) in
  if rest <> [] then failwith "trailing input";
  let t = lt f in
  Printf.sprintf "%s %s %d %s|%s|%s|%s" (b (fwf f)) (b (is_coll f)) (int_of_nat (depth f)) (b (fgram f))
    (String.concat " " (List.map (fun c -> string_of_int (int_of_n c)) (doc_text f)))
    (String.concat ";" (List.map tok_body (wrap false false (tokens_of t))))
    (String.concat ";" (List.map ev_body (wrap_events false (events_of t))))

(* block-text case (Spec/BlockText.v):  W <cps> | S <place> <n> node^n | M <place> <n> (<key cps> node)^n | I <n> node^n (indentless),  place = - (compact) | d
   output: <bwf_root> <bdepth>|<bdoc_text cps>|<wrap false false (tokens_of (blt n))>|<wrap_events false (events_of (blt n))> *)
let rec nat_of_int n = if n <= 0 then O else S (nat_of_int (n - 1))
let place = function "-" -> None | d -> Some (nat_of_int (int_of_string d))
let rec bnode = function
  | "W" :: w :: r -> (BW (of_cps w), r)
  | "S" :: pl :: n :: r -> let (l, r) = many bnode (int_of_string n) r in (BS (place pl, l), r)
  | "M" :: pl :: n :: r -> let (l, r) = many bpair (int_of_string n) r in (BM (place pl, l), r)
  | "I" :: n :: r -> let (l, r) = many bnode (int_of_string n) r in (BI l, r)
  | _ -> failwith "bnode"
and bpair = function
  | k :: r -> let (x, r) = bnode r in ((of_cps k, x), r)
  | [] -> failwith "bpair"
let check_block line =
  let (n, rest) = bnode (List.filter (fun s -> s <> "") (String.split_on_char ' ' (String.trim line))) in
  if rest <> [] then failwith "trailing input";
  let t = blt n in
  Printf.sprintf "%s %d|%s|%s|%s" (b (bwf_root n)) (int_of_nat (bdepth n))
    (String.concat " " (List.map (fun c -> string_of_int (int_of_n c)) (bdoc_text n)))
    (String.concat ";" (List.map tok_body (wrap false false (tokens_of t))))
    (String.concat ";" (List.map ev_body (wrap_events false (events_of t))))

let () =
  let mode = Sys.argv.(1) in
  let handle line =
    match mode with
    | "check" -> check line
    | "stream" -> check_stream line
    | "flow" -> check_flow line
    | "block" -> check_block line
    | "tokens" -> let (es, ee, t) = parse_case line in String.concat ";" (List.map tok_body (wrap es ee (tokens_of t)))
    | _ -> failwith "mode" in
  try
    while true do
      let line = input_line stdin in
      let r = try handle line with Failure m -> "|DRIVERFAIL " ^ m | Not_found -> "|DRIVERFAIL notfound" in
      print_string r; print_char '\n'
    done
  with End_of_file -> ()
