(* C05 driver around the extracted specification (coq/Extract/ExtractC05.v -> model.ml).
   usage: mx spec < cases > results
   case line  : style|chomp|explicit|digit_first|parent|prefix|hc|lines|eof|brk
                style L/F; chomp s/c/k; explicit 0 (none) or 1..9; digit_first 0/1; parent -1 (top level) or the
                indentation of the parent collection; prefix, hc: dot separated code points;
                lines: comma separated <spaces>:<dot separated code points>; eof: N | Z | R<code points>;
                brk 0 (LF) 1 (CR LF) 2 (CR)
   result line: <case_ok 0/1> <content indentation>|<rendered text>|<expected value>|<line classes, T<e> / B<k>> *)
open Model

let rec pos_of_int i = if i = 1 then XH else if i land 1 = 0 then XO (pos_of_int (i lsr 1)) else XI (pos_of_int (i lsr 1))
let n_of_int i = if i = 0 then N0 else Npos (pos_of_int i)
let rec int_of_pos = function XH -> 1 | XO p -> 2 * int_of_pos p | XI p -> 2 * int_of_pos p + 1
let int_of_n = function N0 -> 0 | Npos p -> int_of_pos p
let rec nat_of_int i = if i <= 0 then O else S (nat_of_int (i - 1))
let rec int_of_nat = function O -> 0 | S n -> 1 + int_of_nat n
let cps l = String.concat "." (List.map (fun c -> string_of_int (int_of_n c)) l)
let of_cps s = if s = "" then [] else List.map (fun x -> n_of_int (int_of_string x)) (String.split_on_char '.' s)

let parse_line s =
  match String.index_opt s ':' with
  | Some i -> (nat_of_int (int_of_string (String.sub s 0 i)), of_cps (String.sub s (i + 1) (String.length s - i - 1)))
  | None -> failwith "line"

let case_of line =
  match String.split_on_char '|' line with
  | [st; ch; ex; df; par; pre; hc; ls; eof; brk] ->
      let explicit = int_of_string ex and parent = int_of_string par in
      { bc_literal = (st = "L");
        bc_chomp = (match ch with "s" -> CStrip | "c" -> CClip | "k" -> CKeep | _ -> failwith "chomp");
        bc_explicit = (if explicit = 0 then None else Some (nat_of_int explicit));
        bc_digit_first = (df = "1");
        bc_parent = (if parent < 0 then None else Some (nat_of_int parent));
        bc_prefix = of_cps pre; bc_hc = of_cps hc;
        bc_raw = (if ls = "" then [] else List.map parse_line (String.split_on_char ',' ls));
        bc_eof = (if eof = "N" then EofNewline else if eof = "Z" then EofNone
                  else if String.length eof > 0 && eof.[0] = 'R' then EofRest (of_cps (String.sub eof 1 (String.length eof - 1)))
                  else failwith "eof");
        bc_brk = n_of_int (int_of_string brk) }
  | _ -> failwith "fields"

let cls = function Text (e, _) -> "T" ^ string_of_int (int_of_nat e) | Blank k -> "B" ^ string_of_int (int_of_nat k)

let () =
  let mode = if Array.length Sys.argv > 1 then Sys.argv.(1) else "spec" in
  if mode <> "spec" then (prerr_endline "usage: mx spec"; exit 2);
  try
    while true do
      let line = input_line stdin in
      (try
         let b = case_of (String.trim line) in
         Printf.printf "%d %d|%s|%s|%s\n" (if case_ok b then 1 else 0) (int_of_nat (case_indent b))
           (cps (case_text b)) (cps (case_value b)) (String.concat "," (List.map cls (case_lines b)))
       with e -> Printf.printf "DRIVERERR %s\n" (Printexc.to_string e))
    done
  with End_of_file -> ()
