(* C16 driver around the extracted model + specification (build/ocaml_c16/model.ml).
   usage: mx events <0|1> < cases        one case per line (space-separated code points): canonical event line of
                                         the model pipeline with keep_tags = 0|1 (same text as `hx_c16 <0|1>`)
          mx spec < descriptions         the specification of Spec/TagSpec.v evaluated on a description of a stream:
              <keep>;<doc>;<doc>...      doc  = <directives>#<tags>           (both comma-separated, possibly empty)
                                         directive = Y | R | T<handle>:<raw prefix>
                                         tag  = <handle>:<raw suffix>         (texts: code points separated by '.')
              raw = as written in the YAML text, i.e. before percent-decoding.
              result: per document the expected tags `h=<prefix>/s=<suffix>` (comma-separated; documents separated
              by ';'), ending at the first error with BADPREFIX | DUPHANDLE<i> | DUPYAML<i> | BADSUFFIX | UNDECLARED. *)
open Model

let rec pos_of_int i = if i = 1 then XH else if i land 1 = 0 then XO (pos_of_int (i lsr 1)) else XI (pos_of_int (i lsr 1))
let n_of_int i = if i = 0 then N0 else Npos (pos_of_int i)
let rec int_of_pos = function XH -> 1 | XO p -> 2 * int_of_pos p | XI p -> 2 * int_of_pos p + 1
let int_of_n = function N0 -> 0 | Npos p -> int_of_pos p
let rec int_of_nat = function O -> 0 | S n -> 1 + int_of_nat n

let cps l = String.concat "." (List.map (fun c -> string_of_int (int_of_n c)) l)
let of_cps s = if s = "" then [] else List.map (fun x -> n_of_int (int_of_string x)) (String.split_on_char '.' s)
let decode_case line =
  let line = String.trim line in
  if line = "" then [] else List.map (fun x -> n_of_int (int_of_string x)) (String.split_on_char ' ' line)

let mk m = Printf.sprintf "%d:%d:%d" (int_of_n m.m_index) (int_of_n m.m_line) (int_of_n m.m_col)
let sp s = Printf.sprintf "@%s-%s" (mk s.sp_start) (mk s.sp_end)
let tag = function None -> "-" | Some t -> Printf.sprintf "h=%s/s=%s" (cps t.tg_handle) (cps t.tg_suffix)
let sty = function Plain -> "P" | SingleQuoted -> "S" | DoubleQuoted -> "D" | Literal -> "L" | Folded -> "F"
let ev_body = function
  | EStreamStart -> "SS" | EStreamEnd -> "SE"
  | EDocumentStart b -> if b then "DS1" else "DS0" | EDocumentEnd -> "DE"
  | EAlias i -> Printf.sprintf "AL%d" (int_of_n i)
  | EScalar (v, st, a, t) -> Printf.sprintf "SC%s,%d,%s,%s" (sty st) (int_of_n a) (tag t) (cps v)
  | ESequenceStart (a, t) -> Printf.sprintf "QS%d,%s" (int_of_n a) (tag t)
  | ESequenceEnd -> "QE"
  | EMappingStart (a, t) -> Printf.sprintf "MS%d,%s" (int_of_n a) (tag t)
  | EMappingEnd -> "ME"
let ev (e, s) = ev_body e ^ sp s
let fin = function
  | PDone -> "OK"
  | PScanErr (s, m) -> Printf.sprintf "ERR@%s#s%d" (mk m) (int_of_n s)
  | PParseErr (s, m) -> Printf.sprintf "ERR@%s#p%d" (mk m) (int_of_n s)
  | PPanic n -> Printf.sprintf "MODELPANIC%d" (int_of_n n)
  | PFuel -> "MODELFUEL"
let events_line (evs, e) = String.concat ";" (List.map ev evs) ^ "|" ^ fin e

(* ---------- the specification as an oracle ---------- *)
exception Stop of string
let split_nonempty c s = if s = "" then [] else String.split_on_char c s
let two c s = match String.index_opt s c with
  | Some i -> (String.sub s 0 i, String.sub s (i + 1) (String.length s - i - 1))
  | None -> failwith "two"
let spec_line line =
  match String.split_on_char ';' line with
  | [] -> failwith "empty"
  | k :: docs ->
    let keep = (k = "1") in
    let prev = ref [] in
    let out = Buffer.create 64 in
    (try
       List.iteri (fun di doc ->
         if di > 0 then Buffer.add_char out ';';
         let (dtext, ttext) = two '#' doc in
         (* directives in order; a broken prefix is reported unless an earlier directive is already an error *)
         let acc = ref [] in
         List.iter (fun d ->
           if d = "Y" then acc := DYaml (n_of_int 1, n_of_int 2) :: !acc
           else if d = "R" then acc := DReserved :: !acc
           else if String.length d > 0 && d.[0] = 'T' then begin
             let (h, p) = two ':' (String.sub d 1 (String.length d - 1)) in
             match percent_decode (of_cps p) with
             | Some p' -> acc := DTag (of_cps h, p') :: !acc
             | None ->
               (match decls (List.rev !acc) with
                | DuplicateHandle i -> raise (Stop (Printf.sprintf "DUPHANDLE%d" (int_of_nat i)))
                | DuplicateYaml i -> raise (Stop (Printf.sprintf "DUPYAML%d" (int_of_nat i)))
                | Declared _ -> raise (Stop "BADPREFIX"))
           end else failwith "directive") (split_nonempty ',' dtext);
         let ds = List.rev !acc in
         let t = match table_of keep !prev ds with
           | Some t -> t
           | None ->
             (match decls ds with
              | DuplicateHandle i -> raise (Stop (Printf.sprintf "DUPHANDLE%d" (int_of_nat i)))
              | DuplicateYaml i -> raise (Stop (Printf.sprintf "DUPYAML%d" (int_of_nat i)))
              | Declared _ -> failwith "table_of") in
         prev := t;
         List.iteri (fun ti tg ->
           if ti > 0 then Buffer.add_char out ',';
           let (h, s) = two ':' tg in
           match percent_decode (of_cps s) with
           | None -> raise (Stop "BADSUFFIX")
           | Some s' ->
             (match expand t (of_cps h) s' with
              | None -> raise (Stop "UNDECLARED")
              | Some (p, sfx) -> Buffer.add_string out (Printf.sprintf "h=%s/s=%s" (cps p) (cps sfx))))
           (split_nonempty ',' ttext)) docs
     with Stop m -> Buffer.add_string out m);
    Buffer.contents out

let () =
  let mode = Sys.argv.(1) in
  let arg i = if Array.length Sys.argv > i then Sys.argv.(i) else "" in
  let handle line =
    match mode with
    | "events" -> events_line (run_str_keep (arg 2 = "1") (decode_case line))
    | "events-main" -> events_line (run_str (decode_case line))
    | "spec" -> spec_line line
    | _ -> failwith "mode" in
  try
    while true do
      let line = input_line stdin in
      let r = try handle line with Failure m -> "|DRIVERFAIL " ^ m | Not_found -> "|DRIVERFAIL notfound" in
      print_string r; print_char '\n'
    done
  with End_of_file -> ()
