(* C09 driver around the extracted emitter model (build/ocaml_c09/model.ml).
   usage: mx emit < cases      case: `c<0|1> m<0|1> <node>` with the prefix tree encoding of hx_c09, except that a float
                               leaf is `T<cp.cp...>`: the text the implementation's number formatting produced for it
                               result: `<emitted text as cp.cp...>|<max emitted length of a scalar mapping key>`
          mx rt   < cases      same cases; result: `<wf_node 0|1>|<round_trip_ok 0|1>`: the emitted text of the model run
                               through the MODEL of the loading pipeline (scanner, parser, loader) and compared
          mx nq   < strings    case: space separated decimal code points
                               result: `<need_quotes 0|1>|<escape_str as cp.cp...>|<parse_from_cow is a string 0|1>` *)
open Model

let rec pos_of_int i = if i = 1 then XH else if i land 1 = 0 then XO (pos_of_int (i lsr 1)) else XI (pos_of_int (i lsr 1))
let n_of_int i = if i = 0 then N0 else Npos (pos_of_int i)
let rec int_of_pos = function XH -> 1 | XO p -> 2 * int_of_pos p | XI p -> 2 * int_of_pos p + 1
let int_of_n = function N0 -> 0 | Npos p -> int_of_pos p
let cps l = String.concat "." (List.map (fun c -> string_of_int (int_of_n c)) l)
let of_cps s = if s = "" then [] else List.map (fun x -> n_of_int (int_of_string x)) (String.split_on_char '.' s)
let of_ascii s = List.init (String.length s) (fun i -> n_of_int (Char.code s.[i]))
let decode_case line =
  let line = String.trim line in
  if line = "" then [] else List.map (fun x -> n_of_int (int_of_string x)) (String.split_on_char ' ' line)

exception Bad of string
let rest tok = String.sub tok 1 (String.length tok - 1)
let parse_tree (toks : string array) : node =
  let i = ref 0 in
  let rec node () =
    if !i >= Array.length toks then raise (Bad "truncated");
    let tok = toks.(!i) in
    incr i;
    let r = rest tok in
    match tok.[0] with
    | 'N' -> NNull
    | 'B' -> NBool (r = "1")
    | 'I' -> (match parse_i64 (of_ascii r) with Some z -> NInt z | None -> raise (Bad ("integer " ^ r)))
    | 'T' -> NFloat (of_cps r)
    | 'S' -> NStr (of_cps r)
    | 'Q' -> let n = int_of_string r in
             let rec go k = if k = 0 then [] else (let x = node () in x :: go (k - 1)) in
             NSeq (go n)
    | 'M' -> let n = int_of_string r in
             let rec go k = if k = 0 then [] else (let a = node () in let b = node () in (a, b) :: go (k - 1)) in
             NMap (go n)
    | _ -> raise (Bad ("token " ^ tok))
  in
  let t = node () in
  if !i <> Array.length toks then raise (Bad "trailing tokens");
  t

let emit_case line =
  match List.filter (fun t -> t <> "") (String.split_on_char ' ' line) with
  | c :: m :: toks ->
      let compact = (c = "c1") and multiline = (m = "m1") in
      let t = parse_tree (Array.of_list toks) in
      Printf.sprintf "%s|%d" (cps (dump_doc compact multiline t)) (int_of_n (max_key_len multiline t))
  | _ -> raise (Bad "settings")

let rt_case line =
  match List.filter (fun t -> t <> "") (String.split_on_char ' ' line) with
  | c :: m :: toks ->
      let compact = (c = "c1") and multiline = (m = "m1") in
      let t = parse_tree (Array.of_list toks) in
      Printf.sprintf "%d|%d" (if wf_node t then 1 else 0) (if round_trip_ok compact multiline t then 1 else 0)
  | _ -> raise (Bad "settings")

let nq_case line =
  let s = decode_case line in
  Printf.sprintf "%d|%s|%d" (if need_quotes s then 1 else 0) (cps (escape_str s))
    (match parse_from_cow s with SStr _ -> 1 | _ -> 0)

let () =
  let mode = if Array.length Sys.argv > 1 then Sys.argv.(1) else "emit" in
  let f = match mode with "emit" -> emit_case | "rt" -> rt_case | "nq" -> nq_case | _ -> (fun _ -> "BADMODE") in
  (try
     while true do
       let line = input_line stdin in
       let out = try f line with
         | Bad m -> "MODELERR#" ^ m
         | Stack_overflow -> "MODELERR#stack"
         | e -> "MODELERR#" ^ Printexc.to_string e in
       print_string out; print_char '\n'
     done
   with End_of_file -> ());
  flush stdout
