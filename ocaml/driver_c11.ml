(* Line-protocol driver around the extracted C11 oracle (build/ocaml_c11/model.ml).
   usage: mx oracle < cases
   Case line = <tokens as printed by `hx tokens`, without the part after '|'> TAB <events as printed by
   `hx events str`, without the part after '|'>.
   Result line = "<h><g><i><t><k> flow=<n> nest=<n> other=<n> depth=<n> tokbound=<n> bound=<n>"
   (h, g, i, t, k: 1 = the theorem's inequality holds; t: token nesting <= NEST_TOK_BOUND, k: event nesting <= NEST_BOUND;
    the two bounds are the Coq constants, computed from Gen/Consts.v) *)
open Model

let rec pos_of_int i = if i = 1 then XH else if i land 1 = 0 then XO (pos_of_int (i lsr 1)) else XI (pos_of_int (i lsr 1))
let n_of_int i = if i = 0 then N0 else Npos (pos_of_int i)
let rec int_of_pos = function XH -> 1 | XO p -> 2 * int_of_pos p | XI p -> 2 * int_of_pos p + 1
let int_of_n = function N0 -> 0 | Npos p -> int_of_pos p
let of_cps s = if s = "" then [] else List.map (fun x -> n_of_int (int_of_string x)) (String.split_on_char '.' s)

let parse_mark s =
  match String.split_on_char ':' s with
  | [a; b; c] -> { m_index = n_of_int (int_of_string a); m_line = n_of_int (int_of_string b); m_col = n_of_int (int_of_string c) }
  | _ -> failwith "mark"
let parse_span s =
  match String.index_opt s '-' with
  | Some i -> { sp_start = parse_mark (String.sub s 0 i); sp_end = parse_mark (String.sub s (i + 1) (String.length s - i - 1)) }
  | None -> failwith "span"
let starts s p = String.length s >= String.length p && String.sub s 0 (String.length p) = p
let after s p = String.sub s (String.length p) (String.length s - String.length p)
let two s = match String.index_opt s ',' with
  | Some i -> (String.sub s 0 i, String.sub s (i + 1) (String.length s - i - 1))
  | None -> failwith "two"
let style_of = function "P" -> Plain | "S" -> SingleQuoted | "D" -> DoubleQuoted | "L" -> Literal | "F" -> Folded | _ -> failwith "style"
let parse_tok s =
  let i = String.rindex s '@' in
  let b = String.sub s 0 i and span = parse_span (String.sub s (i + 1) (String.length s - i - 1)) in
  let t =
    if b = "SS" then TStreamStart else if b = "SE" then TStreamEnd
    else if b = "DS" then TDocumentStart else if b = "DE" then TDocumentEnd
    else if b = "BSS" then TBlockSequenceStart else if b = "BMS" then TBlockMappingStart else if b = "BE" then TBlockEnd
    else if b = "FSS" then TFlowSequenceStart else if b = "FSE" then TFlowSequenceEnd
    else if b = "FMS" then TFlowMappingStart else if b = "FME" then TFlowMappingEnd
    else if b = "BEN" then TBlockEntry else if b = "FEN" then TFlowEntry
    else if b = "K" then TKey else if b = "V" then TValue
    else if starts b "VD" then let (x, y) = two (after b "VD") in TVersionDirective (n_of_int (int_of_string x), n_of_int (int_of_string y))
    else if starts b "TD" then let (x, y) = two (after b "TD") in TTagDirective (of_cps x, of_cps y)
    else if starts b "AL" then TAlias (of_cps (after b "AL"))
    else if starts b "AN" then TAnchor (of_cps (after b "AN"))
    else if starts b "TG" then let (x, y) = two (after b "TG") in TTag (of_cps x, of_cps y)
    else if starts b "SC" then let (x, y) = two (after b "SC") in TScalar (style_of x, of_cps y)
    else failwith ("token " ^ b) in
  (span, t)

(* events: kinds only *)
let parse_event_kind s =
  let b = match String.rindex_opt s '@' with Some i -> String.sub s 0 i | None -> s in
  if b = "SS" then EStreamStart else if b = "SE" then EStreamEnd
  else if starts b "DS" then EDocumentStart (b = "DS1") else if b = "DE" then EDocumentEnd
  else if starts b "AL" then EAlias (n_of_int (int_of_string (after b "AL")))
  else if starts b "SC" then
    (match String.split_on_char ',' (after b "SC") with
     | st :: a :: _ -> EScalar ([], style_of st, n_of_int (int_of_string a), None)
     | _ -> failwith "scalar")
  else if starts b "QS" then (match String.split_on_char ',' (after b "QS") with a :: _ -> ESequenceStart (n_of_int (int_of_string a), None) | _ -> failwith "qs")
  else if b = "QE" then ESequenceEnd
  else if starts b "MS" then (match String.split_on_char ',' (after b "MS") with a :: _ -> EMappingStart (n_of_int (int_of_string a), None) | _ -> failwith "ms")
  else if b = "ME" then EMappingEnd
  else failwith ("event " ^ b)

let split_items s = if s = "" then [] else String.split_on_char ';' s

let oracle line =
  match String.split_on_char '\t' line with
  | [t; e] ->
      let toks = List.map parse_tok (split_items t) and evs = List.map parse_event_kind (split_items e) in
      let ((((h, g), i), t), k) = c11_oracle toks evs in
      let (((fl, ne), ot), de) = c11_measures toks evs in
      let (tb, eb) = c11_bounds in
      let b x = if x then "1" else "0" in
      Printf.sprintf "%s%s%s%s%s flow=%d nest=%d other=%d depth=%d tokbound=%d bound=%d" (b h) (b g) (b i) (b t) (b k)
        (int_of_n fl) (int_of_n ne) (int_of_n ot) (int_of_n de) (int_of_n tb) (int_of_n eb)
  | _ -> failwith "case"

let () =
  let f = match Array.to_list Sys.argv |> List.tl with
    | ["oracle"] -> oracle
    | _ -> prerr_endline "usage: mx oracle"; exit 2 in
  let out = Buffer.create (1 lsl 16) in
  (try
     while true do
       let line = input_line stdin in
       Buffer.add_string out (try f line with e -> "MODELEXN " ^ Printexc.to_string e);
       Buffer.add_char out '\n';
       if Buffer.length out > (1 lsl 16) then (print_string (Buffer.contents out); Buffer.clear out)
     done
   with End_of_file -> ());
  print_string (Buffer.contents out)
