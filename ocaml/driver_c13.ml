(* C13: line-protocol driver around the extracted JSON specification (coq/Spec/Json.v).
   usage: mx <mode> < cases > results
   A JSON value is written in prefix form, items separated by single spaces:
     n | t | f | #<cps> (number text) | s<cps> (string) | [<k> v1 .. vk | {<k> s<key1> v1 .. s<keyk> vk
   where <cps> are decimal code points joined by '.'.
   modes:  tokens  value                -> wrap (json_tokens v), token kinds as the harness prints them, no spans
           expect  value                -> "wf=<b> distinct=<b> depth=<n> <dump of yaml_of_json v>"
           oracle  value @@ <hx load line> -> "1" / "0"   (c13_impl_ok on the implementation's documents)
           coltab  <code points of a text, space separated> -> "1" / "0"   (colon_tab Tout: class of the fixed finding, regression stream)
           compact value                -> "ok=<b> <code points of json_compact v, space separated>"   (ok = json_wf && json_chars_ok: the
                                           hypotheses of C13_text_compact) *)
open Model

let rec pos_of_int i = if i = 1 then XH else if i land 1 = 0 then XO (pos_of_int (i lsr 1)) else XI (pos_of_int (i lsr 1))
let n_of_int i = if i = 0 then N0 else Npos (pos_of_int i)
let rec int_of_pos = function XH -> 1 | XO p -> 2 * int_of_pos p | XI p -> 2 * int_of_pos p + 1
let int_of_n = function N0 -> 0 | Npos p -> int_of_pos p
let rec int_of_nat = function O -> 0 | S n -> 1 + int_of_nat n
let rec bits = function XH -> [1] | XO p -> 0 :: bits p | XI p -> 1 :: bits p   (* lsb first *)
let hex_of_pos p =
  let b = Array.of_list (bits p) in
  let n = Array.length b in
  let nd = (n + 3) / 4 in
  let s = Bytes.make nd '0' in
  for d = 0 to nd - 1 do
    let v = ref 0 in
    for k = 0 to 3 do let i = d * 4 + k in if i < n && b.(i) = 1 then v := !v lor (1 lsl k) done;
    Bytes.set s (nd - 1 - d) "0123456789abcdef".[!v]
  done;
  Bytes.to_string s
let hex_of_z = function Z0 -> "0x0" | Zpos p -> "0x" ^ hex_of_pos p | Zneg p -> "-0x" ^ hex_of_pos p
let cps l = String.concat "." (List.map (fun c -> string_of_int (int_of_n c)) l)
let of_cps s = if s = "" then [] else List.map (fun x -> n_of_int (int_of_string x)) (String.split_on_char '.' s)
let starts s p = String.length s >= String.length p && String.sub s 0 (String.length p) = p
let after s p = String.sub s (String.length p) (String.length s - String.length p)

let z_of_hex_digits h =
  let acc = ref None in
  String.iter (fun ch ->
    let v = if ch >= '0' && ch <= '9' then Char.code ch - 48 else if ch >= 'a' && ch <= 'f' then Char.code ch - 87 else failwith "hex" in
    for k = 3 downto 0 do
      let bit = (v lsr k) land 1 in
      acc := (match !acc with
              | None -> if bit = 1 then Some XH else None
              | Some p -> Some (if bit = 1 then XI p else XO p))
    done) h;
  match !acc with None -> Z0 | Some p -> Zpos p
let z_of_hex s =
  if starts s "-0x" then (match z_of_hex_digits (after s "-0x") with Zpos p -> Zneg p | z -> z)
  else if starts s "0x" then z_of_hex_digits (after s "0x") else failwith "zhex"

(* ---------- the value in prefix form ---------- *)
let parse_value line =
  let items = ref (List.filter (fun x -> x <> "") (String.split_on_char ' ' (String.trim line))) in
  let next () = match !items with x :: r -> items := r; x | [] -> failwith "value: truncated" in
  let rec value () =
    let it = next () in
    match it.[0] with
    | 'n' -> JNull | 't' -> JBool true | 'f' -> JBool false
    | '#' -> JNum (of_cps (after it "#"))
    | 's' -> JStr (of_cps (after it "s"))
    | '[' -> let k = int_of_string (after it "[") in JArr (List.init k (fun _ -> value ()))
    | '{' -> let k = int_of_string (after it "{") in
             JObj (List.init k (fun _ -> let key = next () in
                                         if key.[0] <> 's' then failwith "value: key" else
                                         let kk = of_cps (after key "s") in let v = value () in (kk, v)))
    | _ -> failwith "value: item" in
  let v = value () in
  if !items <> [] then failwith "value: trailing items" else v

(* ---------- dumps ---------- *)
let sty = function Plain -> "P" | SingleQuoted -> "S" | DoubleQuoted -> "D" | Literal -> "L" | Folded -> "F"
let tok_body = function
  | TStreamStart -> "SS" | TStreamEnd -> "SE"
  | TFlowSequenceStart -> "FSS" | TFlowSequenceEnd -> "FSE" | TFlowMappingStart -> "FMS" | TFlowMappingEnd -> "FME"
  | TFlowEntry -> "FEN" | TKey -> "K" | TValue -> "V"
  | TScalar (st, v) -> Printf.sprintf "SC%s,%s" (sty st) (cps v)
  | _ -> "?"
let rec dump = function
  | YVal SNull -> "N" | YVal (SBool b) -> if b then "B1" else "B0"
  | YVal (SInt z) -> "I" ^ hex_of_z z
  | YVal (SFloat FNan) -> "Fnan"
  | YVal (SFloat (FInf n)) -> if n then "F-inf" else "Finf"
  | YVal (SFloat (FDec (n, m, e))) -> Printf.sprintf "Fd%s%s^%s" (if n then "-" else "") (hex_of_z m) (hex_of_z e)
  | YVal (SStr s) -> "S" ^ cps s
  | YSeq l -> "Q[" ^ String.concat "," (List.map dump l) ^ "]"
  | YMap l -> "M{" ^ String.concat "," (List.map (fun (k, v) -> dump k ^ "=" ^ dump v) l) ^ "}"
  | YBad -> "X"

(* ---------- the implementation's node dump ---------- *)
let parse_docs s =
  let n = String.length s in
  let pos = ref 0 in
  let peek () = if !pos < n then s.[!pos] else '\000' in
  let word () =
    let st = !pos in
    while !pos < n && (match s.[!pos] with ',' | '=' | ']' | '}' | ' ' -> false | _ -> true) do incr pos done;
    String.sub s st (!pos - st) in
  let expect c = if peek () = c then incr pos else failwith (Printf.sprintf "dump: expected %c at %d" c !pos) in
  let rec node () =
    match peek () with
    | 'Q' -> incr pos; expect '[';
        let items = ref [] in
        if peek () = ']' then incr pos else begin
          let go = ref true in
          while !go do
            let x = node () in
            items := x :: !items;
            if peek () = ',' then incr pos else (expect ']'; go := false)
          done end;
        ISeq (List.rev !items)
    | 'M' -> incr pos; expect '{';
        let items = ref [] in
        if peek () = '}' then incr pos else begin
          let go = ref true in
          while !go do
            let k = node () in
            expect '=';
            let v = node () in
            items := (k, v) :: !items;
            if peek () = ',' then incr pos else (expect '}'; go := false)
          done end;
        IMap (List.rev !items)
    | _ ->
        let w = word () in
        if w = "N" then IVal INull
        else if w = "B1" then IVal (IBool true) else if w = "B0" then IVal (IBool false)
        else if w = "X" then IBadValue
        else if starts w "I" then IVal (IInt (z_of_hex (after w "I")))
        else if starts w "F" then IVal (IFloat (z_of_hex_digits (after w "F")))
        else if starts w "S" then IVal (IStr (of_cps (after w "S")))
        else failwith ("dump: node " ^ w) in
  let docs = ref [] in
  while !pos < n do
    docs := node () :: !docs;
    if !pos < n then begin expect ' '; expect ';'; expect ' ' end
  done;
  List.rev !docs

let b x = if x then "1" else "0"

let () =
  let mode = if Array.length Sys.argv > 1 then Sys.argv.(1) else "" in
  let handle line =
    match mode with
    | "tokens" -> String.concat ";" (List.map tok_body (wrap (json_tokens (parse_value line))))
    | "expect" ->
        let v = parse_value line in
        Printf.sprintf "wf=%s distinct=%s depth=%d %s" (b (json_wf v)) (b (json_distinct v)) (int_of_nat (json_depth v)) (dump (yaml_of_json v))
    | "oracle" ->
        (* '#' occurs inside number items: the separator between value and result line is the LAST " @@ " *)
        let sep = " @@ " in
        let rec find k = if k < 0 then failwith "oracle: separator" else
                           if k + 4 <= String.length line && String.sub line k 4 = sep then k else find (k - 1) in
        let k = find (String.length line - 4) in
        let v = parse_value (String.sub line 0 k) in
        let r = String.sub line (k + 4) (String.length line - k - 4) in
        if not (starts r "OK") then "0"
        else
          let body = if String.length r > 3 then String.sub r 3 (String.length r - 3) else "" in
          b (c13_impl_ok v (parse_docs body))
    | "compact" ->
        let v = parse_value line in
        Printf.sprintf "ok=%s %s" (b (json_wf v && json_chars_ok v))
          (String.concat " " (List.map (fun c -> string_of_int (int_of_n c)) (json_compact v)))
    | "coltab" ->
        let t = String.trim line in
        let cs = if t = "" then [] else List.map (fun x -> n_of_int (int_of_string x)) (String.split_on_char ' ' t) in
        b (colon_tab Tout cs)
    | _ -> failwith "mode" in
  try
    while true do
      let line = input_line stdin in
      let r = try handle line with Failure m -> "|DRIVERFAIL " ^ m | Not_found -> "|DRIVERFAIL notfound" | Invalid_argument m -> "|DRIVERFAIL " ^ m in
      print_string r; print_char '\n'
    done
  with End_of_file -> ()
