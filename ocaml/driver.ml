(* Line-protocol driver around the extracted Coq model (build/ocaml/model.ml).
   usage: mx <mode> [args] < cases > results      (same canonical lines as the Rust harness `hx`) *)
open Model

(* ---------- conversions between OCaml ints/strings and the extracted binary numbers ---------- *)
let rec pos_of_int i = if i = 1 then XH else if i land 1 = 0 then XO (pos_of_int (i lsr 1)) else XI (pos_of_int (i lsr 1))
let n_of_int i = if i = 0 then N0 else Npos (pos_of_int i)
let rec int_of_pos = function XH -> 1 | XO p -> 2 * int_of_pos p | XI p -> 2 * int_of_pos p + 1
let int_of_n = function N0 -> 0 | Npos p -> int_of_pos p
let rec nat_of_int i = if i = 0 then O else S (nat_of_int (i - 1))
let rec bits = function XH -> [1] | XO p -> 0 :: bits p | XI p -> 1 :: bits p   (* lsb first *)
let hex_of_pos p =
  let b = Array.of_list (bits p) in
  let n = Array.length b in
  let nd = (n + 3) / 4 in
  let s = Bytes.make nd '0' in
  for d = 0 to nd - 1 do
    let v = ref 0 in
    for k = 0 to 3 do let i = d * 4 + k in if i < n && b.(i) = 1 then v := !v lor (1 lsl k) done;
    Bytes.set s (nd - 1 - d) "0123456789abcdef".[!v]
  done;
  Bytes.to_string s
let hex_of_z = function Z0 -> "0x0" | Zpos p -> "0x" ^ hex_of_pos p | Zneg p -> "-0x" ^ hex_of_pos p

let cps l = String.concat "." (List.map (fun c -> string_of_int (int_of_n c)) l)
let of_cps s = if s = "" then [] else List.map (fun x -> n_of_int (int_of_string x)) (String.split_on_char '.' s)
let decode_case line =
  let line = String.trim line in
  if line = "" then [] else List.map (fun x -> n_of_int (int_of_string x)) (String.split_on_char ' ' line)

let mk m = Printf.sprintf "%d:%d:%d" (int_of_n m.m_index) (int_of_n m.m_line) (int_of_n m.m_col)
let sp s = Printf.sprintf "@%s-%s" (mk s.sp_start) (mk s.sp_end)
let tag = function None -> "-" | Some t -> Printf.sprintf "h=%s/s=%s" (cps t.tg_handle) (cps t.tg_suffix)
let sty = function Plain -> "P" | SingleQuoted -> "S" | DoubleQuoted -> "D" | Literal -> "L" | Folded -> "F"
let ev_body = function
  | EStreamStart -> "SS" | EStreamEnd -> "SE"
  | EDocumentStart b -> if b then "DS1" else "DS0" | EDocumentEnd -> "DE"
  | EAlias i -> Printf.sprintf "AL%d" (int_of_n i)
  | EScalar (v, st, a, t) -> Printf.sprintf "SC%s,%d,%s,%s" (sty st) (int_of_n a) (tag t) (cps v)
  | ESequenceStart (a, t) -> Printf.sprintf "QS%d,%s" (int_of_n a) (tag t)
  | ESequenceEnd -> "QE"
  | EMappingStart (a, t) -> Printf.sprintf "MS%d,%s" (int_of_n a) (tag t)
  | EMappingEnd -> "ME"
let ev (e, s) = ev_body e ^ sp s
let fin = function
  | PDone -> "OK"
  | PScanErr (s, m) -> Printf.sprintf "ERR@%s#s%d" (mk m) (int_of_n s)
  | PParseErr (s, m) -> Printf.sprintf "ERR@%s#p%d" (mk m) (int_of_n s)
  | PPanic n -> Printf.sprintf "MODELPANIC%d" (int_of_n n)
  | PFuel -> "MODELFUEL"
let events_line (evs, e) = String.concat ";" (List.map ev evs) ^ "|" ^ fin e

(* ---------- tokens ---------- *)
let tok_body = function
  | TStreamStart -> "SS" | TStreamEnd -> "SE"
  | TVersionDirective (a, b) -> Printf.sprintf "VD%d,%d" (int_of_n a) (int_of_n b)
  | TTagDirective (h, p) -> Printf.sprintf "TD%s,%s" (cps h) (cps p)
  | TDocumentStart -> "DS" | TDocumentEnd -> "DE"
  | TBlockSequenceStart -> "BSS" | TBlockMappingStart -> "BMS" | TBlockEnd -> "BE"
  | TFlowSequenceStart -> "FSS" | TFlowSequenceEnd -> "FSE" | TFlowMappingStart -> "FMS" | TFlowMappingEnd -> "FME"
  | TBlockEntry -> "BEN" | TFlowEntry -> "FEN" | TKey -> "K" | TValue -> "V"
  | TAlias n -> "AL" ^ cps n | TAnchor n -> "AN" ^ cps n
  | TTag (h, s) -> Printf.sprintf "TG%s,%s" (cps h) (cps s)
  | TScalar (st, v) -> Printf.sprintf "SC%s,%s" (sty st) (cps v)
let tok (s, t) = tok_body t ^ sp s
let scan_fin = function
  | SEnded -> "END"
  | SError (s, m) -> Printf.sprintf "ERR@%s#s%d" (mk m) (int_of_n s)
  | SPanic n -> Printf.sprintf "MODELPANIC%d" (int_of_n n)
  | SFuel -> "MODELFUEL"

let parse_mark s =
  match String.split_on_char ':' s with
  | [a; b; c] -> { m_index = n_of_int (int_of_string a); m_line = n_of_int (int_of_string b); m_col = n_of_int (int_of_string c) }
  | _ -> failwith "mark"
let parse_span s =
  match String.index_opt s '-' with
  | Some i -> { sp_start = parse_mark (String.sub s 0 i); sp_end = parse_mark (String.sub s (i + 1) (String.length s - i - 1)) }
  | None -> failwith "span"
let starts s p = String.length s >= String.length p && String.sub s 0 (String.length p) = p
let after s p = String.sub s (String.length p) (String.length s - String.length p)
let two s = match String.index_opt s ',' with
  | Some i -> (String.sub s 0 i, String.sub s (i + 1) (String.length s - i - 1))
  | None -> failwith "two"
let style_of = function "P" -> Plain | "S" -> SingleQuoted | "D" -> DoubleQuoted | "L" -> Literal | "F" -> Folded | _ -> failwith "style"
let parse_tok s =
  let i = String.rindex s '@' in
  let b = String.sub s 0 i and span = parse_span (String.sub s (i + 1) (String.length s - i - 1)) in
  let t =
    if b = "SS" then TStreamStart else if b = "SE" then TStreamEnd
    else if b = "DS" then TDocumentStart else if b = "DE" then TDocumentEnd
    else if b = "BSS" then TBlockSequenceStart else if b = "BMS" then TBlockMappingStart else if b = "BE" then TBlockEnd
    else if b = "FSS" then TFlowSequenceStart else if b = "FSE" then TFlowSequenceEnd
    else if b = "FMS" then TFlowMappingStart else if b = "FME" then TFlowMappingEnd
    else if b = "BEN" then TBlockEntry else if b = "FEN" then TFlowEntry
    else if b = "K" then TKey else if b = "V" then TValue
    else if starts b "VD" then let (x, y) = two (after b "VD") in TVersionDirective (n_of_int (int_of_string x), n_of_int (int_of_string y))
    else if starts b "TD" then let (x, y) = two (after b "TD") in TTagDirective (of_cps x, of_cps y)
    else if starts b "AL" then TAlias (of_cps (after b "AL"))
    else if starts b "AN" then TAnchor (of_cps (after b "AN"))
    else if starts b "TG" then let (x, y) = two (after b "TG") in TTag (of_cps x, of_cps y)
    else if starts b "SC" then let (x, y) = two (after b "SC") in TScalar (style_of x, of_cps y)
    else failwith ("token " ^ b) in
  (span, t)
(* a token line as printed by `hx tokens`: toks|END or toks|ERR@i:l:c#msg *)
let parse_token_line line =
  let i = String.rindex line '|' in
  let body = String.sub line 0 i and f = String.sub line (i + 1) (String.length line - i - 1) in
  let toks = if body = "" then [] else List.map parse_tok (String.split_on_char ';' body) in
  let se =
    if f = "END" then SEnded
    else if starts f "ERR@" then
      let r = after f "ERR@" in
      let r = match String.index_opt r '#' with Some j -> String.sub r 0 j | None -> r in
      SError (N0, parse_mark r)
    else failwith "fin" in
  (toks, se)

(* ---------- events (kinds only) for the grammar oracle ---------- *)
let parse_event_kind s =
  let b = match String.rindex_opt s '@' with Some i -> String.sub s 0 i | None -> s in
  if b = "SS" then EStreamStart else if b = "SE" then EStreamEnd
  else if starts b "DS" then EDocumentStart (b = "DS1") else if b = "DE" then EDocumentEnd
  else if starts b "AL" then EAlias (n_of_int (int_of_string (after b "AL")))
  else if starts b "SC" then
    (match String.split_on_char ',' (after b "SC") with
     | st :: a :: _ -> EScalar ([], style_of st, n_of_int (int_of_string a), None)
     | _ -> failwith "scalar")
  else if starts b "QS" then (match String.split_on_char ',' (after b "QS") with a :: _ -> ESequenceStart (n_of_int (int_of_string a), None) | _ -> failwith "qs")
  else if b = "QE" then ESequenceEnd
  else if starts b "MS" then (match String.split_on_char ',' (after b "MS") with a :: _ -> EMappingStart (n_of_int (int_of_string a), None) | _ -> failwith "ms")
  else if b = "ME" then EMappingEnd
  else failwith ("event " ^ b)
let parse_event_line line =
  let body = match String.rindex_opt line '|' with Some i -> String.sub line 0 i | None -> line in
  if body = "" then [] else List.map parse_event_kind (String.split_on_char ';' body)

(* ---------- loaded documents ---------- *)
let rec dump = function
  | YVal SNull -> "N" | YVal (SBool b) -> if b then "B1" else "B0"
  | YVal (SInt z) -> "I" ^ hex_of_z z
  | YVal (SFloat FNan) -> "Fnan"
  | YVal (SFloat (FInf n)) -> if n then "F-inf" else "Finf"
  | YVal (SFloat (FDec (n, m, e))) -> Printf.sprintf "Fd%s%s^%s" (if n then "-" else "") (hex_of_z m) (hex_of_z e)
  | YVal (SStr s) -> "S" ^ cps s
  | YSeq l -> "Q[" ^ String.concat "," (List.map dump l) ^ "]"
  | YMap l -> "M{" ^ String.concat "," (List.map (fun (k, v) -> dump k ^ "=" ^ dump v) l) ^ "}"
  | YBad -> "X"

(* ---------- C08 ---------- *)
let z_of_hex_digits h =
  (* h: hex digits, msb first -> Z (non-negative) *)
  let acc = ref None in   (* positive option *)
  String.iter (fun ch ->
    let v = if ch >= '0' && ch <= '9' then Char.code ch - 48 else if ch >= 'a' && ch <= 'f' then Char.code ch - 87 else failwith "hex" in
    for k = 3 downto 0 do
      let bit = (v lsr k) land 1 in
      acc := (match !acc with
              | None -> if bit = 1 then Some XH else None
              | Some p -> Some (if bit = 1 then XI p else XO p))
    done) h;
  match !acc with None -> Z0 | Some p -> Zpos p
let z_of_hex s =
  (* [-]0x<digits> *)
  if starts s "-0x" then (match z_of_hex_digits (after s "-0x") with Z0 -> Z0 | Zpos p -> Zneg p | z -> z)
  else if starts s "0x" then z_of_hex_digits (after s "0x") else failwith "zhex"
let core_prefix = of_cps "116.97.103.58.121.97.109.108.46.111.114.103.44.50.48.48.50.58"
let str_of s = List.map (fun c -> n_of_int (Char.code c)) (List.init (String.length s) (String.get s))
let resolve_configs = [ (true, None); (true, Some (core_prefix, str_of "int")); (true, Some (core_prefix, str_of "float"));
  (true, Some (core_prefix, str_of "bool")); (true, Some (core_prefix, str_of "null")); (true, Some (core_prefix, str_of "str"));
  (true, Some (str_of "!", str_of "foo")); (false, None); (false, None); (false, None); (false, None);
  (false, Some (core_prefix, str_of "int")); (true, Some (core_prefix, str_of "binary")) ]
let sdump = function
  | None -> "X"
  | Some s -> dump (YVal s)
let parse_iscalar d =
  if d = "X" then None
  else if d = "N" then Some INull
  else if d = "B1" then Some (IBool true) else if d = "B0" then Some (IBool false)
  else if starts d "I" then Some (IInt (z_of_hex (after d "I")))
  else if starts d "F" then Some (IFloat (z_of_hex_digits (after d "F")))
  else if starts d "S" then Some (IStr (of_cps (after d "S")))
  else failwith ("iscalar " ^ d)
let c08_oracle line =
  (* <cps-with-spaces>#<r0|r1|...;flags> *)
  let i = String.index line '#' in
  let s = decode_case (String.sub line 0 i) in
  let rest = String.sub line (i + 1) (String.length line - i - 1) in
  let body = match String.rindex_opt rest ';' with Some j -> String.sub rest 0 j | None -> rest in
  let rs = Array.of_list (List.map parse_iscalar (String.split_on_char '|' body)) in
  let b x = if x then "1" else "0" in
  let untagged = match rs.(0) with Some u -> u | None -> IStr [] in
  let bad0 = rs.(0) = None in
  let tagged k sfx = b (not bad0 && c08_impl_tagged_ok (str_of sfx) s untagged rs.(k)) in
  String.concat "" [
    b (not bad0 && c08_impl_untagged_ok s untagged);
    tagged 1 "int"; tagged 2 "float"; tagged 3 "bool"; tagged 4 "null"; tagged 5 "str";
    b (c08_impl_string_ok s rs.(6)); b (c08_impl_string_ok s rs.(7)); b (c08_impl_string_ok s rs.(8));
    b (c08_impl_string_ok s rs.(9)); b (c08_impl_string_ok s rs.(10)); b (c08_impl_string_ok s rs.(11));
    tagged 12 "binary" ]

let () =
  let mode = Sys.argv.(1) in
  let arg i = if Array.length Sys.argv > i then Sys.argv.(i) else "" in
  let handle line =
    match mode with
    | "events" ->
        let s = decode_case line in
        let b = arg 2 in
        if b = "str" then events_line (run_str s)
        else if starts b "buf" then events_line (run_buf (nat_of_int (int_of_string (after b "buf"))) s)
        else failwith "backend"
    | "tokens" ->
        let (toks, se) = scan_str (decode_case line) in
        String.concat ";" (List.map tok toks) ^ "|" ^ scan_fin se
    | "parse-tokens" ->
        let (toks, se) = parse_token_line line in
        events_line (parse_tokens toks se (arg 2 = "keep"))
    | "grammar" ->
        let ((a, b), c) = grammar_verdict (parse_event_line line) in
        Printf.sprintf "%d %d %d" (if a then 1 else 0) (if b then 1 else 0) (if c then 1 else 0)
    | "resolve" ->
        let s = decode_case line in
        String.concat "|" (List.map (fun (plain, tg) -> sdump (parse_from_cow_and_metadata s plain tg)) resolve_configs) ^ ";ok"
    | "c08-oracle" -> c08_oracle line
    | "markers" ->
        (* <code points>#i:l:c,i:l:c,...  -> one 0/1 per marker *)
        (match String.split_on_char '#' line with
         | [c; ms] ->
             let orig = decode_case c in
             if ms = "" then "" else
             String.concat "" (List.map (fun m ->
               let mk = parse_mark m in
               if marker_ok orig mk.m_index mk.m_line mk.m_col then "1" else "0") (String.split_on_char ',' ms))
         | _ -> failwith "markers")
    | "hist-spec" ->
        (* <PN pattern>#<n events>#<E|S|X>  : n plain events 0..n-1 then an error (E), or StreamEnd is event n-1 (S),
           or the list simply stops (X: not reached) *)
        (match String.split_on_char '#' line with
         | [pat; n; kind] ->
             let n = int_of_string n in
             let h = List.init (String.length pat) (fun i -> if pat.[i] = 'P' then Peek else Next) in
             let evs = List.init n (fun i -> Inl (n_of_int i)) in
             let results = if kind = "E" then evs @ [Inr (n_of_int 0)] else evs in
             let end_idx = if kind = "S" then n_of_int (n - 1) else n_of_int 999999 in
             String.concat ";" (List.map (function
               | None -> "NONE" | Some (Inl i) -> string_of_int (int_of_n i) | Some (Inr _) -> "ERR") (hist_spec h results end_idx))
         | _ -> failwith "hist-spec")
    | "load" ->
        (match run_load (decode_case line) with
         | LDocs d -> "OK " ^ String.concat " ; " (List.map dump d)
         | LErr -> "ERR"
         | LBad n -> Printf.sprintf "MODELPANIC%d" (int_of_n n))
    | _ -> failwith "mode" in
  try
    while true do
      let line = input_line stdin in
      let r = try handle line with Failure m -> "|DRIVERFAIL " ^ m | Not_found -> "|DRIVERFAIL notfound" in
      print_string r; print_char '\n'
    done
  with End_of_file -> ()
