(* C07 / C19 driver around the extracted model (build/ocaml_c07/model.ml).
   usage: mx all < sentences > results
   Case line: an event sentence in the textual form `hx events str` prints (spans optional, trailing |FIN ignored).
   Output, `|`-separated:
     0 model      Loader.load_events on the events            "OK d ; d" | MODELPANIC<n>
     1 spec       BuildDocs.spec_of_events (the oracle)        "OK d ; d" | NOSENTENCE
     2 eager      generic loader at ryaml, early_parse on
     3 deferred   generic loader at ryaml, early_parse off
     4 resolved   r_resolve of every deferred document
     5 marked eager, 6 marked deferred, 7 marked resolved (m_resolve)   -- with spans
     8 accepted   1 iff the grammar acceptor accepts the sentence
     9 eqcheck    1 iff resolved == eager under r_eqb, document by document
   Floats are printed as exact decimals Fd<mant>^<exp10> (canonicalised by the Python side). *)
open Model

let rec pos_of_int i = if i = 1 then XH else if i land 1 = 0 then XO (pos_of_int (i lsr 1)) else XI (pos_of_int (i lsr 1))
let n_of_int i = if i = 0 then N0 else Npos (pos_of_int i)
let rec int_of_pos = function XH -> 1 | XO p -> 2 * int_of_pos p | XI p -> 2 * int_of_pos p + 1
let int_of_n = function N0 -> 0 | Npos p -> int_of_pos p
let rec bits = function XH -> [1] | XO p -> 0 :: bits p | XI p -> 1 :: bits p
let hex_of_pos p =
  let b = Array.of_list (bits p) in
  let n = Array.length b in
  let nd = (n + 3) / 4 in
  let s = Bytes.make nd '0' in
  for d = 0 to nd - 1 do
    let v = ref 0 in
    for k = 0 to 3 do let i = d * 4 + k in if i < n && b.(i) = 1 then v := !v lor (1 lsl k) done;
    Bytes.set s (nd - 1 - d) "0123456789abcdef".[!v]
  done;
  Bytes.to_string s
let hex_of_z = function Z0 -> "0x0" | Zpos p -> "0x" ^ hex_of_pos p | Zneg p -> "-0x" ^ hex_of_pos p

let cps l = String.concat "." (List.map (fun c -> string_of_int (int_of_n c)) l)
let of_cps s = if s = "" then [] else List.map (fun x -> n_of_int (int_of_string x)) (String.split_on_char '.' s)
let mk m = Printf.sprintf "%d:%d:%d" (int_of_n m.m_index) (int_of_n m.m_line) (int_of_n m.m_col)
let sp s = Printf.sprintf "@%s-%s" (mk s.sp_start) (mk s.sp_end)
let tag = function None -> "-" | Some t -> Printf.sprintf "h=%s/s=%s" (cps t.tg_handle) (cps t.tg_suffix)
let sty = function Plain -> "P" | SingleQuoted -> "S" | DoubleQuoted -> "D" | Literal -> "L" | Folded -> "F"
let style_of = function "P" -> Plain | "S" -> SingleQuoted | "D" -> DoubleQuoted | "L" -> Literal | "F" -> Folded | _ -> failwith "style"

let starts s p = String.length s >= String.length p && String.sub s 0 (String.length p) = p
let after s p = String.sub s (String.length p) (String.length s - String.length p)
let parse_mark s =
  match String.split_on_char ':' s with
  | [a; b; c] -> { m_index = n_of_int (int_of_string a); m_line = n_of_int (int_of_string b); m_col = n_of_int (int_of_string c) }
  | _ -> failwith "mark"
let parse_span s =
  match String.index_opt s '-' with
  | Some i -> { sp_start = parse_mark (String.sub s 0 i); sp_end = parse_mark (String.sub s (i + 1) (String.length s - i - 1)) }
  | None -> failwith "span"
let m0 = { m_index = N0; m_line = N0; m_col = N0 }
let span0 = { sp_start = m0; sp_end = m0 }
let parse_tag s =
  if s = "-" then None
  else match String.index_opt s '/' with
    | Some i ->
        let h = String.sub s 0 i and x = String.sub s (i + 1) (String.length s - i - 1) in
        if starts h "h=" && starts x "s=" then Some { tg_handle = of_cps (after h "h="); tg_suffix = of_cps (after x "s=") }
        else failwith "tag"
    | None -> failwith "tag"
(* split at the first n-1 commas *)
let splitn n s =
  let rec go n s acc =
    if n = 1 then List.rev (s :: acc)
    else match String.index_opt s ',' with
      | Some i -> go (n - 1) (String.sub s (i + 1) (String.length s - i - 1)) (String.sub s 0 i :: acc)
      | None -> failwith "fields" in
  go n s []
let parse_event s =
  let (b, span) = match String.rindex_opt s '@' with
    | Some i -> (String.sub s 0 i, parse_span (String.sub s (i + 1) (String.length s - i - 1)))
    | None -> (s, span0) in
  let num x = n_of_int (int_of_string x) in
  let e =
    if b = "SS" then EStreamStart else if b = "SE" then EStreamEnd
    else if b = "DS0" then EDocumentStart false else if b = "DS1" then EDocumentStart true
    else if b = "DE" then EDocumentEnd else if b = "QE" then ESequenceEnd else if b = "ME" then EMappingEnd
    else if starts b "AL" then EAlias (num (after b "AL"))
    else if starts b "SC" then
      (match splitn 4 (after b "SC") with
       | [st; a; t; v] -> EScalar (of_cps v, style_of st, num a, parse_tag t)
       | _ -> failwith "scalar")
    else if starts b "QS" then (match splitn 2 (after b "QS") with [a; t] -> ESequenceStart (num a, parse_tag t) | _ -> failwith "qs")
    else if starts b "MS" then (match splitn 2 (after b "MS") with [a; t] -> EMappingStart (num a, parse_tag t) | _ -> failwith "ms")
    else failwith ("event " ^ b) in
  (e, span)
let parse_sentence line =
  let body = match String.rindex_opt line '|' with Some i -> String.sub line 0 i | None -> line in
  let body = String.trim body in
  if body = "" then [] else List.map parse_event (String.split_on_char ';' body)

(* ---------- dumps ---------- *)
let scalar_dump = function
  | SNull -> "N" | SBool b -> if b then "B1" else "B0"
  | SInt z -> "I" ^ hex_of_z z
  | SFloat FNan -> "Fnan"
  | SFloat (FInf n) -> if n then "F-inf" else "Finf"
  | SFloat (FDec (n, m, e)) -> Printf.sprintf "Fd%s%s^%s" (if n then "-" else "") (hex_of_z m) (hex_of_z e)
  | SStr s -> "S" ^ cps s
let rec dump = function
  | YVal s -> scalar_dump s
  | YSeq l -> "Q[" ^ String.concat "," (List.map dump l) ^ "]"
  | YMap l -> "M{" ^ String.concat "," (List.map (fun (k, v) -> dump k ^ "=" ^ dump v) l) ^ "}"
  | YBad -> "X"
let rec rdump = function
  | RRep (v, st, t) -> Printf.sprintf "R%s,%s,%s" (sty st) (tag t) (cps v)
  | RVal s -> scalar_dump s
  | RSeq l -> "Q[" ^ String.concat "," (List.map rdump l) ^ "]"
  | RMap l -> "M{" ^ String.concat "," (List.map (fun (k, v) -> rdump k ^ "=" ^ rdump v) l) ^ "}"
  | RBad -> "X"
let rec mdump = function
  | MRep (s, v, st, t) -> Printf.sprintf "R%s,%s,%s%s" (sty st) (tag t) (cps v) (sp s)
  | MVal (s, x) -> scalar_dump x ^ sp s
  | MSeq (s, l) -> "Q[" ^ String.concat "," (List.map mdump l) ^ "]" ^ sp s
  | MMap (s, l) -> "M{" ^ String.concat "," (List.map (fun (k, v) -> mdump k ^ "=" ^ mdump v) l) ^ "}" ^ sp s
  | MBad s -> "X" ^ sp s
let docs f l = "OK " ^ String.concat " ; " (List.map f l)
let gres f = function
  | GOk ld -> docs f (List.rev ld.g_docs)
  | GPanic n -> Printf.sprintf "MODELPANIC%d" (int_of_n n)
let gmap f = function GOk ld -> GOk { ld with g_docs = List.map f ld.g_docs } | GPanic n -> GPanic n

let all line =
  let evs = parse_sentence line in
  let plain = List.map fst evs in
  let model = match load_events plain l0 with
    | LOk ld -> docs dump (List.rev ld.l_docs)
    | LPanic n -> Printf.sprintf "MODELPANIC%d" (int_of_n n) in
  let spec = match spec_of_events plain with Some d -> docs dump d | None -> "NOSENTENCE" in
  let re = load_r true evs and rd = load_r false evs in
  let rr = gmap r_resolve rd in
  let me = load_m true evs and md = load_m false evs in
  let mr = gmap m_resolve md in
  let acc = match grun GInit plain with Some GEnd -> "1" | _ -> "0" in
  let eq = match rr, re with
    | GOk a, GOk b -> (try if List.for_all2 r_eqb a.g_docs b.g_docs then "1" else "0" with Invalid_argument _ -> "0")
    | GPanic a, GPanic b -> if a = b then "1" else "0"
    | _ -> "0" in
  String.concat "|" [model; spec; gres rdump re; gres rdump rd; gres rdump rr; gres mdump me; gres mdump md; gres mdump mr; acc; eq]

let () =
  let mode = Sys.argv.(1) in
  let handle line =
    match mode with
    | "all" -> all line
    | _ -> failwith "mode" in
  try
    while true do
      let line = input_line stdin in
      let r = try handle line with Failure m -> "|DRIVERFAIL " ^ m | Not_found -> "|DRIVERFAIL notfound" in
      print_string r; print_char '\n'
    done
  with End_of_file -> ()
