(* C17 (repeated load(recv, false)): line-protocol driver around the extracted lazy pipeline (Model/Lazy.v).
   usage: mx <mode> < cases > results        case line = space-separated decimal code points
     single : what each call of load(recv, false) delivers:  seg#seg#...|FIN   (seg = events joined by ';')
     lazy   : plain iteration of the lazy pipeline:          ev;ev;...|FIN
     batch  : the batch pipeline (Model/Pipe.v run_str):     ev;ev;...|FIN *)
open Model

let rec pos_of_int i = if i = 1 then XH else if i land 1 = 0 then XO (pos_of_int (i lsr 1)) else XI (pos_of_int (i lsr 1))
let n_of_int i = if i = 0 then N0 else Npos (pos_of_int i)
let rec int_of_pos = function XH -> 1 | XO p -> 2 * int_of_pos p | XI p -> 2 * int_of_pos p + 1
let int_of_n = function N0 -> 0 | Npos p -> int_of_pos p

let cps l = String.concat "." (List.map (fun c -> string_of_int (int_of_n c)) l)
let decode_case line =
  let line = String.trim line in
  if line = "" then [] else List.map (fun x -> n_of_int (int_of_string x)) (String.split_on_char ' ' line)

let mk m = Printf.sprintf "%d:%d:%d" (int_of_n m.m_index) (int_of_n m.m_line) (int_of_n m.m_col)
let sp s = Printf.sprintf "@%s-%s" (mk s.sp_start) (mk s.sp_end)
let tag = function None -> "-" | Some t -> Printf.sprintf "h=%s/s=%s" (cps t.tg_handle) (cps t.tg_suffix)
let sty = function Plain -> "P" | SingleQuoted -> "S" | DoubleQuoted -> "D" | Literal -> "L" | Folded -> "F"
let ev_body = function
  | EStreamStart -> "SS" | EStreamEnd -> "SE"
  | EDocumentStart b -> if b then "DS1" else "DS0" | EDocumentEnd -> "DE"
  | EAlias i -> Printf.sprintf "AL%d" (int_of_n i)
  | EScalar (v, st, a, t) -> Printf.sprintf "SC%s,%d,%s,%s" (sty st) (int_of_n a) (tag t) (cps v)
  | ESequenceStart (a, t) -> Printf.sprintf "QS%d,%s" (int_of_n a) (tag t)
  | ESequenceEnd -> "QE"
  | EMappingStart (a, t) -> Printf.sprintf "MS%d,%s" (int_of_n a) (tag t)
  | EMappingEnd -> "ME"
let ev (e, s) = ev_body e ^ sp s
let fin = function
  | PDone -> "OK"
  | PScanErr (s, m) -> Printf.sprintf "ERR@%s#s%d" (mk m) (int_of_n s)
  | PParseErr (s, m) -> Printf.sprintf "ERR@%s#p%d" (mk m) (int_of_n s)
  | PPanic n -> Printf.sprintf "MODELPANIC%d" (int_of_n n)
  | PFuel -> "MODELFUEL"
let events_line (evs, e) = String.concat ";" (List.map ev evs) ^ "|" ^ fin e
let segs_line (segs, e) = String.concat "#" (List.map (fun seg -> String.concat ";" (List.map ev seg)) segs) ^ "|" ^ fin e

let () =
  let mode = Sys.argv.(1) in
  let handle line =
    match mode with
    | "single" -> segs_line (load_repeated_str (decode_case line))
    | "lazy" -> events_line (lazy_run_str (decode_case line))
    | "batch" -> events_line (run_str (decode_case line))
    | _ -> failwith "mode" in
  try
    while true do
      let line = input_line stdin in
      let r = try handle line with Failure m -> "|DRIVERFAIL " ^ m | Not_found -> "|DRIVERFAIL notfound" | Invalid_argument m -> "|DRIVERFAIL " ^ m in
      print_string r; print_char '\n'
    done
  with End_of_file -> ()
