(* C20 driver around the extracted model (coq/Extract/ExtractC20.v -> model.ml).
   usage: mx lookup [good|zero|len] < cases > results
   case line:   <node dump>#<probe cps, dot separated>#...@<dec>:<hex> <dec>:<hex> ...
   result line: <section, Yaml/YamlOwned flavour> ;; <section, YamlData flavour>
   with sections in exactly the format of harness/src/bin/hx_c20.rs (without the leading type name):
     D<dump>!P<k>:<g c i e gm im>:<v>:<v>:<v>:<ops>:<ops>!J<i>:<x s m xm sm>:<v>:<v>:<v>!K<dump>~<ops>!E<rows> *)
open Model

let rec pos_of_int i = if i = 1 then XH else if i land 1 = 0 then XO (pos_of_int (i lsr 1)) else XI (pos_of_int (i lsr 1))
let n_of_int i = if i = 0 then N0 else Npos (pos_of_int i)
let rec int_of_pos = function XH -> 1 | XO p -> 2 * int_of_pos p | XI p -> 2 * int_of_pos p + 1
let int_of_n = function N0 -> 0 | Npos p -> int_of_pos p
let rec bits = function XH -> [1] | XO p -> 0 :: bits p | XI p -> 1 :: bits p   (* lsb first *)
let hex_of_pos p =
  let b = Array.of_list (bits p) in
  let n = Array.length b in
  let nd = (n + 3) / 4 in
  let s = Bytes.make nd '0' in
  for d = 0 to nd - 1 do
    let v = ref 0 in
    for k = 0 to 3 do let i = d * 4 + k in if i < n && b.(i) = 1 then v := !v lor (1 lsl k) done;
    Bytes.set s (nd - 1 - d) "0123456789abcdef".[!v]
  done;
  Bytes.to_string s
let hex_of_n = function N0 -> "0" | Npos p -> hex_of_pos p
let hex_of_z = function Z0 -> "0x0" | Zpos p -> "0x" ^ hex_of_pos p | Zneg p -> "-0x" ^ hex_of_pos p
let hexdigit c =
  match c with
  | '0' .. '9' -> Char.code c - 48
  | 'a' .. 'f' -> Char.code c - 87
  | 'A' .. 'F' -> Char.code c - 55
  | _ -> failwith "hex"
let n_of_hex s =
  let lsb = ref [] in
  String.iter (fun c -> let d = hexdigit c in for k = 3 downto 0 do lsb := ((d lsr k) land 1) :: !lsb done) s;
  let rec build = function
    | [] -> None
    | b :: r -> (match build r with
                 | None -> if b = 1 then Some XH else None
                 | Some p -> Some (if b = 1 then XI p else XO p)) in
  match build !lsb with None -> N0 | Some p -> Npos p

let cps l = String.concat "." (List.map (fun c -> string_of_int (int_of_n c)) l)
let of_cps s = if s = "" then [] else List.map (fun x -> n_of_int (int_of_string x)) (String.split_on_char '.' s)

(* ---------- dumps ---------- *)
let sty_letter n = match int_of_n n with 0 -> "P" | 1 -> "S" | 2 -> "D" | 3 -> "L" | 4 -> "F" | _ -> "?"
let sty_of_letter = function 'P' -> 0 | 'S' -> 1 | 'D' -> 2 | 'L' -> 3 | 'F' -> 4 | _ -> failwith "style"
let tag_dump = function None -> "-" | Some (h, s) -> Printf.sprintf "h=%s/s=%s" (cps h) (cps s)
let pad16 s = String.make (max 0 (16 - String.length s)) '0' ^ s
let rec dump = function
  | HRep (s, st, tg) -> Printf.sprintf "R%s,%s,%s" (sty_letter st) (tag_dump tg) (cps s)
  | HVal HNull -> "N"
  | HVal (HBool b) -> if b then "B1" else "B0"
  | HVal (HInt z) -> "I" ^ hex_of_z z
  | HVal (HFloat b) -> "F" ^ pad16 (hex_of_n b)
  | HVal (HStr s) -> "S" ^ cps s
  | HSeq l -> "Q[" ^ String.concat "," (List.map dump l) ^ "]"
  | HMap l -> "M{" ^ String.concat "," (List.map (fun (k, v) -> dump k ^ "=" ^ dump v) l) ^ "}"
  | HAlias n -> "A" ^ string_of_int (int_of_n n)
  | HBad -> "X"

(* recursive-descent parser of a dump *)
let parse_dump (s : string) : hyaml =
  let n = String.length s in
  let pos = ref 0 in
  let peek () = if !pos < n then s.[!pos] else '\000' in
  let adv () = incr pos in
  let expect c = if peek () = c then adv () else failwith (Printf.sprintf "expected %c at %d" c !pos) in
  let take p = let st = !pos in while !pos < n && p s.[!pos] do adv () done; String.sub s st (!pos - st) in
  let is_cps c = (c >= '0' && c <= '9') || c = '.' in
  let is_hex c = (c >= '0' && c <= '9') || (c >= 'a' && c <= 'f') in
  let rec node () =
    let c = peek () in
    adv ();
    match c with
    | 'N' -> HVal HNull
    | 'B' -> let d = peek () in adv (); HVal (HBool (d = '1'))
    | 'I' ->
        let neg = (peek () = '-') in
        if neg then adv ();
        expect '0'; expect 'x';
        let h = take is_hex in
        (match n_of_hex h with
         | N0 -> HVal (HInt Z0)
         | Npos p -> HVal (HInt (if neg then Zneg p else Zpos p)))
    | 'F' -> let h = String.sub s !pos 16 in pos := !pos + 16; HVal (HFloat (n_of_hex h))
    | 'S' -> HVal (HStr (of_cps (take is_cps)))
    | 'X' -> HBad
    | 'A' -> HAlias (n_of_int (int_of_string (take (fun c -> c >= '0' && c <= '9'))))
    | 'R' ->
        let st = sty_of_letter (peek ()) in
        adv (); expect ',';
        let tg =
          if peek () = '-' then (adv (); None)
          else begin
            expect 'h'; expect '=';
            let h = take is_cps in
            expect '/'; expect 's'; expect '=';
            let sf = take is_cps in
            Some (of_cps h, of_cps sf)
          end in
        expect ',';
        HRep (of_cps (take is_cps), n_of_int st, tg)
    | 'Q' ->
        expect '[';
        let items = ref [] in
        if peek () = ']' then adv ()
        else begin
          let continue = ref true in
          while !continue do
            items := node () :: !items;
            if peek () = ',' then adv () else (expect ']'; continue := false)
          done
        end;
        HSeq (List.rev !items)
    | 'M' ->
        expect '{';
        let items = ref [] in
        if peek () = '}' then adv ()
        else begin
          let continue = ref true in
          while !continue do
            let k = node () in
            expect '=';
            let v = node () in
            items := (k, v) :: !items;
            if peek () = ',' then adv () else (expect '}'; continue := false)
          done
        end;
        HMap (List.rev !items)
    | _ -> failwith (Printf.sprintf "bad dump at %d" !pos)
  in
  let y = node () in
  if !pos <> n then failwith "trailing";
  y

(* ---------- hash ops ---------- *)
let op_str = function
  | OIsize z -> "isize=" ^ hex_of_z z
  | OUsize v -> "usize=0x" ^ hex_of_n v
  | OU8 v -> "u8=0x" ^ hex_of_n v
  | OU64 v -> "u64=0x" ^ hex_of_n v
  | OI64 z -> "i64=" ^ hex_of_z z
  | OWrite bs -> "w=" ^ String.concat "" (List.map (fun b -> Printf.sprintf "%02x" (int_of_n b)) bs)
let ops_str ops = String.concat "." (List.map op_str ops)

let fin_of = function
  | "zero" -> (fun _ -> N0)
  | "len" -> (fun ops -> n_of_int (List.length ops))
  | _ -> (fun ops -> n_of_int (Hashtbl.hash (ops_str ops)))

let b x = if x then "1" else "0"
let od = function Some v -> dump v | None -> "-"
let idx_ok = function IOk _ -> true | IPanic _ -> false
let idx_v = function IOk v -> dump v | IPanic _ -> "-"
let two63 = n_of_hex "8000000000000000"
let z_of_n = function N0 -> Z0 | Npos p -> Zpos p
(* i < 2^63: the hex string has at most 16 digits and, with 16, a first digit below 8 *)
let fits_i64 (hex : string) =
  let h = ref hex in
  while String.length !h > 1 && !h.[0] = '0' do h := String.sub !h 1 (String.length !h - 1) done;
  String.length !h < 16 || (String.length !h = 16 && hexdigit !h.[0] < 8)

let section fin marked (root : hyaml) (probes : string list) (ints : (string * string) list) : string =
  let out = ref [ "D" ^ dump root ] in
  let push s = out := s :: !out in
  List.iter (fun p ->
      let k = of_cps p in
      let g = as_mapping_get fin marked k root in
      let c = contains_mapping_key fin marked k root in
      let i = index_str fin marked k root in
      let e = get_explicit fin k root in
      let im = index_mut_str fin marked k root in
      let ops = ops_str (hash_stream (str_node k)) in
      push (Printf.sprintf "P%s:%s%s%s%s%s%s:%s:%s:%s:%s:%s" p
              (b (g <> None)) (b c) (b (idx_ok i)) (b (e <> None)) (b (g <> None)) (b (idx_ok im))
              (od g) (idx_v i) (od e) ops ops)) probes;
  List.iter (fun (dec, hex) ->
      let i = n_of_hex hex in
      let x = index_usize fin i root in
      let s = as_sequence_get i root in
      let m =
        if fits_i64 hex then (match root with HMap m -> map_get fin (int_node (z_of_n i)) m | _ -> None) else None in
      push (Printf.sprintf "J%s:%s%s%s%s%s:%s:%s:%s" dec
              (b (idx_ok x)) (b (s <> None)) (b (m <> None)) (b (idx_ok x)) (b (s <> None))
              (idx_v x) (od s) (od m))) ints;
  let subj =
    root :: (match root with
             | HMap m -> List.concat_map (fun (k, v) -> [ k; v ]) m
             | HSeq l -> l
             | _ -> []) in
  List.iter (fun s -> push (Printf.sprintf "K%s~%s" (dump s) (ops_str (hash_stream s)))) subj;
  let rows = List.map (fun a -> String.concat "" (List.map (fun c -> b (hyaml_eqb a c)) subj)) subj in
  push ("E" ^ String.concat "_" rows);
  String.concat "!" (List.rev !out)

let run_lookup fin line =
  let left, ints =
    match String.index_opt line '@' with
    | Some i -> (String.sub line 0 i, String.sub line (i + 1) (String.length line - i - 1))
    | None -> (line, "") in
  match String.split_on_char '#' left with
  | [] -> "|BADCASE"
  | d :: probes ->
      let root = parse_dump (String.trim d) in
      let ints =
        List.filter_map (fun t ->
            if t = "" then None
            else match String.split_on_char ':' t with
              | [ dec; hex ] -> Some (dec, hex)
              | _ -> failwith "int probe") (String.split_on_char ' ' (String.trim ints)) in
      let probes = List.map String.trim probes in
      section fin false root probes ints ^ " ;; " ^ section fin true root probes ints

let () =
  let mode = if Array.length Sys.argv > 1 then Sys.argv.(1) else "lookup" in
  let fin = fin_of (if Array.length Sys.argv > 2 then Sys.argv.(2) else "good") in
  (try
     while true do
       let line = input_line stdin in
       let res =
         try
           match mode with
           | "lookup" -> run_lookup fin line
           | "hash" -> ops_str (hash_stream (parse_dump (String.trim line)))
           | _ -> "|BADMODE"
         with
         | Failure m -> "|MODELFAIL " ^ m
         | Invalid_argument m -> "|MODELFAIL " ^ m
         | Not_found -> "|MODELFAIL notfound" in
       print_string res;
       print_char '\n'
     done
   with End_of_file -> ());
  flush stdout
