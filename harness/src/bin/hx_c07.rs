//! C07 / C19 — the real `YamlLoader` driven directly with event sentences, for the four node types
//! and both `early_parse` modes; plus the equality/hash-ignores-spans check of the marked node types.
//!
//!   hx_c07 load      case line = an event sentence in the textual form `hx events str` prints
//!                    (`SS;DS0;MS0,-;SCP,0,-,97;AL1;ME;DE;SE`; `@i:l:c-i:l:c` spans optional, a trailing
//!                    `|FIN` is ignored).  The events are pushed into `YamlLoader::<N>::on_event`.
//!                    Output, `|`-separated:
//!                      12 fields  <yaml|owned|marked|markedowned> x <eager|deferred|resolved>  dumps (no spans)
//!                       4 fields  marked eager, marked deferred, marked resolved, markedowned eager  WITH spans
//!                       1 field   flags: `ok` or a comma separated list of failed side conditions
//!                                 (eqhash: marked docs loaded with shifted spans are not ==/hash-equal;
//!                                  nospandiff: the shifted load did not change any span (vacuous);
//!                                  rt: a scalar does not survive borrowed -> owned -> borrowed;
//!                                  eq<type>: resolved docs are not == eager docs under the type's own Eq;
//!                                  idem<type>: resolving a resolved/eager tree changed it)
//!   hx_c07 api       case line = a YAML text.  The public entry points instead of a hand-driven loader:
//!                    `N::load_from_str` for the four node types, `Yaml::load_from_iter`, `Yaml::load_from_parser`
//!                    (6 `|`-separated fields: `OK d ; d` dumps without spans or `ERR@i:l:c#msg`).
//!   hx_c07 eqhash    case line = a YAML text (space separated code points).  Loads it as MarkedYaml and
//!                    MarkedYamlOwned from the text itself and from the text behind a comment line and a
//!                    blank line; prints `EQ<0|1> H<0|1> SP<0|1>` per type (`SP1` = some span differs), or SKIP.
#[path = "../common.rs"]
#[allow(dead_code)]
mod common;
use common::*;

use saphyr::{LoadableYamlNode, MarkedYaml, MarkedYamlOwned, Scalar, ScalarOwned, Yaml, YamlData, YamlDataOwned, YamlLoader, YamlOwned};
use saphyr_parser::{Event, Marker, Parser, ScalarStyle, Span, SpannedEventReceiver, StrInput, Tag};
use std::borrow::Cow;
use std::hash::{Hash, Hasher};
use std::io::{BufRead, Write};

// ---------------------------------------------------------------------------------------------
// sentences
// ---------------------------------------------------------------------------------------------
#[derive(Clone, Debug)]
enum Ev {
    SS,
    SE,
    DS(bool),
    DE,
    AL(usize),
    SC(String, ScalarStyle, usize, Option<Tag>),
    QS(usize, Option<Tag>),
    QE,
    MS(usize, Option<Tag>),
    ME,
}

fn uncps(s: &str) -> Option<String> {
    if s.is_empty() {
        return Some(String::new());
    }
    s.split('.').map(|x| x.parse::<u32>().ok().and_then(char::from_u32)).collect()
}
fn parse_tag(s: &str) -> Option<Option<Tag>> {
    if s == "-" {
        return Some(None);
    }
    let (h, x) = s.split_once('/')?;
    Some(Some(Tag { handle: uncps(h.strip_prefix("h=")?)?, suffix: uncps(x.strip_prefix("s=")?)? }))
}
fn parse_style(s: &str) -> Option<ScalarStyle> {
    Some(match s {
        "P" => ScalarStyle::Plain,
        "S" => ScalarStyle::SingleQuoted,
        "D" => ScalarStyle::DoubleQuoted,
        "L" => ScalarStyle::Literal,
        "F" => ScalarStyle::Folded,
        _ => return None,
    })
}
fn parse_marker(s: &str) -> Option<Marker> {
    let mut it = s.split(':');
    let i = it.next()?.parse().ok()?;
    let l = it.next()?.parse().ok()?;
    let c = it.next()?.parse().ok()?;
    Some(Marker::new(i, l, c))
}
fn parse_span(s: &str) -> Option<Span> {
    let (a, b) = s.split_once('-')?;
    Some(Span::new(parse_marker(a)?, parse_marker(b)?))
}
fn parse_event(s: &str) -> Option<(Ev, Span)> {
    let (b, span) = match s.rfind('@') {
        Some(i) => (&s[..i], parse_span(&s[i + 1..])?),
        None => (s, Span::default()),
    };
    let e = if b == "SS" {
        Ev::SS
    } else if b == "SE" {
        Ev::SE
    } else if b == "DS0" || b == "DS1" {
        Ev::DS(b == "DS1")
    } else if b == "DE" {
        Ev::DE
    } else if b == "QE" {
        Ev::QE
    } else if b == "ME" {
        Ev::ME
    } else if let Some(r) = b.strip_prefix("AL") {
        Ev::AL(r.parse().ok()?)
    } else if let Some(r) = b.strip_prefix("SC") {
        let mut it = r.splitn(4, ',');
        let st = parse_style(it.next()?)?;
        let a = it.next()?.parse().ok()?;
        let t = parse_tag(it.next()?)?;
        let v = uncps(it.next()?)?;
        Ev::SC(v, st, a, t)
    } else if let Some(r) = b.strip_prefix("QS") {
        let (a, t) = r.split_once(',')?;
        Ev::QS(a.parse().ok()?, parse_tag(t)?)
    } else if let Some(r) = b.strip_prefix("MS") {
        let (a, t) = r.split_once(',')?;
        Ev::MS(a.parse().ok()?, parse_tag(t)?)
    } else {
        return None;
    };
    Some((e, span))
}
fn parse_sentence(line: &str) -> Option<Vec<(Ev, Span)>> {
    let body = match line.rfind('|') {
        Some(i) => &line[..i],
        None => line,
    };
    let body = body.trim();
    if body.is_empty() {
        return Some(vec![]);
    }
    body.split(';').map(parse_event).collect()
}
fn event_of(e: &Ev) -> Event<'_> {
    match e {
        Ev::SS => Event::StreamStart,
        Ev::SE => Event::StreamEnd,
        Ev::DS(x) => Event::DocumentStart(*x),
        Ev::DE => Event::DocumentEnd,
        Ev::AL(i) => Event::Alias(*i),
        Ev::SC(v, st, a, t) => Event::Scalar(Cow::Borrowed(v.as_str()), *st, *a, t.clone()),
        Ev::QS(a, t) => Event::SequenceStart(*a, t.clone()),
        Ev::QE => Event::SequenceEnd,
        Ev::MS(a, t) => Event::MappingStart(*a, t.clone()),
        Ev::ME => Event::MappingEnd,
    }
}
fn shift(s: &Span, by: usize) -> Span {
    let m = |m: &Marker| Marker::new(m.index() + 7 * by, m.line() + by, m.col() + 3 * by);
    Span::new(m(&s.start), m(&s.end))
}

// ---------------------------------------------------------------------------------------------
// dumps (copied from harness/src/modes.rs: same canonical form for the four node types)
// ---------------------------------------------------------------------------------------------
fn scalar_dump(s: &Scalar) -> String {
    match s {
        Scalar::Null => "N".into(),
        Scalar::Boolean(b) => format!("B{}", u8::from(*b)),
        Scalar::Integer(i) => format!("I{}0x{:x}", if *i < 0 { "-" } else { "" }, i.unsigned_abs()),
        Scalar::FloatingPoint(f) => format!("F{:016x}", canon_bits(f.0)),
        Scalar::String(s) => format!("S{}", cps(s)),
    }
}
fn scalar_owned_dump(s: &ScalarOwned) -> String {
    scalar_dump(&s.as_scalar())
}
fn canon_bits(f: f64) -> u64 {
    if f.is_nan() {
        0x7ff8_0000_0000_0000
    } else {
        f.to_bits()
    }
}
fn rep_dump(v: &str, st: ScalarStyle, t: &Option<Tag>) -> String {
    format!("R{},{},{}", sty(st), tag(t), cps(v))
}

trait Node<'a>: LoadableYamlNode<'a> + Hash {
    fn dump(&self, spans: bool) -> String;
    fn resolve(&mut self);
    /// every scalar survives borrowed -> owned -> borrowed (resp. owned -> borrowed -> owned)
    fn roundtrip_ok(&self) -> bool;
    /// some span in the tree is not the default span
    fn spans(&self, out: &mut Vec<Span>);
}
fn rt_scalar(s: &Scalar) -> bool {
    let o = s.clone().into_owned();
    o.as_scalar() == *s && scalar_dump(&o.as_scalar()) == scalar_dump(s)
}
fn rt_owned(s: &ScalarOwned) -> bool {
    let b = s.as_scalar();
    b.clone().into_owned() == *s
}
fn join<T>(v: impl Iterator<Item = T>, f: impl Fn(T) -> String) -> String {
    v.map(f).collect::<Vec<_>>().join(",")
}

impl<'a> Node<'a> for Yaml<'a> {
    fn dump(&self, _spans: bool) -> String {
        match self {
            Yaml::Value(s) => scalar_dump(s),
            Yaml::Representation(v, st, t) => rep_dump(v, *st, t),
            Yaml::Sequence(v) => format!("Q[{}]", join(v.iter(), |x| x.dump(false))),
            Yaml::Mapping(m) => format!("M{{{}}}", join(m.iter(), |(k, v)| format!("{}={}", k.dump(false), v.dump(false)))),
            Yaml::Alias(i) => format!("A{i}"),
            Yaml::BadValue => "X".into(),
        }
    }
    fn resolve(&mut self) {
        self.parse_representation_recursive();
    }
    fn roundtrip_ok(&self) -> bool {
        match self {
            Yaml::Value(s) => rt_scalar(s),
            Yaml::Sequence(v) => v.iter().all(Node::roundtrip_ok),
            Yaml::Mapping(m) => m.iter().all(|(k, v)| k.roundtrip_ok() && v.roundtrip_ok()),
            _ => true,
        }
    }
    fn spans(&self, _out: &mut Vec<Span>) {}
}
impl<'a> Node<'a> for YamlOwned {
    fn dump(&self, _spans: bool) -> String {
        match self {
            YamlOwned::Value(s) => scalar_owned_dump(s),
            YamlOwned::Representation(v, st, t) => rep_dump(v, *st, t),
            YamlOwned::Sequence(v) => format!("Q[{}]", join(v.iter(), |x| x.dump(false))),
            YamlOwned::Mapping(m) => {
                format!("M{{{}}}", join(m.iter(), |(k, v)| format!("{}={}", k.dump(false), v.dump(false))))
            }
            YamlOwned::Alias(i) => format!("A{i}"),
            YamlOwned::BadValue => "X".into(),
        }
    }
    fn resolve(&mut self) {
        self.parse_representation_recursive();
    }
    fn roundtrip_ok(&self) -> bool {
        match self {
            YamlOwned::Value(s) => rt_owned(s),
            YamlOwned::Sequence(v) => v.iter().all(Node::roundtrip_ok),
            YamlOwned::Mapping(m) => m.iter().all(|(k, v)| k.roundtrip_ok() && v.roundtrip_ok()),
            _ => true,
        }
    }
    fn spans(&self, _out: &mut Vec<Span>) {}
}
impl<'a> Node<'a> for MarkedYaml<'a> {
    fn dump(&self, spans: bool) -> String {
        let b = match &self.data {
            YamlData::Value(s) => scalar_dump(s),
            YamlData::Representation(v, st, t) => rep_dump(v, *st, t),
            YamlData::Sequence(v) => format!("Q[{}]", join(v.iter(), |x| x.dump(spans))),
            YamlData::Mapping(m) => {
                format!("M{{{}}}", join(m.iter(), |(k, v)| format!("{}={}", k.dump(spans), v.dump(spans))))
            }
            YamlData::Alias(i) => format!("A{i}"),
            YamlData::BadValue => "X".into(),
        };
        if spans {
            format!("{b}{}", sp(&self.span))
        } else {
            b
        }
    }
    fn resolve(&mut self) {
        self.data.parse_representation_recursive();
    }
    fn roundtrip_ok(&self) -> bool {
        match &self.data {
            YamlData::Value(s) => rt_scalar(s),
            YamlData::Sequence(v) => v.iter().all(Node::roundtrip_ok),
            YamlData::Mapping(m) => m.iter().all(|(k, v)| k.roundtrip_ok() && v.roundtrip_ok()),
            _ => true,
        }
    }
    fn spans(&self, out: &mut Vec<Span>) {
        out.push(self.span);
        match &self.data {
            YamlData::Sequence(v) => v.iter().for_each(|x| x.spans(out)),
            YamlData::Mapping(m) => m.iter().for_each(|(k, v)| {
                k.spans(out);
                v.spans(out);
            }),
            _ => {}
        }
    }
}
impl<'a> Node<'a> for MarkedYamlOwned {
    fn dump(&self, spans: bool) -> String {
        let b = match &self.data {
            YamlDataOwned::Value(s) => scalar_owned_dump(s),
            YamlDataOwned::Representation(v, st, t) => rep_dump(v, *st, t),
            YamlDataOwned::Sequence(v) => format!("Q[{}]", join(v.iter(), |x| x.dump(spans))),
            YamlDataOwned::Mapping(m) => {
                format!("M{{{}}}", join(m.iter(), |(k, v)| format!("{}={}", k.dump(spans), v.dump(spans))))
            }
            YamlDataOwned::Alias(i) => format!("A{i}"),
            YamlDataOwned::BadValue => "X".into(),
        };
        if spans {
            format!("{b}{}", sp(&self.span))
        } else {
            b
        }
    }
    fn resolve(&mut self) {
        self.data.parse_representation_recursive();
    }
    fn roundtrip_ok(&self) -> bool {
        match &self.data {
            YamlDataOwned::Value(s) => rt_owned(s),
            YamlDataOwned::Sequence(v) => v.iter().all(Node::roundtrip_ok),
            YamlDataOwned::Mapping(m) => m.iter().all(|(k, v)| k.roundtrip_ok() && v.roundtrip_ok()),
            _ => true,
        }
    }
    fn spans(&self, out: &mut Vec<Span>) {
        out.push(self.span);
        match &self.data {
            YamlDataOwned::Sequence(v) => v.iter().for_each(|x| x.spans(out)),
            YamlDataOwned::Mapping(m) => m.iter().for_each(|(k, v)| {
                k.spans(out);
                v.spans(out);
            }),
            _ => {}
        }
    }
}

// ---------------------------------------------------------------------------------------------
// pushing a sentence into the real loader
// ---------------------------------------------------------------------------------------------
fn feed<'a, N: Node<'a>>(evs: &'a [(Ev, Span)], early: bool, by: usize) -> Vec<N> {
    let mut loader = YamlLoader::<N>::default();
    loader.early_parse(early);
    for (e, s) in evs {
        loader.on_event(event_of(e), if by == 0 { *s } else { shift(s, by) });
    }
    loader.into_documents()
}
fn docs_dump<'a, N: Node<'a>>(d: &[N], spans: bool) -> String {
    format!("OK {}", d.iter().map(|x| x.dump(spans)).collect::<Vec<_>>().join(" ; "))
}
fn hash_of<T: Hash>(x: &T) -> u64 {
    let mut h = std::collections::hash_map::DefaultHasher::new();
    x.hash(&mut h);
    h.finish()
}

/// eager / deferred / resolved dumps of one node type + its side conditions
fn three<'a, N: Node<'a>>(evs: &'a [(Ev, Span)], name: &str, flags: &mut Vec<String>) -> [String; 3] {
    let eager = feed::<N>(evs, true, 0);
    let deferred = feed::<N>(evs, false, 0);
    let mut resolved = feed::<N>(evs, false, 0);
    resolved.iter_mut().for_each(Node::resolve);
    if !(resolved == eager) {
        flags.push(format!("eq{name}"));
    }
    if resolved.iter().map(hash_of).ne(eager.iter().map(hash_of)) {
        flags.push(format!("hasheq{name}"));
    }
    // resolving an already resolved tree leaves it untouched
    let mut again = feed::<N>(evs, true, 0);
    again.iter_mut().for_each(Node::resolve);
    let mut twice = resolved.clone();
    twice.iter_mut().for_each(Node::resolve);
    if docs_dump(&again, true) != docs_dump(&eager, true) || docs_dump(&twice, true) != docs_dump(&resolved, true) {
        flags.push(format!("idem{name}"));
    }
    if !eager.iter().all(Node::roundtrip_ok) {
        flags.push(format!("rt{name}"));
    }
    [docs_dump(&eager, false), docs_dump(&deferred, false), docs_dump(&resolved, false)]
}

fn spans_check<'a, N: Node<'a>>(evs: &'a [(Ev, Span)], name: &str, flags: &mut Vec<String>) {
    for early in [true, false] {
        let a = feed::<N>(evs, early, 0);
        let b = feed::<N>(evs, early, 5);
        if !(a == b) || a.iter().map(hash_of).ne(b.iter().map(hash_of)) {
            flags.push(format!("eqhash{name}"));
        }
        let (mut sa, mut sb) = (vec![], vec![]);
        a.iter().for_each(|x| x.spans(&mut sa));
        b.iter().for_each(|x| x.spans(&mut sb));
        if !sa.is_empty() && sa == sb {
            flags.push(format!("nospandiff{name}"));
        }
    }
}

fn g<F: FnOnce() -> Vec<String> + std::panic::UnwindSafe>(n: usize, f: F) -> Vec<String> {
    match std::panic::catch_unwind(f) {
        Ok(v) => v,
        Err(p) => {
            let m = if let Some(s) = p.downcast_ref::<&str>() {
                (*s).to_string()
            } else if let Some(s) = p.downcast_ref::<String>() {
                s.clone()
            } else {
                "?".into()
            };
            vec![format!("PANIC#{}", msg(&m)); n]
        }
    }
}

fn load_mode(line: &str) -> String {
    let Some(evs) = parse_sentence(line) else {
        return "|BADCASE".into();
    };
    let evs = &evs;
    let mut out: Vec<String> = vec![];
    let mut flags: Vec<String> = vec![];
    macro_rules! ty {
        ($t:ty, $name:expr) => {{
            let r = g(4, move || {
                let mut fl = vec![];
                let d = three::<$t>(evs, $name, &mut fl);
                vec![d[0].clone(), d[1].clone(), d[2].clone(), fl.join(",")]
            });
            out.extend_from_slice(&r[..3]);
            if !r[3].is_empty() {
                flags.push(r[3].clone());
            }
        }};
    }
    ty!(Yaml, "yaml");
    ty!(YamlOwned, "owned");
    ty!(MarkedYaml, "marked");
    ty!(MarkedYamlOwned, "markedowned");
    out.extend(g(4, move || {
        let me = feed::<MarkedYaml>(evs, true, 0);
        let md = feed::<MarkedYaml>(evs, false, 0);
        let mut mr = feed::<MarkedYaml>(evs, false, 0);
        mr.iter_mut().for_each(Node::resolve);
        let oe = feed::<MarkedYamlOwned>(evs, true, 0);
        vec![docs_dump(&me, true), docs_dump(&md, true), docs_dump(&mr, true), docs_dump(&oe, true)]
    }));
    let r = g(1, move || {
        let mut fl = vec![];
        spans_check::<MarkedYaml>(evs, "marked", &mut fl);
        spans_check::<MarkedYamlOwned>(evs, "markedowned", &mut fl);
        vec![fl.join(",")]
    });
    if !r[0].is_empty() {
        flags.push(r[0].clone());
    }
    out.push(if flags.is_empty() { "ok".into() } else { flags.join(",") });
    out.join("|")
}

// ---------------------------------------------------------------------------------------------
// equality and hashing of marked nodes ignore spans (texts shifted by a comment and a blank line)
// ---------------------------------------------------------------------------------------------
fn load_text<'a, N: Node<'a>>(s: &'a str) -> Option<Vec<N>> {
    let mut parser = Parser::new(StrInput::new(s));
    let mut loader = YamlLoader::<N>::default();
    parser.load(&mut loader, true).ok()?;
    Some(loader.into_documents())
}
fn eqhash_one<'a, N: Node<'a>>(a: &'a str, b: &'a str) -> String {
    let (Some(x), Some(y)) = (load_text::<N>(a), load_text::<N>(b)) else {
        return "SKIP".into();
    };
    if x.len() != y.len() {
        return "SKIP".into();
    }
    let eq = x == y;
    let h = x.iter().map(hash_of).eq(y.iter().map(hash_of));
    let (mut sx, mut sy) = (vec![], vec![]);
    x.iter().for_each(|n| n.spans(&mut sx));
    y.iter().for_each(|n| n.spans(&mut sy));
    format!("EQ{} H{} SP{}", u8::from(eq), u8::from(h), u8::from(sx != sy))
}
fn eqhash_mode(line: &str) -> String {
    let Some(a) = decode(line) else {
        return "|BADCASE".into();
    };
    let b = format!("# shifted\n\n{a}");
    guard(move || format!("{}|{}", eqhash_one::<MarkedYaml>(&a, &b), eqhash_one::<MarkedYamlOwned>(&a, &b)))
}

/// `hx_c07 eqpair`: case line = `<code points of text A>#<code points of text B>`.  Loads both texts with each of
/// the four node types and prints, per type, `E<0|1>H<0|1>` (documents equal? hashes equal?) or SKIP.  Equality of
/// the marked types must be the equality of the plain types: it must neither see spans that differ (eqhash) nor be
/// satisfied by spans that coincide while the data differ.
fn load_text_deferred<'a, N: Node<'a>>(s: &'a str) -> Option<Vec<N>> {
    let mut parser = Parser::new(StrInput::new(s));
    let mut loader = YamlLoader::<N>::default();
    loader.early_parse(false);
    parser.load(&mut loader, true).ok()?;
    Some(loader.into_documents())
}
/// eager documents, then (second pair of letters) the deferred documents (unresolved `Representation` leaves with their tags)
fn eqpair_one<'a, N: Node<'a>>(a: &'a str, b: &'a str) -> String {
    let (Some(x), Some(y)) = (load_text::<N>(a), load_text::<N>(b)) else {
        return "SKIP".into();
    };
    let eq = x == y;
    let h = x.iter().map(hash_of).eq(y.iter().map(hash_of));
    let (Some(dx), Some(dy)) = (load_text_deferred::<N>(a), load_text_deferred::<N>(b)) else {
        return "SKIP".into();
    };
    let deq = dx == dy;
    let dh = dx.iter().map(hash_of).eq(dy.iter().map(hash_of));
    format!("E{}H{}D{}G{}", u8::from(eq), u8::from(h), u8::from(deq), u8::from(dh))
}
fn eqpair_mode(line: &str) -> String {
    let Some((la, lb)) = line.split_once('#') else {
        return "|BADCASE".into();
    };
    let (Some(a), Some(b)) = (decode(la), decode(lb)) else {
        return "|BADCASE".into();
    };
    guard(move || {
        [eqpair_one::<Yaml>(&a, &b), eqpair_one::<YamlOwned>(&a, &b), eqpair_one::<MarkedYaml>(&a, &b), eqpair_one::<MarkedYamlOwned>(&a, &b)]
            .join("|")
    })
}

// ---------------------------------------------------------------------------------------------
// the public loading entry points
// ---------------------------------------------------------------------------------------------
fn api_res<'a, N: Node<'a>>(r: Result<Vec<N>, saphyr_parser::ScanError>) -> String {
    match r {
        Ok(d) => docs_dump(&d, false),
        Err(e) => err(&e),
    }
}
fn api_mode(line: &str) -> String {
    let Some(s) = decode(line) else {
        return "|BADCASE".into();
    };
    guard(move || {
        let mut p = Parser::new(StrInput::new(&s));
        [
            api_res(Yaml::load_from_str(&s)),
            api_res(YamlOwned::load_from_str(&s)),
            api_res(MarkedYaml::load_from_str(&s)),
            api_res(MarkedYamlOwned::load_from_str(&s)),
            api_res(Yaml::load_from_iter(s.chars())),
            api_res(Yaml::load_from_parser(&mut p)),
        ]
        .join("|")
    })
}

fn main() {
    let args: Vec<String> = std::env::args().collect();
    if args.len() < 2 {
        eprintln!("usage: hx_c07 load|api|eqhash < cases > results");
        std::process::exit(2);
    }
    std::panic::set_hook(Box::new(|_| {}));
    let mode = args[1].as_str();
    let stdin = std::io::stdin();
    let stdout = std::io::stdout();
    let mut out = std::io::BufWriter::with_capacity(1 << 20, stdout.lock());
    for line in stdin.lock().lines() {
        let line = line.unwrap();
        let res = match mode {
            "load" => load_mode(&line),
            "eqhash" => eqhash_mode(&line),
            "eqpair" => eqpair_mode(&line),
            "api" => api_mode(&line),
            _ => format!("|BADMODE {mode}"),
        };
        out.write_all(res.as_bytes()).unwrap();
        out.write_all(b"\n").unwrap();
    }
    out.flush().unwrap();
}
