//! One-off tool: flatten the yaml-test-suite meta files of /repo into corpus/suite.jsonl
//! (name, fail, yaml, tree, json).  The committed corpus, not this tool, is what checks read.
use saphyr::{LoadableYamlNode, Mapping, Scalar, Yaml};
fn visual_to_raw(yaml: &str) -> String {
    let mut yaml = yaml.to_owned();
    for (pat, replacement) in [("␣", " "), ("»", "\t"), ("—", ""), ("←", "\r"), ("⇔", "\u{FEFF}"), ("↵", ""), ("∎\n", "")] {
        yaml = yaml.replace(pat, replacement);
    }
    yaml
}
fn js(s: &str) -> String {
    let mut o = String::from("\"");
    for c in s.chars() {
        match c {
            '"' => o.push_str("\\\""),
            '\\' => o.push_str("\\\\"),
            c if (c as u32) < 0x20 || c == '\u{7f}' || (c as u32) > 0x7e => {
                let mut b = [0u16; 2];
                for u in c.encode_utf16(&mut b) {
                    o.push_str(&format!("\\u{:04x}", u));
                }
            }
            c => o.push(c),
        }
    }
    o.push('"');
    o
}
fn main() {
    let dir = std::env::args().nth(1).unwrap();
    let mut paths: Vec<_> = std::fs::read_dir(&dir).unwrap().map(|e| e.unwrap().path()).collect();
    paths.sort();
    for p in paths {
        let file_name = p.file_name().unwrap().to_string_lossy().to_string();
        let test_name = file_name.strip_suffix(".yaml").unwrap();
        let txt = std::fs::read_to_string(&p).unwrap();
        let docs = Yaml::load_from_str(&txt).unwrap();
        let tests = docs[0].as_vec().unwrap();
        let mut cur = Mapping::new();
        for (idx, t) in tests.iter().enumerate() {
            let name = if tests.len() > 1 { format!("{test_name}-{idx:02}") } else { test_name.to_string() };
            cur.remove(&Yaml::Value(Scalar::String("fail".into())));
            for (k, v) in t.as_mapping().unwrap().clone() {
                cur.insert(k, v);
            }
            let c = Yaml::Mapping(cur.clone());
            let skip = c.contains_mapping_key("skip");
            let fail = c.as_mapping_get("fail").map(|x| x.as_bool().unwrap_or(false)) == Some(true);
            let yaml = visual_to_raw(c["yaml"].as_str().unwrap());
            let tree = c.as_mapping_get("tree").and_then(|x| x.as_str()).map(visual_to_raw);
            let json = c.as_mapping_get("json").and_then(|x| x.as_str()).map(|s| s.to_string());
            println!(
                "{{\"name\":{},\"skip\":{},\"fail\":{},\"yaml\":{},\"tree\":{},\"json\":{}}}",
                js(&name), skip, fail, js(&yaml),
                tree.map_or("null".into(), |t| js(&t)),
                json.map_or("null".into(), |t| js(&t))
            );
        }
    }
}
