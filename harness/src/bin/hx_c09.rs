//! C09 harness: emit a node tree with `YamlEmitter`, load the text back, re-emit the reloaded tree.
//!
//! usage: hx_c09 < cases > results
//!
//! Case line (tokens separated by one space): `c<0|1> m<0|1> <node>` where
//!   c = compact flag, m = multiline_strings flag and <node> is a prefix encoding of the tree:
//!   `N` null, `B0`/`B1`, `I<decimal i64>`, `F<16 hex digits of the f64 bits>`, `S<cp.cp...>` string (`S` = ""),
//!   `Q<n>` followed by n nodes, `M<n>` followed by n key/value node pairs (keys must be distinct).
//!
//! Result line, fields separated by `|`:
//!   0 status   `OK`, `BADCASE#..`, `DUPKEY`, `EMITERR`, `EMITPANIC#..`
//!   1 dump of the original tree (same canonical dump as `hx load yaml eager`)
//!   2 emitted text as code points `cp.cp.cp`
//!   3 load verdict `L<number of documents>` or `ERR@index:line:col#message` or `LOADPANIC#..`
//!   4 dumps of the reloaded documents joined by ` ; `
//!   5 `1` when there is exactly one document and it is `==` to the original, else `0`
//!   6 re-emitted text of the first reloaded document (same settings) as code points, `-` if none,
//!     `REEMITPANIC#..` on a panic
//!   7 text the emitter's number formatting produced for every float leaf in tree order (`cp.cp,cp.cp`), for the
//!     model correspondence (floats are formatted by Rust's `{:?}`, which the Coq model takes as an input)
#![allow(dead_code)]
#[path = "../common.rs"]
mod common;

use common::{cps, err, msg};
use saphyr::{LoadableYamlNode, Mapping, Scalar, Yaml, YamlEmitter};
use std::borrow::Cow;
use std::io::{BufRead, Write};

// ---- the canonical node dump of harness/src/modes.rs (copied: bins cannot share the private module) ----
fn canon_bits(f: f64) -> u64 {
    if f.is_nan() {
        0x7ff8_0000_0000_0000
    } else {
        f.to_bits()
    }
}
fn scalar_dump(s: &Scalar) -> String {
    match s {
        Scalar::Null => "N".into(),
        Scalar::Boolean(b) => format!("B{}", u8::from(*b)),
        Scalar::Integer(i) => format!("I{}0x{:x}", if *i < 0 { "-" } else { "" }, i.unsigned_abs()),
        Scalar::FloatingPoint(f) => format!("F{:016x}", canon_bits(f.0)),
        Scalar::String(s) => format!("S{}", cps(s)),
    }
}
fn dump(y: &Yaml) -> String {
    match y {
        Yaml::Value(s) => scalar_dump(s),
        Yaml::Representation(v, st, t) => format!("R{},{},{}", common::sty(*st), common::tag(t), cps(v)),
        Yaml::Sequence(v) => format!("Q[{}]", v.iter().map(dump).collect::<Vec<_>>().join(",")),
        Yaml::Mapping(m) => format!(
            "M{{{}}}",
            m.iter().map(|(k, v)| format!("{}={}", dump(k), dump(v))).collect::<Vec<_>>().join(",")
        ),
        Yaml::Alias(i) => format!("A{i}"),
        Yaml::BadValue => "X".into(),
    }
}

// ---- case decoding ----
struct Toks<'a> {
    t: Vec<&'a str>,
    i: usize,
    dup: bool,
}
fn node(p: &mut Toks) -> Result<Yaml<'static>, String> {
    let tok = *p.t.get(p.i).ok_or("truncated")?;
    p.i += 1;
    let (k, rest) = tok.split_at(1);
    match k {
        "N" => Ok(Yaml::Value(Scalar::Null)),
        "B" => Ok(Yaml::Value(Scalar::Boolean(rest == "1"))),
        "I" => Ok(Yaml::Value(Scalar::Integer(rest.parse::<i64>().map_err(|e| e.to_string())?))),
        "F" => {
            let bits = u64::from_str_radix(rest, 16).map_err(|e| e.to_string())?;
            Ok(Yaml::Value(Scalar::FloatingPoint(f64::from_bits(bits).into())))
        }
        "S" => {
            let mut s = String::new();
            if !rest.is_empty() {
                for x in rest.split('.') {
                    let c = x.parse::<u32>().ok().and_then(char::from_u32).ok_or("bad code point")?;
                    s.push(c);
                }
            }
            Ok(Yaml::Value(Scalar::String(Cow::Owned(s))))
        }
        "Q" => {
            let n = rest.parse::<usize>().map_err(|e| e.to_string())?;
            let mut v = Vec::with_capacity(n);
            for _ in 0..n {
                v.push(node(p)?);
            }
            Ok(Yaml::Sequence(v))
        }
        "M" => {
            let n = rest.parse::<usize>().map_err(|e| e.to_string())?;
            let mut m = Mapping::new();
            for _ in 0..n {
                let k = node(p)?;
                let v = node(p)?;
                if m.insert(k, v).is_some() {
                    p.dup = true;
                }
            }
            Ok(Yaml::Mapping(m))
        }
        _ => Err(format!("token {tok}")),
    }
}

fn emit(y: &Yaml, compact: bool, multiline: bool) -> Result<String, String> {
    let mut out = String::new();
    {
        let mut e = YamlEmitter::new(&mut out);
        e.compact(compact);
        e.multiline_strings(multiline);
        e.dump(y).map_err(|e| e.to_string())?;
    }
    Ok(out)
}

fn panic_msg(p: &Box<dyn std::any::Any + Send>) -> String {
    if let Some(s) = p.downcast_ref::<&str>() {
        msg(s)
    } else if let Some(s) = p.downcast_ref::<String>() {
        msg(s)
    } else {
        "?".into()
    }
}

/// text of every float leaf as the emitter writes it (emitting the leaf alone as a document root)
fn float_texts(y: &Yaml, out: &mut Vec<String>) {
    match y {
        Yaml::Value(Scalar::FloatingPoint(_)) => {
            let t = emit(y, true, false).unwrap_or_default();
            out.push(cps(t.strip_prefix("---\n").unwrap_or(&t)));
        }
        Yaml::Sequence(v) => v.iter().for_each(|x| float_texts(x, out)),
        Yaml::Mapping(m) => m.iter().for_each(|(k, v)| {
            float_texts(k, out);
            float_texts(v, out);
        }),
        _ => {}
    }
}

fn run(line: &str) -> String {
    let toks: Vec<&str> = line.split(' ').filter(|t| !t.is_empty()).collect();
    if toks.len() < 3 || !matches!(toks[0], "c0" | "c1") || !matches!(toks[1], "m0" | "m1") {
        return "BADCASE#settings".into();
    }
    let compact = toks[0] == "c1";
    let multiline = toks[1] == "m1";
    let mut p = Toks { t: toks[2..].to_vec(), i: 0, dup: false };
    let tree = match node(&mut p) {
        Ok(t) if p.i == p.t.len() => t,
        Ok(_) => return "BADCASE#trailing tokens".into(),
        Err(e) => return format!("BADCASE#{}", msg(&e)),
    };
    if p.dup {
        return format!("DUPKEY|{}", dump(&tree));
    }
    let d0 = dump(&tree);
    let text = match std::panic::catch_unwind(std::panic::AssertUnwindSafe(|| emit(&tree, compact, multiline))) {
        Ok(Ok(t)) => t,
        Ok(Err(e)) => return format!("EMITERR#{}|{d0}", msg(&e)),
        Err(pn) => return format!("EMITPANIC#{}|{d0}", panic_msg(&pn)),
    };
    let mut fl = vec![];
    float_texts(&tree, &mut fl);
    let fl = fl.join(",");
    let loaded = std::panic::catch_unwind(std::panic::AssertUnwindSafe(|| Yaml::load_from_str(&text)));
    let (verdict, dumps, eq, re) = match loaded {
        Err(pn) => (format!("LOADPANIC#{}", panic_msg(&pn)), String::new(), false, "-".to_string()),
        Ok(Err(e)) => (err(&e), String::new(), false, "-".to_string()),
        Ok(Ok(docs)) => {
            let dumps = docs.iter().map(dump).collect::<Vec<_>>().join(" ; ");
            let eq = docs.len() == 1 && docs[0] == tree && tree == docs[0];
            let re = match docs.first() {
                None => "-".to_string(),
                Some(d) => match std::panic::catch_unwind(std::panic::AssertUnwindSafe(|| emit(d, compact, multiline))) {
                    Ok(Ok(t)) => cps(&t),
                    Ok(Err(e)) => format!("REEMITERR#{}", msg(&e)),
                    Err(pn) => format!("REEMITPANIC#{}", panic_msg(&pn)),
                },
            };
            (format!("L{}", docs.len()), dumps, eq, re)
        }
    };
    format!("OK|{d0}|{}|{verdict}|{dumps}|{}|{re}|{fl}", cps(&text), u8::from(eq))
}

fn main() {
    std::panic::set_hook(Box::new(|_| {}));
    let stdin = std::io::stdin();
    let stdout = std::io::stdout();
    let mut out = std::io::BufWriter::with_capacity(1 << 20, stdout.lock());
    for line in stdin.lock().lines() {
        let line = line.unwrap();
        let res = match std::panic::catch_unwind(|| run(&line)) {
            Ok(s) => s,
            Err(p) => format!("PANIC#{}", panic_msg(&p)),
        };
        out.write_all(res.as_bytes()).unwrap();
        out.write_all(b"\n").unwrap();
    }
    out.flush().unwrap();
}
