//! C17 — repeated `Parser::load(recv, false)`: WHICH events each call delivers.
//!
//!   hx_c17 single <backend>     backend = str | iter
//!
//! One case per stdin line (space-separated decimal code points), one result line per case:
//!   seg#seg#...|FIN      seg = the events (with spans) one call pushed, joined by ';' — the same event text as
//!                        `hx push str:single`, with a '#' between calls; FIN = OK or ERR@index:line:col#message.
//! The driver is the one of `hx push <backend>:single` (harness/src/modes.rs push_all): call load(recv, false) until it
//! returns an error, or until the last event delivered is StreamEnd.  The segment of a failing call (possibly empty) is
//! printed too.  Panics are caught per case.
#[path = "../common.rs"]
mod common;

use common::{decode, err, ev, guard};
use saphyr_parser::{Event, Input, Parser, Span, SpannedEventReceiver};
use std::io::{BufRead, Write};

struct Collect(Vec<String>);
impl<'a> SpannedEventReceiver<'a> for Collect {
    fn on_event(&mut self, e: Event<'a>, s: Span) {
        self.0.push(ev(&e, &s));
    }
}

fn single<I: Input>(mut p: Parser<'_, I>) -> String {
    let mut segs: Vec<String> = vec![];
    let mut fin = "OK".to_string();
    let mut last_is_end = false;
    let mut calls = 0usize;
    loop {
        calls += 1;
        let mut c = Collect(vec![]);
        let r = p.load(&mut c, false);
        if let Some(l) = c.0.last() {
            last_is_end = l.starts_with("SE");
        }
        segs.push(c.0.join(";"));
        match r {
            Err(e) => {
                fin = err(&e);
                break;
            }
            Ok(()) => {
                if last_is_end || calls > 100_000 {
                    break;
                }
            }
        }
    }
    format!("{}|{}", segs.join("#"), fin)
}

fn run(backend: &str, line: &str) -> String {
    match decode(line) {
        None => "|BADCASE".into(),
        Some(s) => {
            let backend = backend.to_string();
            guard(move || {
                if backend == "iter" {
                    single(Parser::new_from_iter(s.chars()))
                } else {
                    single(Parser::new_from_str(&s))
                }
            })
        }
    }
}

fn main() {
    let args: Vec<String> = std::env::args().collect();
    if args.len() < 3 || args[1] != "single" {
        eprintln!("usage: hx_c17 single <str|iter> < cases > results");
        std::process::exit(2);
    }
    std::panic::set_hook(Box::new(|_| {}));
    let stdin = std::io::stdin();
    let stdout = std::io::stdout();
    let mut out = std::io::BufWriter::with_capacity(1 << 20, stdout.lock());
    for line in stdin.lock().lines() {
        let line = line.unwrap();
        let res = run(&args[2], &line);
        out.write_all(res.as_bytes()).unwrap();
        out.write_all(b"\n").unwrap();
        out.flush().unwrap();
    }
    out.flush().unwrap();
}
