//! C11 — nesting depth cannot crash the process.
//!
//! ONE scenario per invocation (a stack overflow kills the whole process, so every scenario needs a
//! process of its own):      hx_c11 <shape> <depth> <api>
//!
//!   shape  seq   "- " per level                      (block sequences, one line)
//!          map   "a:\n", one more blank of indentation per level   (block mappings; input is O(d^2) bytes)
//!          qkey  "? " per level                      (explicit keys: a mapping whose key is a mapping ...)
//!          alt   "- ? - ? ..."                       (alternating block sequence / explicit key)
//!          fseq  "[" per level, closed               (flow sequences)
//!          fmap  "{a: " per level, closed            (flow mappings)
//!          mix   block "- " levels around a flow core of (at most) 100 "[" levels
//!          qflow "[ ? ] , " per level, then d closing "]"   (REGRESSION scenario: before c5ad60c the parser's
//!                flow_sequence_entry_mapping_key consumed the "]" of "[ ? ]" as the end of the empty key, so the
//!                text was accepted as d nested sequences at scanner flow level 1; now the first "[ ? ]" is a
//!                complete document and the "," / "]" behind it is an error value at every depth)
//!          colons "[" + " :" per level + "]"                (REGRESSION scenario: before 597a354 fetch_value pushed
//!                a synthetic FlowMappingStart for every bare ':' inside a flow sequence: d nested mappings at
//!                scanner flow level 1, the parse error only arrived at the closing "]"; now only the first ':'
//!                of an entry starts the single-pair mapping and the second ':' is an error value)
//!          colonsok "[" + " :" per level + " " + "}" per level + "]"   (REGRESSION scenario: the same text closed
//!                by d '}' was ACCEPTED before 597a354; now an error value: at the second ':' for d >= 2, at the
//!                '}' for d = 1 (88700d3))
//!          cbrace "[ : } , " per level, then d closing "]"  (REGRESSION scenario: before 88700d3 the '}' ended the
//!                implicit mapping of the pair AND lowered the scanner's flow level although the parser stayed in
//!                the sequence: d nested sequences at scanner flow level 1, accepted; now the first '}' is the
//!                scan error "while parsing a flow sequence, expected ',' or ']'")
//!          alias  "- &a0 [x]" then "- &a<i> [*a<i-1>]" per level   (ALIAS CHAIN: the events nest only 2 deep — no nesting
//!                limit applies — but the loader inserts a CLONE of the anchored node for every alias, so element i of the
//!                loaded sequence is a tree i+1 deep and the whole tree holds ~d^2/2 nodes: memory is quadratic in d, and
//!                Clone (during load), Drop and the emitter recurse d deep)
//!   api    iter   Parser::new_from_str(..) drained as an iterator                (pull interface)
//!          load   Parser::load into a receiver that only counts                  (push interface)
//!          drop   Yaml::load_from_str, then drop the documents
//!          emit   Yaml::load_from_str, then YamlEmitter::dump of every document (tree leaked afterwards,
//!                 so that a crash is the emitter's and not the destructor's)
//!          pdrop / pemit   as drop / emit, but the tree is built by feeding the events of the PULL
//!                 parser to YamlLoader::on_event: isolates the destructor / the emitter from the
//!                 recursion of Parser::load (used to measure their own thresholds)
//!
//! The scenario runs on a thread with an explicit 8 MiB stack (the default of std::thread, made
//! independent of RUST_MIN_STACK).  Output: progress lines `STAGE <name>` (flushed at once, so that the
//! parent can tell which stage died), then exactly one verdict line `OK <n>`, `ERR <message>` or
//! `PANIC <message>`; exit status 0.  A stack overflow ends the process with SIGSEGV/SIGABRT instead.
use std::fmt;
use std::io::Write as _;

use saphyr::{LoadableYamlNode, Yaml, YamlEmitter, YamlLoader};
use saphyr_parser::{Event, Parser, ScanError, Span, SpannedEventReceiver};

const STACK: usize = 8 * 1024 * 1024;

fn build(shape: &str, d: usize) -> Option<String> {
    let mut s = String::new();
    match shape {
        "seq" => {
            s.reserve(2 * d + 2);
            for _ in 0..d {
                s.push_str("- ");
            }
            s.push('a');
        }
        "qkey" => {
            for _ in 0..d {
                s.push_str("? ");
            }
            s.push('a');
        }
        "alt" => {
            for i in 0..d {
                s.push_str(if i % 2 == 0 { "- " } else { "? " });
            }
            s.push('a');
        }
        "map" => {
            s.reserve(d * (d + 5) / 2 + d + 8);
            for i in 0..d {
                for _ in 0..i {
                    s.push(' ');
                }
                s.push_str("a:\n");
            }
            for _ in 0..d {
                s.push(' ');
            }
            s.push_str("x\n");
        }
        "fseq" => {
            for _ in 0..d {
                s.push('[');
            }
            s.push('a');
            for _ in 0..d {
                s.push(']');
            }
        }
        "fmap" => {
            for _ in 0..d {
                s.push_str("{a: ");
            }
            s.push('b');
            for _ in 0..d {
                s.push('}');
            }
        }
        "mix" => {
            let f = d.min(100);
            for _ in 0..(d - f) {
                s.push_str("- ");
            }
            for _ in 0..f {
                s.push('[');
            }
            s.push('a');
            for _ in 0..f {
                s.push(']');
            }
        }
        "qflow" => {
            s.reserve(9 * d + 8);
            for i in 0..d {
                s.push_str(if i + 1 < d { "[ ? ] , " } else { "[ ? ] " });
            }
            for _ in 0..d {
                s.push(']');
            }
        }
        "alias" => {
            s.reserve(18 * d + 16);
            for i in 0..d {
                if i == 0 {
                    s.push_str("- &a0 [x]\n");
                } else {
                    s.push_str(&format!("- &a{} [*a{}]\n", i, i - 1));
                }
            }
        }
        "cbrace" => {
            s.reserve(9 * d + 8);
            for i in 0..d {
                s.push_str(if i + 1 < d { "[ : } , " } else { "[ : } " });
            }
            for _ in 0..d {
                s.push(']');
            }
        }
        "colons" => {
            s.reserve(2 * d + 2);
            s.push('[');
            for _ in 0..d {
                s.push_str(" :");
            }
            s.push(']');
        }
        "colonsok" => {
            s.reserve(3 * d + 3);
            s.push('[');
            for _ in 0..d {
                s.push_str(" :");
            }
            s.push(' ');
            for _ in 0..d {
                s.push('}');
            }
            s.push(']');
        }
        _ => return None,
    }
    Some(s)
}

fn stage(name: &str) {
    let out = std::io::stdout();
    let mut o = out.lock();
    let _ = writeln!(o, "STAGE {name}");
    let _ = o.flush();
}

fn one_line(s: &str) -> String {
    s.chars().map(|c| if c == '\n' || c == '\r' { '_' } else { c }).collect()
}

fn err(e: &ScanError) -> String {
    format!("ERR {}:{}:{} {}", e.marker().index(), e.marker().line(), e.marker().col(), one_line(e.info()))
}

/// Trivial receiver: counts events and tracks the nesting depth reached.
struct Count {
    n: usize,
    depth: usize,
    max_depth: usize,
}
impl<'i> SpannedEventReceiver<'i> for Count {
    fn on_event(&mut self, ev: Event<'i>, _span: Span) {
        self.n += 1;
        match ev {
            Event::SequenceStart(..) | Event::MappingStart(..) => {
                self.depth += 1;
                self.max_depth = self.max_depth.max(self.depth);
            }
            Event::SequenceEnd | Event::MappingEnd => self.depth = self.depth.saturating_sub(1),
            _ => {}
        }
    }
}

/// fmt::Write sink that only counts (the block rendering of a depth-d tree is O(d^2) bytes).
struct Sink(usize);
impl fmt::Write for Sink {
    fn write_str(&mut self, s: &str) -> fmt::Result {
        self.0 += s.len();
        Ok(())
    }
}

/// Tree built without Parser::load: pull parser + YamlLoader::on_event (both keep heap stacks).
fn pull_load(src: &str) -> Result<Vec<Yaml<'_>>, ScanError> {
    let mut loader: YamlLoader<'_, Yaml<'_>> = YamlLoader::default();
    for r in Parser::new_from_str(src) {
        let (ev, span) = r?;
        loader.on_event(ev, span);
    }
    Ok(loader.into_documents())
}

fn emit_all(docs: &[Yaml]) -> Result<usize, String> {
    let mut total = 0;
    for d in docs {
        let mut sink = Sink(0);
        {
            let mut em = YamlEmitter::new(&mut sink);
            em.dump(d).map_err(|e| format!("ERR emit {}", one_line(&format!("{e:?}"))))?;
        }
        total += sink.0;
    }
    Ok(total)
}

fn scenario(api: &str, src: &str) -> String {
    match api {
        "iter" => {
            let mut n = 0usize;
            let mut depth = 0usize;
            let mut max_depth = 0usize;
            for r in Parser::new_from_str(src) {
                match r {
                    Ok((ev, _)) => {
                        n += 1;
                        match ev {
                            Event::SequenceStart(..) | Event::MappingStart(..) => {
                                depth += 1;
                                max_depth = max_depth.max(depth);
                            }
                            Event::SequenceEnd | Event::MappingEnd => depth = depth.saturating_sub(1),
                            _ => {}
                        }
                    }
                    Err(e) => return err(&e),
                }
            }
            format!("OK events={n} depth={max_depth}")
        }
        "load" => {
            let mut p = Parser::new_from_str(src);
            let mut c = Count { n: 0, depth: 0, max_depth: 0 };
            match p.load(&mut c, true) {
                Ok(()) => format!("OK events={} depth={}", c.n, c.max_depth),
                Err(e) => err(&e),
            }
        }
        "drop" | "pdrop" => {
            let r = if api == "drop" { Yaml::load_from_str(src) } else { pull_load(src) };
            match r {
                Ok(docs) => {
                    stage("loaded");
                    let n = docs.len();
                    drop(docs);
                    stage("dropped");
                    format!("OK docs={n}")
                }
                Err(e) => err(&e),
            }
        }
        "emit" | "pemit" => {
            let r = if api == "emit" { Yaml::load_from_str(src) } else { pull_load(src) };
            match r {
                Ok(docs) => {
                    stage("loaded");
                    let v = emit_all(&docs);
                    if v.is_ok() {
                        stage("emitted");
                    }
                    // the destructor is the business of the `drop` scenario
                    std::mem::forget(docs);
                    match v {
                        Ok(n) => format!("OK bytes={n}"),
                        Err(m) => m,
                    }
                }
                Err(e) => err(&e),
            }
        }
        _ => "USAGE".into(),
    }
}

fn main() {
    let a: Vec<String> = std::env::args().collect();
    if a.len() != 4 {
        println!("USAGE hx_c11 <seq|map|qkey|alt|fseq|fmap|mix|qflow|colons|colonsok|cbrace|alias> <depth> <iter|load|drop|emit|pdrop|pemit>");
        std::process::exit(2);
    }
    let depth: usize = match a[2].parse() {
        Ok(d) => d,
        Err(_) => {
            println!("USAGE depth");
            std::process::exit(2);
        }
    };
    let Some(src) = build(&a[1], depth) else {
        println!("USAGE shape");
        std::process::exit(2);
    };
    let api = a[3].clone();
    if !matches!(api.as_str(), "iter" | "load" | "drop" | "emit" | "pdrop" | "pemit") {
        println!("USAGE api");
        std::process::exit(2);
    }
    stage(&format!("input bytes={}", src.len()));
    // quiet panic hook: the verdict line is the report
    std::panic::set_hook(Box::new(|_| {}));
    let h = std::thread::Builder::new()
        .stack_size(STACK)
        .spawn(move || {
            let r = scenario(&api, &src);
            // the input string itself is flat: freeing it cannot recurse
            drop(src);
            r
        })
        .expect("spawn");
    let line = match h.join() {
        Ok(s) => s,
        Err(p) => {
            let m = if let Some(s) = p.downcast_ref::<&str>() {
                (*s).to_string()
            } else if let Some(s) = p.downcast_ref::<String>() {
                s.clone()
            } else {
                "?".into()
            };
            format!("PANIC {}", one_line(&m))
        }
    };
    println!("{line}");
}
