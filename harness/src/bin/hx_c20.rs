//! C20 harness: mapping lookups, equality and hashing of the four node types.
//!
//! usage: hx_c20 [eager|deferred] < cases > results
//! Case line:  `<text cps> [# <probe cps>]* [@ <i> <i> ...]`
//!   text cps  = space-separated decimal code points of a YAML text (first document is used)
//!   probe cps = space-separated code points of a probe string (may be empty)
//!   i         = decimal usize probes for integer indexing
//! Result line: `OK <sect> ;; <sect> ;; <sect> ;; <sect>` (yaml, owned, marked, markedowned) or `ERR…`.
//! Section:   `<type>!D<dump>!P…!J…!K…!E…`  (fields separated by `!`)
//!   P<k cps>:<g c i e gm im>:<v get>:<v index>:<v explicit>:<hash ops of borrowed needle>:<hash ops of owned needle>
//!       g  as_mapping_get(k).is_some()      c  contains_mapping_key(k)     i  node[k] did not panic
//!       e  mapping.get(&Value(String(k)))   gm as_mapping_get_mut(k)       im (&mut node)[k] did not panic
//!   J<i>:<x s m xm sm>:<v node[i]>:<v as_sequence_get(i)>:<v mapping.get(&Value(Integer(i)))>
//!   K<dump>~<hash ops>   for the root, and every key and value of a root mapping / every item of a root sequence
//!   E<row>_<row>…        pairwise `==` between the K subjects (row i, column j)
//! Hash ops: the exact `Hasher::write_*` calls made by `Hash::hash`, e.g. `isize=0x1.isize=0x4.w=666f6f.u8=0xff` (integers in hex, `-0x…` when negative).
#[path = "../common.rs"]
#[allow(dead_code)]
mod common;

use std::borrow::Cow;
use std::hash::{Hash, Hasher};
use std::io::{BufRead, Write};
use std::panic::{catch_unwind, AssertUnwindSafe};

use common::{cps, decode, err, msg, sty, tag};
use saphyr::{
    MarkedYaml, MarkedYamlOwned, Scalar, ScalarOwned, Yaml, YamlData, YamlDataOwned, YamlLoader, YamlOwned,
};
use saphyr_parser::{Parser, StrInput};

// ------------------------------------------------------------------------------------------------
// recording hasher
// ------------------------------------------------------------------------------------------------
#[derive(Default)]
struct Rec {
    ops: Vec<String>,
}
macro_rules! rec_uint {
    ($($f:ident $t:ty, $n:literal;)*) => { $( fn $f(&mut self, i: $t) { self.ops.push(format!("{}=0x{:x}", $n, i)); } )* };
}
macro_rules! rec_sint {
    ($($f:ident $t:ty, $n:literal;)*) => { $( fn $f(&mut self, i: $t) {
        self.ops.push(format!("{}={}0x{:x}", $n, if i < 0 { "-" } else { "" }, i.unsigned_abs()));
    } )* };
}
impl Hasher for Rec {
    fn finish(&self) -> u64 {
        0
    }
    fn write(&mut self, bytes: &[u8]) {
        let mut s = String::from("w=");
        for b in bytes {
            s.push_str(&format!("{b:02x}"));
        }
        self.ops.push(s);
    }
    rec_uint! {
        write_u8 u8, "u8"; write_u16 u16, "u16"; write_u32 u32, "u32"; write_u64 u64, "u64"; write_u128 u128, "u128";
        write_usize usize, "usize";
    }
    rec_sint! {
        write_i8 i8, "i8"; write_i16 i16, "i16"; write_i32 i32, "i32"; write_i64 i64, "i64";
        write_i128 i128, "i128"; write_isize isize, "isize";
    }
}
fn rec<T: Hash + ?Sized>(t: &T) -> String {
    let mut r = Rec::default();
    t.hash(&mut r);
    r.ops.join(".")
}

// ------------------------------------------------------------------------------------------------
// dumps (same canonical form as `hx load`)
// ------------------------------------------------------------------------------------------------
fn canon_bits(f: f64) -> u64 {
    if f.is_nan() {
        0x7ff8_0000_0000_0000
    } else {
        f.to_bits()
    }
}
fn scalar_dump(s: &Scalar) -> String {
    match s {
        Scalar::Null => "N".into(),
        Scalar::Boolean(b) => format!("B{}", u8::from(*b)),
        Scalar::Integer(i) => format!("I{}0x{:x}", if *i < 0 { "-" } else { "" }, i.unsigned_abs()),
        Scalar::FloatingPoint(f) => format!("F{:016x}", canon_bits(f.0)),
        Scalar::String(s) => format!("S{}", cps(s)),
    }
}
fn rep_dump(v: &str, st: saphyr_parser::ScalarStyle, t: &Option<saphyr_parser::Tag>) -> String {
    format!("R{},{},{}", sty(st), tag(t), cps(v))
}
trait Dump {
    fn dump(&self) -> String;
}
macro_rules! dump_impl {
    ($ty:ty, $en:ident, |$n:ident| $data:expr, |$s:ident| $sc:expr) => {
        impl Dump for $ty {
            fn dump(&self) -> String {
                let $n = self;
                match $data {
                    $en::Value($s) => scalar_dump($sc),
                    $en::Representation(v, st, t) => rep_dump(v, *st, t),
                    $en::Sequence(v) => format!("Q[{}]", v.iter().map(Dump::dump).collect::<Vec<_>>().join(",")),
                    $en::Mapping(m) => format!(
                        "M{{{}}}",
                        m.iter().map(|(k, v)| format!("{}={}", k.dump(), v.dump())).collect::<Vec<_>>().join(",")
                    ),
                    $en::Alias(i) => format!("A{i}"),
                    $en::BadValue => "X".into(),
                }
            }
        }
    };
}
dump_impl!(Yaml<'_>, Yaml, |n| n, |s| s);
dump_impl!(YamlOwned, YamlOwned, |n| n, |s| &s.as_scalar());
dump_impl!(MarkedYaml<'_>, YamlData, |n| &n.data, |s| s);
dump_impl!(MarkedYamlOwned, YamlDataOwned, |n| &n.data, |s| &s.as_scalar());

fn od<T: Dump>(o: Option<&T>) -> String {
    o.map_or_else(|| "-".to_string(), Dump::dump)
}
fn b(x: bool) -> char {
    if x {
        '1'
    } else {
        '0'
    }
}
/// Run `f`, catching a panic: Some(result) or None.
fn attempt<R>(f: impl FnOnce() -> R) -> Option<R> {
    catch_unwind(AssertUnwindSafe(f)).ok()
}

// ------------------------------------------------------------------------------------------------
// the per-type section; `$d` / `$dm` project a node to the object the accessors are defined on
// ------------------------------------------------------------------------------------------------
macro_rules! section {
    ($name:literal, $ty:ty, $en:ident, $text:expr, $early:expr, $probes:expr, $ints:expr,
     |$n:ident| $d:expr, |$nm:ident| $dm:expr,
     |$k:ident| $needle_b:expr, |$ko:ident| $needle_o:expr, |$ki:ident| $needle_i:expr) => {{
        let mut parser = Parser::new(StrInput::new($text));
        let mut loader = YamlLoader::<$ty>::default();
        loader.early_parse($early);
        match parser.load(&mut loader, true) {
            Err(e) => Err(err(&e)),
            Ok(()) => {
                let docs: Vec<$ty> = loader.into_documents();
                if docs.is_empty() {
                    Ok(format!("{}!EMPTY", $name))
                } else {
                    let root: &$ty = &docs[0];
                    let mut out: Vec<String> = vec![$name.to_string(), format!("D{}", root.dump())];
                    for probe in $probes.iter() {
                        let $k: &str = probe.as_str();
                        let $ko: &str = $k;
                        let nb: $ty = $needle_b;
                        let no: $ty = $needle_o;
                        let $n = root;
                        let g = attempt(|| $d.as_mapping_get($k).map(Dump::dump));
                        let c = attempt(|| $d.contains_mapping_key($k));
                        let i = attempt(|| (&$d[$k]).dump());
                        let e = attempt(|| $d.as_mapping().and_then(|m| m.get(&no)).map(Dump::dump));
                        let e2 = attempt(|| $d.as_mapping().and_then(|m| m.get(&nb)).map(Dump::dump));
                        let mut c1: $ty = root.clone();
                        let gm = attempt(|| {
                            let $nm = &mut c1;
                            $dm.as_mapping_get_mut($k).map(|x| x.dump())
                        });
                        let mut c2: $ty = root.clone();
                        let im = attempt(|| {
                            let $nm = &mut c2;
                            (&mut $dm[$k]).dump()
                        });
                        // flags; a panic where none is allowed is reported as 'P'
                        let fl = |x: &Option<Option<String>>| match x {
                            None => 'P',
                            Some(o) => b(o.is_some()),
                        };
                        let flags: String = [
                            fl(&g),
                            match c {
                                None => 'P',
                                Some(x) => b(x),
                            },
                            b(i.is_some()),
                            if e == e2 { fl(&e) } else { 'D' },
                            fl(&gm),
                            b(im.is_some()),
                        ]
                        .iter()
                        .collect();
                        let vs = |x: &Option<Option<String>>| x.clone().flatten().unwrap_or_else(|| "-".into());
                        let vm = if gm.clone().flatten() == im.clone() || im.is_none() && gm.clone().flatten().is_none() {
                            String::new()
                        } else {
                            format!("MUTDIFF({:?},{:?})", gm, im)
                        };
                        out.push(format!(
                            "P{}:{}:{}:{}:{}:{}:{}{}",
                            cps($k),
                            flags,
                            vs(&g),
                            i.clone().unwrap_or_else(|| "-".into()),
                            vs(&e),
                            rec(&nb),
                            rec(&no),
                            vm
                        ));
                    }
                    for &idx in $ints.iter() {
                        let $n = root;
                        let x = attempt(|| (&$d[idx]).dump());
                        let s = attempt(|| $d.as_sequence_get(idx).map(Dump::dump));
                        let m = attempt(|| match i64::try_from(idx) {
                            Ok($ki) => {
                                let needle: $ty = $needle_i;
                                $d.as_mapping().and_then(|m| m.get(&needle)).map(Dump::dump)
                            }
                            Err(_) => None,
                        });
                        let mut c1: $ty = root.clone();
                        let xm = attempt(|| {
                            let $nm = &mut c1;
                            (&mut $dm[idx]).dump()
                        });
                        let mut c2: $ty = root.clone();
                        let sm = attempt(|| {
                            let $nm = &mut c2;
                            $dm.as_sequence_get_mut(idx).map(|x| x.dump())
                        });
                        let fl = |x: &Option<Option<String>>| match x {
                            None => 'P',
                            Some(o) => b(o.is_some()),
                        };
                        let flags: String =
                            [b(x.is_some()), fl(&s), fl(&m), b(xm.is_some()), fl(&sm)].iter().collect();
                        let vs = |x: &Option<Option<String>>| x.clone().flatten().unwrap_or_else(|| "-".into());
                        let vm = if xm == x && sm == s { String::new() } else { format!("MUTDIFF({:?},{:?})", xm, sm) };
                        out.push(format!(
                            "J{}:{}:{}:{}:{}{}",
                            idx,
                            flags,
                            x.clone().unwrap_or_else(|| "-".into()),
                            vs(&s),
                            vs(&m),
                            vm
                        ));
                    }
                    // hash subjects
                    let mut subj: Vec<&$ty> = vec![root];
                    {
                        let $n = root;
                        if let Some(m) = $d.as_mapping() {
                            for (k, v) in m.iter() {
                                subj.push(k);
                                subj.push(v);
                            }
                        }
                        if let Some(v) = $d.as_sequence() {
                            for x in v.iter() {
                                subj.push(x);
                            }
                        }
                    }
                    for s in &subj {
                        out.push(format!("K{}~{}", s.dump(), rec(*s)));
                    }
                    let rows: Vec<String> =
                        subj.iter().map(|a| subj.iter().map(|c| b(*a == *c)).collect::<String>()).collect();
                    out.push(format!("E{}", rows.join("_")));
                    let _ = od::<$ty>(None);
                    Ok(out.join("!"))
                }
            }
        }
    }};
}

fn run_case(line: &str, early: bool) -> String {
    let (left, ints) = match line.split_once('@') {
        Some((l, r)) => (l, r),
        None => (line, ""),
    };
    let mut parts = left.split('#');
    let Some(text) = parts.next().and_then(decode) else {
        return "|BADCASE".into();
    };
    let mut probes: Vec<String> = vec![];
    for p in parts {
        match decode(p) {
            Some(s) => probes.push(s),
            None => return "|BADCASE".into(),
        }
    }
    let mut idxs: Vec<usize> = vec![];
    for t in ints.split_whitespace() {
        match t.parse::<usize>() {
            Ok(i) => idxs.push(i),
            Err(_) => return "|BADCASE".into(),
        }
    }
    let text: &str = text.as_str();
    let res = catch_unwind(AssertUnwindSafe(|| -> Result<String, String> {
        let a = section!("yaml", Yaml, Yaml, text, early, probes, idxs, |n| n, |n| n,
            |k| Yaml::Value(Scalar::String(Cow::Borrowed(k))),
            |k| Yaml::Value(Scalar::String(Cow::Owned(k.to_string()))),
            |i| Yaml::Value(Scalar::Integer(i)))?;
        let b = section!("owned", YamlOwned, YamlOwned, text, early, probes, idxs, |n| n, |n| n,
            |k| YamlOwned::Value(ScalarOwned::String(k.into())),
            |k| YamlOwned::Value(ScalarOwned::String(k.to_string())),
            |i| YamlOwned::Value(ScalarOwned::Integer(i)))?;
        let c = section!("marked", MarkedYaml, YamlData, text, early, probes, idxs, |n| n.data, |n| n.data,
            |k| MarkedYaml::from(YamlData::Value(Scalar::String(Cow::Borrowed(k)))),
            |k| MarkedYaml::from(YamlData::Value(Scalar::String(Cow::Owned(k.to_string())))),
            |i| MarkedYaml::from(YamlData::Value(Scalar::Integer(i))))?;
        let d = section!("markedowned", MarkedYamlOwned, YamlDataOwned, text, early, probes, idxs, |n| n.data, |n| n.data,
            |k| MarkedYamlOwned::from(YamlDataOwned::Value(ScalarOwned::String(k.into()))),
            |k| MarkedYamlOwned::from(YamlDataOwned::Value(ScalarOwned::String(k.to_string()))),
            |i| MarkedYamlOwned::from(YamlDataOwned::Value(ScalarOwned::Integer(i))))?;
        Ok(format!("OK {a} ;; {b} ;; {c} ;; {d}"))
    }));
    match res {
        Ok(Ok(s)) => s,
        Ok(Err(e)) => e,
        Err(p) => {
            let m = if let Some(s) = p.downcast_ref::<&str>() {
                (*s).to_string()
            } else if let Some(s) = p.downcast_ref::<String>() {
                s.clone()
            } else {
                "?".into()
            };
            format!("|PANIC#{}", msg(&m))
        }
    }
}

fn main() {
    let args: Vec<String> = std::env::args().collect();
    let early = args.get(1).map_or(true, |a| a != "deferred");
    std::panic::set_hook(Box::new(|_| {}));
    let stdin = std::io::stdin();
    let stdout = std::io::stdout();
    let mut out = std::io::BufWriter::with_capacity(1 << 20, stdout.lock());
    for line in stdin.lock().lines() {
        let line = line.unwrap();
        let res = run_case(&line, early);
        out.write_all(res.as_bytes()).unwrap();
        out.write_all(b"\n").unwrap();
    }
    out.flush().unwrap();
}
