//! C10 — every public `Input` method of the real `StrInput`, called at every offset of a string.
//!
//!   hx_c10 methods
//!
//! One case per stdin line: `<k> <la> <cp> <cp> ...` (decimal): the string of the code points, offset k (the input is
//! advanced by `skip_n(k)`), then `lookahead(la)` if la > 0.  One result line per case: the probes joined by ';', each
//!   <name>=<value>|<remaining bytes>/<buflen>
//! computed on a FRESH input (same string, same offset, same lookahead).  <value> depends on the method (characters are
//! decimal code points, booleans 0/1, Option None = `-`); <remaining bytes> is the byte length of what the input still
//! holds after the call, <buflen> is `buflen()` after the call.  A panicking probe prints `<name>=PANIC`.
//! The remaining text is measured by draining the input with `raw_read_ch`; "empty" (as opposed to "a NUL is next")
//! is recognised by the one observable that distinguishes them: `next_2_are`/`peek` cannot, `next_can_be_plain_scalar`
//! indexes byte 0 and panics on the empty buffer.
#[path = "../common.rs"]
#[allow(dead_code)]
mod common;

use saphyr_parser::input::SkipTabs;
use saphyr_parser::{Input, StrInput};
use std::io::{BufRead, Write};
use std::panic::{catch_unwind, AssertUnwindSafe};

fn is_empty(i: &StrInput) -> bool {
    catch_unwind(AssertUnwindSafe(|| i.next_can_be_plain_scalar(false))).is_err()
}

fn remaining(i: &mut StrInput, bound: usize) -> usize {
    let mut n = 0usize;
    let mut steps = 0usize;
    while !is_empty(i) && steps <= bound {
        n += i.raw_read_ch().len_utf8();
        steps += 1;
    }
    n
}

fn b(x: bool) -> &'static str {
    if x {
        "1"
    } else {
        "0"
    }
}

fn oc(c: Option<char>) -> String {
    match c {
        None => "-".into(),
        Some(c) => (c as u32).to_string(),
    }
}

fn cps(s: &str) -> String {
    s.chars().map(|c| (c as u32).to_string()).collect::<Vec<_>>().join(".")
}

fn run(line: &str) -> String {
    let mut it = line.split_whitespace();
    let k: usize = match it.next().and_then(|x| x.parse().ok()) {
        Some(k) => k,
        None => return "BADCASE".into(),
    };
    let la: usize = match it.next().and_then(|x| x.parse().ok()) {
        Some(k) => k,
        None => return "BADCASE".into(),
    };
    let s: Option<String> = it.map(|x| x.parse::<u32>().ok().and_then(char::from_u32)).collect();
    let s = match s {
        Some(s) => s,
        None => return "BADCASE".into(),
    };
    let total = s.chars().count();
    let mut out: Vec<String> = vec![];

    // one probe: fresh input, call, render value + state
    macro_rules! probe {
        ($name:expr, |$i:ident| $body:expr) => {{
            let r = catch_unwind(AssertUnwindSafe(|| {
                let mut $i = StrInput::new(&s);
                $i.skip_n(k);
                if la > 0 {
                    $i.lookahead(la);
                }
                let v: String = $body;
                let l = $i.buflen();
                format!("{}|{}/{}", v, remaining(&mut $i, total + 1), l)
            }));
            match r {
                Ok(t) => out.push(format!("{}={}", $name, t)),
                Err(_) => out.push(format!("{}=PANIC", $name)),
            }
        }};
    }

    // characters to compare with: what is really there, and fixed ones
    let at = |n: usize| -> char { s.chars().nth(k + n).unwrap_or('\0') };
    let (a0, a1, a2) = (at(0), at(1), at(2));

    probe!("state", |i| String::new());
    probe!("lookahead3_1", |i| {
        i.lookahead(3);
        i.lookahead(1);
        String::new()
    });
    probe!("bufmaxlen", |i| i.bufmaxlen().to_string());
    probe!("buf_is_empty", |i| b(i.buf_is_empty()).into());
    probe!("raw_read_ch", |i| (i.raw_read_ch() as u32).to_string());
    probe!("raw_read_non_breakz_ch", |i| oc(i.raw_read_non_breakz_ch()));
    probe!("skip", |i| {
        i.skip();
        String::new()
    });
    for n in 0..4usize {
        probe!(format!("skip_n{n}"), |i| {
            i.skip_n(n);
            String::new()
        });
    }
    probe!("peek", |i| (i.peek() as u32).to_string());
    for n in 0..5usize {
        probe!(format!("peek_nth{n}"), |i| (i.peek_nth(n) as u32).to_string());
    }
    probe!("look_ch", |i| (i.look_ch() as u32).to_string());
    probe!("next_char_is.self", |i| b(i.next_char_is(a0)).into());
    probe!("next_char_is.colon", |i| b(i.next_char_is(':')).into());
    probe!("next_char_is.nul", |i| b(i.next_char_is('\0')).into());
    for n in 1..3usize {
        probe!(format!("nth_char_is{n}.self"), |i| b(i.nth_char_is(n, at(n))).into());
        probe!(format!("nth_char_is{n}.nul"), |i| b(i.nth_char_is(n, '\0')).into());
    }
    probe!("next_2_are.self", |i| b(i.next_2_are(a0, a1)).into());
    probe!("next_2_are.dash", |i| b(i.next_2_are('-', '-')).into());
    probe!("next_2_are.self_nul", |i| b(i.next_2_are(a0, '\0')).into());
    probe!("next_3_are.self", |i| b(i.next_3_are(a0, a1, a2)).into());
    probe!("next_3_are.dash", |i| b(i.next_3_are('-', '-', '-')).into());
    probe!("next_3_are.dot", |i| b(i.next_3_are('.', '.', '.')).into());
    probe!("next_3_are.self_nul", |i| b(i.next_3_are(a0, a1, '\0')).into());
    probe!("next_is_document_indicator", |i| b(i.next_is_document_indicator()).into());
    probe!("next_is_document_start", |i| b(i.next_is_document_start()).into());
    probe!("next_is_document_end", |i| b(i.next_is_document_end()).into());
    for (nm, st) in [("yes", SkipTabs::Yes), ("no", SkipTabs::No)] {
        probe!(format!("skip_ws_to_eol.{nm}"), |i| {
            let (n, r) = i.skip_ws_to_eol(st);
            match r {
                Ok(SkipTabs::Result(t, w)) => format!("{n},ok,{},{}", b(t), b(w)),
                Ok(_) => format!("{n},ok?"),
                Err(_) => format!("{n},err"),
            }
        });
    }
    probe!("next_can_be_plain_scalar.block", |i| b(i.next_can_be_plain_scalar(false)).into());
    probe!("next_can_be_plain_scalar.flow", |i| b(i.next_can_be_plain_scalar(true)).into());
    probe!("next_is_blank_or_break", |i| b(i.next_is_blank_or_break()).into());
    probe!("next_is_blank_or_breakz", |i| b(i.next_is_blank_or_breakz()).into());
    probe!("next_is_blank", |i| b(i.next_is_blank()).into());
    probe!("next_is_break", |i| b(i.next_is_break()).into());
    probe!("next_is_breakz", |i| b(i.next_is_breakz()).into());
    probe!("next_is_z", |i| b(i.next_is_z()).into());
    probe!("next_is_flow", |i| b(i.next_is_flow()).into());
    probe!("next_is_digit", |i| b(i.next_is_digit()).into());
    probe!("next_is_alpha", |i| b(i.next_is_alpha()).into());
    probe!("skip_while_non_breakz", |i| i.skip_while_non_breakz().to_string());
    probe!("skip_while_blank", |i| i.skip_while_blank().to_string());
    probe!("fetch_while_is_alpha", |i| {
        let mut o = String::from("x");
        let n = i.fetch_while_is_alpha(&mut o);
        format!("{n},{}", cps(&o))
    });
    out.join(";")
}

fn main() {
    let args: Vec<String> = std::env::args().collect();
    if args.len() < 2 || args[1] != "methods" {
        eprintln!("usage: hx_c10 methods < cases");
        std::process::exit(2);
    }
    std::panic::set_hook(Box::new(|_| {}));
    let stdin = std::io::stdin();
    let stdout = std::io::stdout();
    let mut w = std::io::BufWriter::new(stdout.lock());
    for line in stdin.lock().lines() {
        let line = line.unwrap_or_default();
        let r = match catch_unwind(AssertUnwindSafe(|| run(&line))) {
            Ok(r) => r,
            Err(_) => "CASEPANIC".into(),
        };
        writeln!(w, "{r}").unwrap();
    }
    w.flush().unwrap();
}
