//! C16 — tags resolve through the directives in force for their document.
//!
//! Same line protocol as `hx events str` (one case per stdin line = space-separated decimal code
//! points, one canonical event line per case on stdout, panics caught per case), but the parser is
//! built with the `keep_tags` option:      hx_c16 <0|1>
//!
//!   0   Parser::new_from_str(s).keep_tags(false)     (the default: %TAG declarations end with their document)
//!   1   Parser::new_from_str(s).keep_tags(true)      (declarations persist, later ones override)
#[path = "../common.rs"]
#[allow(dead_code)]
mod common;

use std::io::{BufRead, Write};

use saphyr_parser::Parser;

fn events(s: &str, keep: bool) -> String {
    let mut v = vec![];
    let mut fin = "OK".to_string();
    for x in Parser::new_from_str(s).keep_tags(keep) {
        match x {
            Ok((e, sp)) => v.push(common::ev(&e, &sp)),
            Err(e) => {
                fin = common::err(&e);
                break;
            }
        }
    }
    format!("{}|{}", v.join(";"), fin)
}

fn main() {
    let args: Vec<String> = std::env::args().collect();
    if args.len() < 2 || !(args[1] == "0" || args[1] == "1") {
        eprintln!("usage: hx_c16 <0|1> < cases > results");
        std::process::exit(2);
    }
    let keep = args[1] == "1";
    std::panic::set_hook(Box::new(|_| {}));
    let stdin = std::io::stdin();
    let stdout = std::io::stdout();
    let mut out = std::io::BufWriter::with_capacity(1 << 20, stdout.lock());
    for line in stdin.lock().lines() {
        let line = line.unwrap();
        let res = match common::decode(&line) {
            Some(s) => common::guard(move || events(&s, keep)),
            None => "|BADCASE".into(),
        };
        out.write_all(res.as_bytes()).unwrap();
        out.write_all(b"\n").unwrap();
    }
    out.flush().unwrap();
}
