//! C18 harness: `YamlDecoder::decode` on raw bytes under every decoding trap, with a watchdog.
//!
//! usage: hx_c18 <mode> [<mode> ...] < cases > results
//!
//! Case line = space-separated decimal numbers (empty line = empty input).  For the decoding modes the
//! numbers are BYTES; for the mode `text` they are Unicode scalar values and the text is loaded directly
//! with `Yaml::load_from_str` (the function `decode` itself ends with).
//!
//! modes: strict | ignore | replace | call-continue (callback pushes U+FFFD and continues)
//!        | call-ignore (callback does nothing and continues) | call-break (callback breaks, empty message)
//!        | call-breakmsg (callback breaks with the message "custom") | text
//!
//! One result line per case; with several modes the results are separated by a TAB, in the order of the
//! arguments.  Result of one mode:
//!   OK <dump of docs>        same node dump as `hx load yaml eager`, documents separated by " ; "
//!   DECODEERR <msg>          LoadError::Decode
//!   SCANERR ERR@i:l:c#msg    LoadError::Scan (same rendering as `hx`)
//!   IOERR <msg>              LoadError::IO (cannot happen for a byte slice)
//!   PANIC#<msg>              a panic escaped from decode (caught per case)
//!   TIMEOUT                  decode did not return within WATCHDOG_MS (default 5000; env HX_C18_WATCHDOG_MS)
//!   NOTRUN                   not executed because an earlier decode hangs (a spinning thread cannot be
//!                            killed: the process prints NOTRUN for everything that follows and exits)
//! The callback modes append " cb=<n>:<len>,<after>,<rest>;..." — the arguments of the first 4 callback
//! invocations (rest = length of `input_at_malformation`) and the number n of invocations.
//!
//! Observation modes (the tie of the decoder models of coq/Model/Decoders.v): the callback records EVERY
//! invocation together with the output String it is handed,
//!        obs-ignore (continue) | obs-replace (push U+FFFD, continue) | obs-break | obs-breakmsg
//!        | obs-shrink<K> (output.shrink_to(output.len() + K), continue: the next decoder call starts with
//!          exactly K spare bytes, so what fits before OutputFull shows in the capacity seen next time)
//! and the result is followed by " obs=<n>:<len>,<after>,<rest>,<cap>,<delta>;..." with one entry per
//! invocation: cap = output.capacity(), delta = the characters (code points joined by '.') the output has
//! gained since the previous invocation returned ("!<whole text>" if it is not an extension).
#[path = "../common.rs"]
#[allow(dead_code)]
mod common;

use std::borrow::Cow;
use std::cell::RefCell;
use std::io::{BufRead, Write};
use std::ops::ControlFlow;
use std::sync::mpsc;
use std::time::Duration;

use saphyr::{LoadableYamlNode, Scalar, YAMLDecodingTrap, Yaml, YamlDecoder};

// ---------------------------------------------------------------------------------------------
// node dump (copied from harness/src/modes.rs: `impl Dump for Yaml`)
// ---------------------------------------------------------------------------------------------
fn canon_bits(f: f64) -> u64 {
    if f.is_nan() {
        0x7ff8_0000_0000_0000
    } else {
        f.to_bits()
    }
}
fn scalar_dump(s: &Scalar) -> String {
    match s {
        Scalar::Null => "N".into(),
        Scalar::Boolean(b) => format!("B{}", u8::from(*b)),
        Scalar::Integer(i) => format!("I{}0x{:x}", if *i < 0 { "-" } else { "" }, i.unsigned_abs()),
        Scalar::FloatingPoint(f) => format!("F{:016x}", canon_bits(f.0)),
        Scalar::String(s) => format!("S{}", common::cps(s)),
    }
}
fn dump(y: &Yaml) -> String {
    match y {
        Yaml::Value(s) => scalar_dump(s),
        Yaml::Representation(v, st, t) => format!("R{},{},{}", common::sty(*st), common::tag(t), common::cps(v)),
        Yaml::Sequence(v) => format!("Q[{}]", v.iter().map(dump).collect::<Vec<_>>().join(",")),
        Yaml::Mapping(m) => format!(
            "M{{{}}}",
            m.iter().map(|(k, v)| format!("{}={}", dump(k), dump(v))).collect::<Vec<_>>().join(",")
        ),
        Yaml::Alias(i) => format!("A{i}"),
        Yaml::BadValue => "X".into(),
    }
}
fn docs_line(docs: &[Yaml]) -> String {
    format!("OK {}", docs.iter().map(dump).collect::<Vec<_>>().join(" ; "))
}

// ---------------------------------------------------------------------------------------------
// callbacks
// ---------------------------------------------------------------------------------------------
thread_local! {
    static CB_LOG: RefCell<(usize, Vec<(u8, u8, usize)>)> = const { RefCell::new((0, Vec::new())) };
}
fn cb_note(len: u8, after: u8, input: &[u8]) {
    CB_LOG.with(|l| {
        let mut l = l.borrow_mut();
        l.0 += 1;
        if l.1.len() < 4 {
            l.1.push((len, after, input.len()));
        }
    });
}
fn cb_continue(len: u8, after: u8, input: &[u8], output: &mut String) -> ControlFlow<Cow<'static, str>> {
    cb_note(len, after, input);
    output.push('\u{FFFD}');
    ControlFlow::Continue(())
}
fn cb_ignore(len: u8, after: u8, input: &[u8], _output: &mut String) -> ControlFlow<Cow<'static, str>> {
    cb_note(len, after, input);
    ControlFlow::Continue(())
}
fn cb_break(len: u8, after: u8, input: &[u8], _output: &mut String) -> ControlFlow<Cow<'static, str>> {
    cb_note(len, after, input);
    ControlFlow::Break(Cow::Borrowed(""))
}
fn cb_breakmsg(len: u8, after: u8, input: &[u8], _output: &mut String) -> ControlFlow<Cow<'static, str>> {
    cb_note(len, after, input);
    ControlFlow::Break(Cow::Borrowed("custom"))
}

thread_local! {
    static OBS: RefCell<(Vec<String>, String, usize)> = const { RefCell::new((Vec::new(), String::new(), 0)) };
}
fn obs_enter(len: u8, after: u8, input: &[u8], output: &String) {
    OBS.with(|o| {
        let mut o = o.borrow_mut();
        let delta = match output.strip_prefix(o.1.as_str()) {
            Some(d) => common::cps(d),
            None => format!("!{}", common::cps(output)),
        };
        o.0.push(format!("{len},{after},{},{},{delta}", input.len(), output.capacity()));
    });
}
fn obs_leave(output: &String) {
    OBS.with(|o| o.borrow_mut().1 = output.clone());
}
fn cb_obs_ignore(len: u8, after: u8, input: &[u8], output: &mut String) -> ControlFlow<Cow<'static, str>> {
    obs_enter(len, after, input, output);
    obs_leave(output);
    ControlFlow::Continue(())
}
fn cb_obs_replace(len: u8, after: u8, input: &[u8], output: &mut String) -> ControlFlow<Cow<'static, str>> {
    obs_enter(len, after, input, output);
    output.push('\u{FFFD}');
    obs_leave(output);
    ControlFlow::Continue(())
}
fn cb_obs_shrink(len: u8, after: u8, input: &[u8], output: &mut String) -> ControlFlow<Cow<'static, str>> {
    obs_enter(len, after, input, output);
    let k = OBS.with(|o| o.borrow().2);
    output.shrink_to(output.len() + k);
    obs_leave(output);
    ControlFlow::Continue(())
}
fn cb_obs_break(len: u8, after: u8, input: &[u8], output: &mut String) -> ControlFlow<Cow<'static, str>> {
    obs_enter(len, after, input, output);
    obs_leave(output);
    ControlFlow::Break(Cow::Borrowed(""))
}
fn cb_obs_breakmsg(len: u8, after: u8, input: &[u8], output: &mut String) -> ControlFlow<Cow<'static, str>> {
    obs_enter(len, after, input, output);
    obs_leave(output);
    ControlFlow::Break(Cow::Borrowed("custom"))
}

fn trap_of(mode: &str) -> Option<YAMLDecodingTrap> {
    if let Some(k) = mode.strip_prefix("obs-shrink") {
        let k: usize = k.parse().ok()?;
        OBS.with(|o| o.borrow_mut().2 = k);
        return Some(YAMLDecodingTrap::Call(cb_obs_shrink));
    }
    Some(match mode {
        "obs-ignore" => YAMLDecodingTrap::Call(cb_obs_ignore),
        "obs-replace" => YAMLDecodingTrap::Call(cb_obs_replace),
        "obs-break" => YAMLDecodingTrap::Call(cb_obs_break),
        "obs-breakmsg" => YAMLDecodingTrap::Call(cb_obs_breakmsg),
        "strict" => YAMLDecodingTrap::Strict,
        "ignore" => YAMLDecodingTrap::Ignore,
        "replace" => YAMLDecodingTrap::Replace,
        "call-continue" => YAMLDecodingTrap::Call(cb_continue),
        "call-ignore" => YAMLDecodingTrap::Call(cb_ignore),
        "call-break" => YAMLDecodingTrap::Call(cb_break),
        "call-breakmsg" => YAMLDecodingTrap::Call(cb_breakmsg),
        _ => return None,
    })
}

fn numbers(line: &str) -> Option<Vec<u32>> {
    let line = line.trim();
    if line.is_empty() {
        return Some(Vec::new());
    }
    line.split(' ').map(|x| x.parse::<u32>().ok()).collect()
}

fn run_mode(mode: &str, nums: &[u32]) -> String {
    if mode == "text" {
        let s: Option<String> = nums.iter().map(|&c| char::from_u32(c)).collect();
        let Some(s) = s else { return "BADCASE".into() };
        return common::guard(move || match Yaml::load_from_str(&s) {
            Ok(docs) => docs_line(&docs),
            Err(e) => format!("SCANERR {}", common::err(&e)),
        })
        .replace("|PANIC", "PANIC");
    }
    let Some(trap) = trap_of(mode) else { return "BADMODE".into() };
    if nums.iter().any(|&b| b > 255) {
        return "BADCASE".into();
    }
    let bytes: Vec<u8> = nums.iter().map(|&b| b as u8).collect();
    let is_cb = mode.starts_with("call-");
    let is_obs = mode.starts_with("obs-");
    CB_LOG.with(|l| *l.borrow_mut() = (0, Vec::new()));
    OBS.with(|o| {
        let mut o = o.borrow_mut();
        o.0.clear();
        o.1.clear();
    });
    let r = common::guard(move || {
        let mut dec = YamlDecoder::read(&bytes[..]);
        let res = match dec.encoding_trap(trap).decode() {
            Ok(docs) => docs_line(&docs),
            // `saphyr::loader::LoadError` is public but not re-exported: tell its variants apart through
            // `std::error::Error::source` (Scan -> ScanError, IO -> io::Error, Decode -> no source).
            Err(e) => {
                use std::error::Error;
                match e.source() {
                    None => format!("DECODEERR {}", common::msg(&e.to_string())),
                    Some(src) => match src.downcast_ref::<saphyr::ScanError>() {
                        Some(se) => format!("SCANERR {}", common::err(se)),
                        None => format!("IOERR {}", common::msg(&e.to_string())),
                    },
                }
            }
        };
        res
    })
    .replace("|PANIC", "PANIC");
    if is_cb {
        let (n, v) = CB_LOG.with(|l| l.borrow().clone());
        let args = v.iter().map(|(a, b, c)| format!("{a},{b},{c}")).collect::<Vec<_>>().join(";");
        format!("{r} cb={n}:{args}")
    } else if is_obs {
        let v = OBS.with(|o| o.borrow().0.clone());
        format!("{r} obs={}:{}", v.len(), v.join(";"))
    } else {
        r
    }
}

fn main() {
    let modes: Vec<String> = std::env::args().skip(1).collect();
    if modes.is_empty() {
        eprintln!("usage: hx_c18 <mode> [<mode> ...] < cases > results");
        std::process::exit(2);
    }
    std::panic::set_hook(Box::new(|_| {}));
    let watchdog = Duration::from_millis(
        std::env::var("HX_C18_WATCHDOG_MS").ok().and_then(|s| s.parse().ok()).unwrap_or(5000),
    );

    // One persistent worker; the main thread is the watchdog.
    let (job_tx, job_rx) = mpsc::channel::<(String, Vec<u32>)>();
    let (res_tx, res_rx) = mpsc::channel::<String>();
    std::thread::Builder::new()
        .stack_size(64 << 20)
        .spawn(move || {
            while let Ok((mode, nums)) = job_rx.recv() {
                let r = run_mode(&mode, &nums);
                if res_tx.send(r).is_err() {
                    break;
                }
            }
        })
        .unwrap();

    let stdin = std::io::stdin();
    let stdout = std::io::stdout();
    let mut out = std::io::BufWriter::with_capacity(1 << 20, stdout.lock());
    let mut hung = false;
    for line in stdin.lock().lines() {
        let line = line.unwrap();
        let mut results: Vec<String> = Vec::with_capacity(modes.len());
        if hung {
            results = modes.iter().map(|_| "NOTRUN".to_string()).collect();
        } else {
            match numbers(&line) {
                None => results = modes.iter().map(|_| "BADCASE".to_string()).collect(),
                Some(nums) => {
                    for m in &modes {
                        if hung {
                            results.push("NOTRUN".into());
                            continue;
                        }
                        job_tx.send((m.clone(), nums.clone())).unwrap();
                        match res_rx.recv_timeout(watchdog) {
                            Ok(r) => results.push(r),
                            Err(mpsc::RecvTimeoutError::Timeout) => {
                                results.push("TIMEOUT".into());
                                hung = true;
                            }
                            Err(mpsc::RecvTimeoutError::Disconnected) => {
                                results.push("PANIC#worker died".into());
                                hung = true;
                            }
                        }
                    }
                }
            }
        }
        out.write_all(results.join("\t").as_bytes()).unwrap();
        out.write_all(b"\n").unwrap();
    }
    out.flush().unwrap();
    drop(out);
    // A hung worker keeps spinning: leave without joining it.
    std::process::exit(0);
}
