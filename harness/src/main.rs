//! Correspondence harness: runs the real saphyr / saphyr-parser on cases read from stdin (one per
//! line) and prints one canonical result line per case.  The OCaml model driver prints the same
//! canonical lines from the extracted Coq model; `check` diffs them.
//!
//! Case encoding: a string is a space-separated list of decimal code points (empty line = "").
mod common;
mod inputs;
mod modes;

use std::io::{BufRead, Write};

fn main() {
    let args: Vec<String> = std::env::args().collect();
    if args.len() < 2 {
        eprintln!("usage: hx <mode> [args] < cases > results");
        std::process::exit(2);
    }
    // Silence panic messages: panics are caught per case and reported in the result line.
    std::panic::set_hook(Box::new(|_| {}));
    let mode = args[1].as_str();
    let rest: Vec<&str> = args[2..].iter().map(String::as_str).collect();
    let stdin = std::io::stdin();
    let stdout = std::io::stdout();
    let mut out = std::io::BufWriter::with_capacity(1 << 20, stdout.lock());
    for line in stdin.lock().lines() {
        let line = line.unwrap();
        let res = modes::run(mode, &rest, &line);
        out.write_all(res.as_bytes()).unwrap();
        out.write_all(b"\n").unwrap();
        // flush per case: when a case kills the process (stack overflow), everything before it has been delivered
        out.flush().unwrap();
    }
    out.flush().unwrap();
}
