//! One function per harness mode.
use crate::common::*;
use crate::inputs::{CapInput, Counting};
use saphyr::{LoadableYamlNode, MarkedYaml, MarkedYamlOwned, Scalar, ScalarOwned, Yaml, YamlData, YamlDataOwned, YamlOwned};
use saphyr_parser::{BufferedInput, Event, Input, Parser, Span, SpannedEventReceiver, StrInput};
use std::cell::Cell;
use std::rc::Rc;

pub fn run(mode: &str, args: &[&str], line: &str) -> String {
    match mode {
        "events" => with_str(line, |s| events(args[0], s)),
        "tokens" => with_str(line, tokens),
        "push" => with_str(line, |s| push_events(args[0], s)),
        "work" => with_str(line, |s| work(args[0], s)),
        "load" => with_str(line, |s| load(args[0], args.get(1).copied().unwrap_or("eager"), s)),
        "resolve" => with_str(line, resolve),
        "hist" => hist(args[0], line),
        "mix" => mix(args[0], line),
        "display" => with_str(line, display),
        _ => format!("|BADMODE {mode}"),
    }
}

fn with_str<F: FnOnce(&str) -> String + std::panic::UnwindSafe>(line: &str, f: F) -> String {
    match decode(line) {
        Some(s) => guard(move || f(&s)),
        None => "|BADCASE".into(),
    }
}

fn drain<I: Input>(p: Parser<'_, I>) -> String {
    let mut v = vec![];
    let mut fin = "OK".to_string();
    for x in p {
        match x {
            Ok((e, s)) => v.push(ev(&e, &s)),
            Err(e) => {
                fin = err(&e);
                break;
            }
        }
    }
    format!("{}|{}", v.join(";"), fin)
}

/// Run `f` on a parser over `s` built with the requested back-end.
macro_rules! with_parser {
    ($backend:expr, $s:expr, $p:ident => $body:expr) => {{
        let backend: &str = $backend;
        if backend == "str" {
            let $p = Parser::new_from_str($s);
            $body
        } else if backend == "iter" {
            let $p = Parser::new_from_iter($s.chars());
            $body
        } else if let Some(n) = backend.strip_prefix("cap") {
            let n: usize = n.parse().unwrap();
            let $p = Parser::new(CapInput::new($s.chars(), n));
            $body
        } else {
            panic!("bad backend")
        }
    }};
}

fn events(backend: &str, s: &str) -> String {
    with_parser!(backend, s, p => drain(p))
}

struct Collect(Vec<String>);
impl<'a> SpannedEventReceiver<'a> for Collect {
    fn on_event(&mut self, e: Event<'a>, s: Span) {
        self.0.push(ev(&e, &s));
    }
}

fn push_all<I: Input>(mut p: Parser<'_, I>, multi: bool) -> String {
    let mut c = Collect(vec![]);
    let mut fin = "OK".to_string();
    if multi {
        if let Err(e) = p.load(&mut c, true) {
            fin = err(&e);
        }
    } else {
        // one document per call until StreamEnd has been delivered
        let mut calls = 0usize;
        loop {
            calls += 1;
            match p.load(&mut c, false) {
                Err(e) => {
                    fin = err(&e);
                    break;
                }
                Ok(()) => {
                    if c.0.last().map_or(false, |l| l.starts_with("SE")) || calls > 100_000 {
                        break;
                    }
                }
            }
        }
    }
    format!("{}|{}", c.0.join(";"), fin)
}

fn push_events(spec: &str, s: &str) -> String {
    // spec: <backend>:multi | <backend>:single
    let (backend, m) = spec.split_once(':').unwrap();
    let multi = m == "multi";
    with_parser!(backend, s, p => push_all(p, multi))
}

fn work(spec: &str, s: &str) -> String {
    // number of primitive input calls for a full parse through a capacity-N input
    let n: usize = spec.strip_prefix("cap").unwrap().parse().unwrap();
    let calls = Rc::new(Cell::new(0u64));
    let p = Parser::new(Counting::new(CapInput::new(s.chars(), n), calls.clone()));
    let mut evs = 0u64;
    let mut fin = "OK";
    for x in p {
        match x {
            Ok(_) => evs += 1,
            Err(_) => {
                fin = "ERR";
                break;
            }
        }
    }
    format!("{}|{}|{}|{}", s.chars().count(), calls.get(), evs, fin)
}

fn tokens(s: &str) -> String {
    use saphyr_parser::{Scanner, TokenType as T};
    let mut sc = Scanner::new(StrInput::new(s));
    let mut v = vec![];
    let mut n = 0usize;
    loop {
        n += 1;
        if n > 10_000_000 {
            return "|SPIN".into();
        }
        match sc.next_token() {
            Ok(Some(t)) => {
                let b = match &t.1 {
                    T::StreamStart(_) => "SS".into(),
                    T::StreamEnd => "SE".into(),
                    T::VersionDirective(a, b) => format!("VD{a},{b}"),
                    T::TagDirective(h, p) => format!("TD{},{}", cps(h), cps(p)),
                    T::DocumentStart => "DS".into(),
                    T::DocumentEnd => "DE".into(),
                    T::BlockSequenceStart => "BSS".into(),
                    T::BlockMappingStart => "BMS".into(),
                    T::BlockEnd => "BE".into(),
                    T::FlowSequenceStart => "FSS".into(),
                    T::FlowSequenceEnd => "FSE".into(),
                    T::FlowMappingStart => "FMS".into(),
                    T::FlowMappingEnd => "FME".into(),
                    T::BlockEntry => "BEN".into(),
                    T::FlowEntry => "FEN".into(),
                    T::Key => "K".into(),
                    T::Value => "V".into(),
                    T::Alias(n) => format!("AL{}", cps(n)),
                    T::Anchor(n) => format!("AN{}", cps(n)),
                    T::Tag(h, s) => format!("TG{},{}", cps(h), cps(s)),
                    T::Scalar(st, v) => format!("SC{},{}", sty(*st), cps(v)),
                    #[allow(unreachable_patterns)]
                    _ => "??".into(),
                };
                v.push(format!("{b}{}", sp(&t.0)));
            }
            Ok(None) => return format!("{}|END", v.join(";")),
            Err(e) => return format!("{}|{}", v.join(";"), err(&e)),
        }
    }
}

// ---------------------------------------------------------------------------------------------
// Loaded-document dumps (same canonical form for the four node types).
// ---------------------------------------------------------------------------------------------
fn scalar_dump(s: &Scalar) -> String {
    match s {
        Scalar::Null => "N".into(),
        Scalar::Boolean(b) => format!("B{}", u8::from(*b)),
        Scalar::Integer(i) => format!("I{}0x{:x}", if *i < 0 { "-" } else { "" }, i.unsigned_abs()),
        Scalar::FloatingPoint(f) => format!("F{:016x}", canon_bits(f.0)),
        Scalar::String(s) => format!("S{}", cps(s)),
    }
}
fn scalar_owned_dump(s: &ScalarOwned) -> String {
    scalar_dump(&s.as_scalar())
}
pub fn canon_bits(f: f64) -> u64 {
    if f.is_nan() {
        0x7ff8_0000_0000_0000
    } else {
        f.to_bits()
    }
}
fn rep_dump(v: &str, st: saphyr_parser::ScalarStyle, t: &Option<saphyr_parser::Tag>) -> String {
    format!("R{},{},{}", sty(st), tag(t), cps(v))
}

pub trait Dump {
    fn dump(&self, spans: bool) -> String;
}
impl Dump for Yaml<'_> {
    fn dump(&self, _spans: bool) -> String {
        match self {
            Yaml::Value(s) => scalar_dump(s),
            Yaml::Representation(v, st, t) => rep_dump(v, *st, t),
            Yaml::Sequence(v) => format!("Q[{}]", v.iter().map(|x| x.dump(false)).collect::<Vec<_>>().join(",")),
            Yaml::Mapping(m) => format!(
                "M{{{}}}",
                m.iter().map(|(k, v)| format!("{}={}", k.dump(false), v.dump(false))).collect::<Vec<_>>().join(",")
            ),
            Yaml::Alias(i) => format!("A{i}"),
            Yaml::BadValue => "X".into(),
        }
    }
}
impl Dump for YamlOwned {
    fn dump(&self, _spans: bool) -> String {
        match self {
            YamlOwned::Value(s) => scalar_owned_dump(s),
            YamlOwned::Representation(v, st, t) => rep_dump(v, *st, t),
            YamlOwned::Sequence(v) => format!("Q[{}]", v.iter().map(|x| x.dump(false)).collect::<Vec<_>>().join(",")),
            YamlOwned::Mapping(m) => format!(
                "M{{{}}}",
                m.iter().map(|(k, v)| format!("{}={}", k.dump(false), v.dump(false))).collect::<Vec<_>>().join(",")
            ),
            YamlOwned::Alias(i) => format!("A{i}"),
            YamlOwned::BadValue => "X".into(),
        }
    }
}
impl Dump for MarkedYaml<'_> {
    fn dump(&self, spans: bool) -> String {
        let b = match &self.data {
            YamlData::Value(s) => scalar_dump(s),
            YamlData::Representation(v, st, t) => rep_dump(v, *st, t),
            YamlData::Sequence(v) => format!("Q[{}]", v.iter().map(|x| x.dump(spans)).collect::<Vec<_>>().join(",")),
            YamlData::Mapping(m) => format!(
                "M{{{}}}",
                m.iter().map(|(k, v)| format!("{}={}", k.dump(spans), v.dump(spans))).collect::<Vec<_>>().join(",")
            ),
            YamlData::Alias(i) => format!("A{i}"),
            YamlData::BadValue => "X".into(),
        };
        if spans { format!("{b}{}", sp(&self.span)) } else { b }
    }
}
impl Dump for MarkedYamlOwned {
    fn dump(&self, spans: bool) -> String {
        let b = match &self.data {
            YamlDataOwned::Value(s) => scalar_owned_dump(s),
            YamlDataOwned::Representation(v, st, t) => rep_dump(v, *st, t),
            YamlDataOwned::Sequence(v) => format!("Q[{}]", v.iter().map(|x| x.dump(spans)).collect::<Vec<_>>().join(",")),
            YamlDataOwned::Mapping(m) => format!(
                "M{{{}}}",
                m.iter().map(|(k, v)| format!("{}={}", k.dump(spans), v.dump(spans))).collect::<Vec<_>>().join(",")
            ),
            YamlDataOwned::Alias(i) => format!("A{i}"),
            YamlDataOwned::BadValue => "X".into(),
        };
        if spans { format!("{b}{}", sp(&self.span)) } else { b }
    }
}

fn load_as<'a, N: LoadableYamlNode<'a> + Dump>(s: &'a str, early: bool, spans: bool, post: impl Fn(&mut N)) -> String {
    let mut parser = Parser::new(StrInput::new(s));
    let mut loader = saphyr::YamlLoader::<N>::default();
    loader.early_parse(early);
    match parser.load(&mut loader, true) {
        Ok(()) => {
            let mut docs = loader.into_documents();
            for d in &mut docs {
                post(d);
            }
            format!("OK {}", docs.iter().map(|d| d.dump(spans)).collect::<Vec<_>>().join(" ; "))
        }
        Err(e) => err(&e),
    }
}

/// `load <nodetype> <eager|deferred|resolved>[+spans]`
fn load(node: &str, how: &str, s: &str) -> String {
    let (how, spans) = match how.strip_suffix("+spans") {
        Some(h) => (h, true),
        None => (how, false),
    };
    let early = how == "eager";
    let resolve = how == "resolved";
    match node {
        "yaml" => load_as::<Yaml>(s, early, spans, |d| {
            if resolve {
                d.parse_representation_recursive();
            }
        }),
        "owned" => load_as::<YamlOwned>(s, early, spans, |d| {
            if resolve {
                d.parse_representation_recursive();
            }
        }),
        "marked" => load_as::<MarkedYaml>(s, early, spans, |d| {
            if resolve {
                d.data.parse_representation_recursive();
            }
        }),
        "markedowned" => load_as::<MarkedYamlOwned>(s, early, spans, |d| {
            if resolve {
                d.data.parse_representation_recursive();
            }
        }),
        _ => "|BADNODE".into(),
    }
}

// ---------------------------------------------------------------------------------------------
// C08: scalar resolution under every (style, tag) configuration of interest
// ---------------------------------------------------------------------------------------------
pub const CORE: &str = "tag:yaml.org,2002:";
fn resolve_configs() -> Vec<(saphyr_parser::ScalarStyle, Option<saphyr_parser::Tag>)> {
    use saphyr_parser::{ScalarStyle as S, Tag};
    let t = |h: &str, s: &str| Some(Tag { handle: h.to_string(), suffix: s.to_string() });
    vec![
        (S::Plain, None),
        (S::Plain, t(CORE, "int")),
        (S::Plain, t(CORE, "float")),
        (S::Plain, t(CORE, "bool")),
        (S::Plain, t(CORE, "null")),
        (S::Plain, t(CORE, "str")),
        (S::Plain, t("!", "foo")),
        (S::SingleQuoted, None),
        (S::DoubleQuoted, None),
        (S::Literal, None),
        (S::Folded, None),
        (S::DoubleQuoted, t(CORE, "int")),
        (S::Plain, t(CORE, "binary")),
    ]
}
fn resolve(s: &str) -> String {
    use std::borrow::Cow;
    let mut out = vec![];
    let mut flags = vec![];
    for (i, (st, tg)) in resolve_configs().into_iter().enumerate() {
        let a = Scalar::parse_from_cow_and_metadata(Cow::Borrowed(s), st, tg.as_ref());
        let b = ScalarOwned::parse_from_cow_and_metadata(Cow::Borrowed(s), st, tg.as_ref());
        let da = a.as_ref().map_or("X".to_string(), scalar_dump);
        let db = b.as_ref().map_or("X".to_string(), scalar_owned_dump);
        if da != db {
            flags.push(format!("owned{i}"));
        }
        // borrowed -> owned -> borrowed round trip preserves the scalar
        if let Some(a) = &a {
            let o = a.clone().into_owned();
            if scalar_dump(&o.as_scalar()) != da || o.as_scalar() != *a {
                flags.push(format!("roundtrip{i}"));
            }
        }
        let y = Yaml::value_from_cow_and_metadata(Cow::Borrowed(s), st, tg.as_ref());
        if y.dump(false) != da {
            flags.push(format!("yaml{i}"));
        }
        if i == 0 {
            if scalar_dump(&Scalar::parse_from_cow(Cow::Borrowed(s))) != da {
                flags.push("fromcow".into());
            }
            if scalar_owned_dump(&ScalarOwned::parse_from_cow(Cow::Borrowed(s))) != da {
                flags.push("fromcowowned".into());
            }
            if Yaml::value_from_str(s).dump(false) != da {
                flags.push("valuefromstr".into());
            }
        }
        out.push(da);
    }
    format!("{};{}", out.join("|"), if flags.is_empty() { "ok".to_string() } else { flags.join(",") })
}

// ---------------------------------------------------------------------------------------------
// C17: a history of peek (P) / next (N) calls; case line = "<PN pattern>#<code points>"
// ---------------------------------------------------------------------------------------------
fn hist_run<I: Input>(mut p: Parser<'_, I>, pat: &str) -> String {
    let mut out = vec![];
    for c in pat.chars() {
        let r = match c {
            'P' => match p.peek() {
                None => "NONE".to_string(),
                Some(Ok((e, s))) => ev(e, s),
                Some(Err(e)) => err(&e),
            },
            _ => match p.next_event() {
                None => "NONE".to_string(),
                Some(Ok((e, s))) => ev(&e, &s),
                Some(Err(e)) => err(&e),
            },
        };
        let stop = r.starts_with("ERR@");
        out.push(r);
        if stop {
            break;
        }
    }
    out.join(";")
}
// mixed histories: P peek, N next, L load(multi = true), l load(multi = false); one result per call, ';'-separated;
// a load call reports "L[<events pushed, ','-separated>|OK or ERR@...]".  The run goes on after an error (a consumer that
// keeps calling must still not be able to crash the process); at most 64 calls.
fn mix_run<I: Input>(mut p: Parser<'_, I>, pat: &str) -> String {
    let mut out = vec![];
    for c in pat.chars().take(64) {
        let r = match c {
            'P' => match p.peek() {
                None => "NONE".to_string(),
                Some(Ok((e, s))) => ev(e, s),
                Some(Err(e)) => err(&e),
            },
            'N' => match p.next_event() {
                None => "NONE".to_string(),
                Some(Ok((e, s))) => ev(&e, &s),
                Some(Err(e)) => err(&e),
            },
            _ => {
                let mut c2 = Collect(vec![]);
                let fin = match p.load(&mut c2, c == 'L') {
                    Ok(()) => "OK".to_string(),
                    Err(e) => err(&e),
                };
                format!("{}[{}|{}]", c, c2.0.join(","), fin)
            }
        };
        out.push(r);
    }
    out.join(";")
}
fn mix(backend: &str, line: &str) -> String {
    let Some((pat, cpsline)) = line.split_once('#') else { return "|BADCASE".into() };
    let Some(s) = decode(cpsline) else { return "|BADCASE".into() };
    let pat = pat.to_string();
    let backend = backend.to_string();
    guard(move || with_parser!(backend.as_str(), s.as_str(), p => mix_run(p, &pat)))
}

fn hist(backend: &str, line: &str) -> String {
    let Some((pat, cpsline)) = line.split_once('#') else { return "|BADCASE".into() };
    let Some(s) = decode(cpsline) else { return "|BADCASE".into() };
    let pat = pat.to_string();
    let backend = backend.to_string();
    guard(move || with_parser!(backend.as_str(), s.as_str(), p => hist_run(p, &pat)))
}

/// C12: the printed form of the first error (or OK)
fn display(s: &str) -> String {
    for x in Parser::new_from_str(s) {
        if let Err(e) = x {
            return format!("{}#{}", mk(e.marker()), msg(&format!("{e}")));
        }
    }
    "OK".into()
}
