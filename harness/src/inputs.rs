//! Contract-conforming test inputs: a buffered input of arbitrary capacity that panics whenever
//! the scanner breaks the lookahead contract, and a wrapper counting the calls made to an input.
use saphyr_parser::Input;
use std::cell::Cell;
use std::collections::VecDeque;
use std::rc::Rc;

pub struct CapInput<T: Iterator<Item = char>> {
    input: T,
    buffer: VecDeque<char>,
    cap: usize,
}
impl<T: Iterator<Item = char>> CapInput<T> {
    pub fn new(input: T, cap: usize) -> Self {
        Self { input, buffer: VecDeque::new(), cap }
    }
}
fn is_breakz(c: char) -> bool {
    c == '\n' || c == '\r' || c == '\0'
}
impl<T: Iterator<Item = char>> Input for CapInput<T> {
    fn lookahead(&mut self, count: usize) {
        if self.buffer.len() >= count {
            return;
        }
        assert!(count <= self.cap, "lookahead beyond capacity");
        for _ in 0..(count - self.buffer.len()) {
            self.buffer.push_back(self.input.next().unwrap_or('\0'));
        }
    }
    fn buflen(&self) -> usize {
        self.buffer.len()
    }
    fn bufmaxlen(&self) -> usize {
        self.cap
    }
    fn raw_read_ch(&mut self) -> char {
        self.input.next().unwrap_or('\0')
    }
    fn raw_read_non_breakz_ch(&mut self) -> Option<char> {
        if let Some(c) = self.input.next() {
            if is_breakz(c) {
                assert!(self.buffer.len() < self.cap, "push_back beyond capacity");
                self.buffer.push_back(c);
                None
            } else {
                Some(c)
            }
        } else {
            None
        }
    }
    fn skip(&mut self) {
        self.buffer.pop_front();
    }
    fn skip_n(&mut self, count: usize) {
        assert!(count <= self.buffer.len(), "skip_n beyond buffer");
        self.buffer.drain(0..count);
    }
    fn peek(&self) -> char {
        self.buffer[0]
    }
    fn peek_nth(&self, n: usize) -> char {
        self.buffer[n]
    }
}

/// Counts every primitive call the scanner makes to the wrapped input.
pub struct Counting<I: Input> {
    inner: I,
    pub calls: Rc<Cell<u64>>,
}
impl<I: Input> Counting<I> {
    pub fn new(inner: I, calls: Rc<Cell<u64>>) -> Self {
        Self { inner, calls }
    }
    fn tick(&self) {
        self.calls.set(self.calls.get() + 1);
    }
}
impl<I: Input> Input for Counting<I> {
    fn lookahead(&mut self, count: usize) {
        self.tick();
        self.inner.lookahead(count);
    }
    fn buflen(&self) -> usize {
        self.inner.buflen()
    }
    fn bufmaxlen(&self) -> usize {
        self.inner.bufmaxlen()
    }
    fn raw_read_ch(&mut self) -> char {
        self.tick();
        self.inner.raw_read_ch()
    }
    fn raw_read_non_breakz_ch(&mut self) -> Option<char> {
        self.tick();
        self.inner.raw_read_non_breakz_ch()
    }
    fn skip(&mut self) {
        self.tick();
        self.inner.skip();
    }
    fn skip_n(&mut self, count: usize) {
        self.tick();
        self.inner.skip_n(count);
    }
    fn peek(&self) -> char {
        self.tick();
        self.inner.peek()
    }
    fn peek_nth(&self, n: usize) -> char {
        self.tick();
        self.inner.peek_nth(n)
    }
}
