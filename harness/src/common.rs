//! Canonical text forms shared by all modes.
use saphyr_parser::{Event, Marker, ScalarStyle, Span, Tag};

pub fn decode(line: &str) -> Option<String> {
    let line = line.trim();
    if line.is_empty() {
        return Some(String::new());
    }
    line.split(' ')
        .map(|x| x.parse::<u32>().ok().and_then(char::from_u32))
        .collect()
}
pub fn cps(s: &str) -> String {
    s.chars()
        .map(|c| (c as u32).to_string())
        .collect::<Vec<_>>()
        .join(".")
}
pub fn mk(m: &Marker) -> String {
    format!("{}:{}:{}", m.index(), m.line(), m.col())
}
pub fn sp(s: &Span) -> String {
    format!("@{}-{}", mk(&s.start), mk(&s.end))
}
pub fn tag(t: &Option<Tag>) -> String {
    match t {
        None => "-".into(),
        Some(t) => format!("h={}/s={}", cps(&t.handle), cps(&t.suffix)),
    }
}
pub fn sty(s: ScalarStyle) -> &'static str {
    match s {
        ScalarStyle::Plain => "P",
        ScalarStyle::SingleQuoted => "S",
        ScalarStyle::DoubleQuoted => "D",
        ScalarStyle::Literal => "L",
        ScalarStyle::Folded => "F",
    }
}
pub fn ev(e: &Event, s: &Span) -> String {
    let b = match e {
        Event::StreamStart => "SS".into(),
        Event::StreamEnd => "SE".into(),
        Event::DocumentStart(x) => format!("DS{}", u8::from(*x)),
        Event::DocumentEnd => "DE".into(),
        Event::Alias(i) => format!("AL{i}"),
        Event::Scalar(v, st, a, t) => format!("SC{},{},{},{}", sty(*st), a, tag(t), cps(v)),
        Event::SequenceStart(a, t) => format!("QS{},{}", a, tag(t)),
        Event::SequenceEnd => "QE".into(),
        Event::MappingStart(a, t) => format!("MS{},{}", a, tag(t)),
        Event::MappingEnd => "ME".into(),
        Event::Nothing => "NOTHING".into(),
    };
    format!("{b}{}", sp(s))
}
/// Message texts may contain any character; keep them on one line and free of our separators.
pub fn msg(s: &str) -> String {
    s.chars()
        .map(|c| if c == '|' || c == ';' || c == '\n' || c == '\r' { '_' } else { c })
        .collect()
}
pub fn err(e: &saphyr_parser::ScanError) -> String {
    format!("ERR@{}#{}", mk(e.marker()), msg(e.info()))
}
pub fn guard<F: FnOnce() -> String + std::panic::UnwindSafe>(f: F) -> String {
    match std::panic::catch_unwind(f) {
        Ok(s) => s,
        Err(p) => {
            let m = if let Some(s) = p.downcast_ref::<&str>() {
                (*s).to_string()
            } else if let Some(s) = p.downcast_ref::<String>() {
                s.clone()
            } else {
                "?".into()
            };
            format!("|PANIC#{}", msg(&m))
        }
    }
}
