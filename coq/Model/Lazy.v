(* The LAZY pipeline: parser.rs drives scanner.rs on demand.

   Model/Pipe.v is the BATCH pipeline: the scanner runs to the end ([scan_all]), then the parser consumes the token
   list.  The implementation is lazy: Parser::peek_token calls Scanner::next (via scan_next_token) only when the
   one-token cache [token] is empty, and the scanner itself runs ahead of the tokens it hands out only as far as the
   simple-key logic requires (fetch_more_tokens).  What the scanner has done at a given moment of the parse - whether it
   has handed out StreamEnd ([stream_ended()]), where its mark stands ([mark()]) - is visible to Parser::load and is
   erased by the batch pipeline.

   State of the lazy pipeline: the scanner state [sc strin] and the parser's own state.  The parser's state is the
   record [Parser.parser]; its field [p_toks] - "tokens the scanner will still deliver" in the batch reading - is here
   the list of tokens pulled from the scanner during the current step and not yet looked at; it is EMPTY between steps
   (Proofs/LazyRead.v [step_lean], Proofs/LazyLoad.v [lazy_step_LInv]: the parser holds one token, the cache, and
   nothing else; a full cache is the last token the scanner handed out).

   The 21 state functions of Model/Parser.v are reused as they are.  They read tokens only through [Parser.peek],
   which fails with [PErrScan] exactly when it is called with an empty cache and an empty [p_toks]: the very moment at
   which Parser::peek_token calls scan_next_token.  [lazy_sm] therefore runs [state_machine]; when it stops with
   [PErrScan] the scanner is asked for ONE token ([scan_next_token]), the token is appended and the step is run again
   from the same parser state.  The state machine is a function, so the re-run takes the same path up to the point
   where it stopped and goes on with the new token: the scanner is called exactly once per peek_token that finds
   nothing, in the same order, as in the implementation.  ([state_machine_reads], Proofs/LazyRead.v: a step reads a
   prefix of its token list and nothing else; hence no token is pulled that the step does not look at.) *)
From Coq Require Import List NArith ZArith Bool.
Import ListNotations.
Require Import Parser SBase SPrim SDir SScalar SFetch Pipe PushLoad.
Local Open Scope nat_scope.

Record lz := { lz_sc : sc strin; lz_p : parser }.

(* Parser::scan_next_token: Scanner::next, a scanner error is the parser's error, None is "unexpected eof" (the
   position of that error is not modelled: Pipe.parse_all reports it at 0,0,0 as well) *)
Definition scan_next_token (F : nat) (s : sc strin) : (token * sc strin) + pend :=
  match next_token str_ops F s with
  | SBase.Ok (Some t, s') => inl (t, s')
  | SBase.Ok (None, _) => inr (PScanErr 0 {| m_index := 0; m_line := 0; m_col := 0 |})
  | SBase.Err e m => inr (PScanErr e m)
  | SBase.Panic n => inr (PPanic n)
  | SBase.OutOfFuel => inr PFuel
  end.

(* one more pulled token behind those already pulled in this step *)
Definition feed (t : token) (p : parser) : parser := set_tok p (p_toks p ++ [t]) (p_token p).

(* Parser::state_machine with peek_token pulling from the scanner.  [k]: bound on the tokens pulled in one step *)
Fixpoint lazy_sm (k : nat) (F : nat) (s : sc strin) (p : parser) : ((event * span) * lz) + pend :=
  match state_machine p with
  | Parser.Ok (ev, p') => inl (ev, {| lz_sc := s; lz_p := p' |})
  | Parser.Err PErrScan =>
      match k with
      | O => inr PFuel
      | S k => match scan_next_token F s with
               | inl (t, s') => lazy_sm k F s' (feed t p)
               | inr e => inr e
               end
      end
  | Parser.Err (PErr site m) => inr (PParseErr site m)
  | Parser.Panic n => inr (PPanic n)
  end.

Definition lazy_step (k F : nat) (z : lz) : ((event * span) * lz) + pend := lazy_sm k F (lz_sc z) (lz_p z).

(* Parser::parse (= next_event_impl when nothing has been peeked): once the state is End it answers StreamEnd at the
   scanner's mark, again and again *)
Definition lazy_parse (k F : nat) (z : lz) : ((event * span) * lz) + pend :=
  match p_state (lz_p z) with
  | SEnd => inl ((EStreamEnd, span_empty (sc_mark (lz_sc z))), z)
  | _ => lazy_step k F z
  end.

(* plain iteration (Iterator::next until StreamEnd or the first error), with the step budget of Pipe.parse_all *)
Fixpoint lazy_run (fuel k F : nat) (z : lz) (acc : list (event * span)) : list (event * span) * pend :=
  match fuel with
  | O => (rev acc, PFuel)
  | S fuel =>
    match p_state (lz_p z) with
    | SEnd => (rev acc, PDone)
    | _ => match lazy_step k F z with
           | inl (ev, z') => lazy_run fuel k F z' (ev :: acc)
           | inr e => (rev acc, e)
           end
    end
  end.

Definition lz_init (s : list N) (keep : bool) : lz :=
  {| lz_sc := init_sc {| si_chars := s; si_look := 0 |};
     lz_p := {| p_toks := []; p_token := None; p_states := []; p_state := SStreamStart;
                p_anchors := []; p_anchor_id := 1%N; p_tags := []; p_keep_tags := keep |} |}.

(* the fuels of Pipe.run_str: F for every character-level loop, at most 4 * F + 20 tokens, 4 * tokens + 40 steps *)
Definition lazy_F (s : list N) : nat := 2 * length s + 10.
Definition lazy_K (s : list N) : nat := 4 * lazy_F s + 21.
Definition lazy_run_str (s : list N) : list (event * span) * pend :=
  lazy_run (4 * (4 * lazy_F s + 20) + 40) (lazy_K s) (lazy_F s) (lz_init s false) [].

(* ---------------------------------------------------------------------------------------------------------------
   Parser::load(recv, multi = false) on the lazy pipeline.

   load reads three things of the scanner: stream_started() = [sc_stream_start] (set by fetch_stream_start),
   stream_ended() = [sc_stream_end] (set by next_token when it hands out the StreamEnd token) and mark() = [sc_mark].
   The receiver is the list of pushed events, newest first.  [current] (the event look-ahead of Parser::peek) is
   empty throughout: load is the only entry point used, so next_event_impl is Parser::parse.
   [ev], [is_seq_end], ... : Model/PushLoad.v. *)
Inductive lzout :=
| ZDone (pushed : list ev) (z : lz)            (* Ok(()) *)
| ZFail (e : pend) (pushed : list ev)          (* Err(e): the iteration's error, or one of load's own (sites 100, 101) *)
| ZPanicked (site : N) (pushed : list ev)      (* unreachable!() / assert_eq! *)
| ZOutOfFuel.

Section Load.
Variables k F : nat.

Fixpoint lz_load_node (fuel : nat) (first : ev) (z : lz) (acc : list ev) {struct fuel} : lzout :=
  match fuel with
  | O => ZOutOfFuel
  | S f =>
    match fst first with
    | EAlias _ | EScalar _ _ _ _ => ZDone (first :: acc) z
    | ESequenceStart _ _ => lz_load_sequence f z (first :: acc)
    | EMappingStart _ _ => lz_load_mapping f z (first :: acc)
    | _ => ZPanicked 1 acc
    end
  end
with lz_load_sequence (fuel : nat) (z : lz) (acc : list ev) {struct fuel} : lzout :=
  match fuel with
  | O => ZOutOfFuel
  | S f =>
    match lazy_parse k F z with
    | inr e => ZFail e acc
    | inl (x, z1) =>
        if is_seq_end x then ZDone (x :: acc) z1
        else match lz_load_node f x z1 acc with
             | ZDone acc' z2 => lz_load_sequence f z2 acc'
             | o => o
             end
    end
  end
with lz_load_mapping (fuel : nat) (z : lz) (acc : list ev) {struct fuel} : lzout :=
  match fuel with
  | O => ZOutOfFuel
  | S f =>
    match lazy_parse k F z with
    | inr e => ZFail e acc
    | inl (key, z1) =>
        if is_map_end key then ZDone (key :: acc) z1
        else match lz_load_node f key z1 acc with
             | ZDone acc' z2 =>
                 match lazy_parse k F z2 with
                 | inr e => ZFail e acc'
                 | inl (v, z3) =>
                     match lz_load_node f v z3 acc' with
                     | ZDone acc'' z4 => lz_load_mapping f z4 acc''
                     | o => o
                     end
                 end
             | o => o
             end
    end
  end.

(* load_document: the first event has been read by the caller *)
Definition lz_load_document (fuel : nat) (first : ev) (z : lz) (acc : list ev) : lzout :=
  if negb (is_doc_start first) then ZFail (PParseErr 100 (sp_start (snd first))) acc
  else
    match lazy_parse k F z with
    | inr e => ZFail e (first :: acc)
    | inl (n, z1) =>
        match lz_load_node fuel n z1 (first :: acc) with
        | ZDone acc' z2 =>
            match lazy_parse k F z2 with
            | inr e => ZFail e acc'
            | inl (d, z3) => if is_doc_end d then ZDone (d :: acc') z3 else ZPanicked 2 acc'
            end
        | o => o
        end
    end.

(* load(recv, false) after the stream-start part: the stream_ended() shortcut, else one document (or StreamEnd) *)
Definition lz_load_rest (fuel : nat) (z : lz) (acc : list ev) : lzout :=
  if sc_stream_end (lz_sc z)
  then ZDone ((EStreamEnd, span_empty (sc_mark (lz_sc z))) :: acc) z          (* the stream_ended() shortcut *)
  else match lazy_parse k F z with
       | inr e => ZFail e acc
       | inl (x, z1) =>
           if is_stream_end x then ZDone (x :: acc) z1
           else lz_load_document fuel x z1 acc                                (* multi = false: one document *)
       end.

(* one call of load(recv, false) *)
Definition lz_load_single (fuel : nat) (z : lz) (acc : list ev) : lzout :=
  if sc_stream_start (lz_sc z) then lz_load_rest fuel z acc
  else match lazy_parse k F z with
       | inr e => ZFail e acc
       | inl (x, z1) =>
           if negb (is_stream_start x) then ZFail (PParseErr 101 (sp_start (snd x))) acc
           else lz_load_rest fuel z1 (x :: acc)
       end.

(* the driver of harness/src/modes.rs push_all (mode single): call load(recv, false) until an error, or until the
   last event delivered is StreamEnd.  Result: what each call delivered (in order), and the verdict *)
Fixpoint lz_load_repeated (calls fuel : nat) (z : lz) (segs : list (list ev)) : list (list ev) * pend :=
  match calls with
  | O => (rev segs, PFuel)
  | S calls =>
    match lz_load_single fuel z [] with
    | ZDone pushed z' =>
        match pushed with
        | x :: _ => if is_stream_end x then (rev (rev pushed :: segs), PDone)
                    else lz_load_repeated calls fuel z' (rev pushed :: segs)
        | [] => lz_load_repeated calls fuel z' ([] :: segs)
        end
    | ZFail e pushed => (rev (rev pushed :: segs), e)
    | ZPanicked n pushed => (rev (rev pushed :: segs), PPanic n)
    | ZOutOfFuel => (rev segs, PFuel)
    end
  end.
End Load.

Definition load_repeated_str (s : list N) : list (list ev) * pend :=
  let n := 4 * (4 * lazy_F s + 20) + 40 in
  lz_load_repeated (lazy_K s) (lazy_F s) (S n) (2 * n + 6) (lz_init s false) [].
