(* C16 — the whole pipeline (scanner model over the string back-end, then the parser model) with the
   keep_tags option of the parser; executable definitions only.  [run_str_keep false] is Pipe.run_str up to
   the fuel of the event loop (both are ample: the correspondence run compares them). *)
From Coq Require Import List NArith Bool.
Import ListNotations.
Require Import Parser SBase SFetch Pipe Drivers.

Definition run_str_keep (keep : bool) (s : list N) : list (event * span) * pend :=
  let '(toks, se) := scan_str s in parse_tokens toks se keep.

(* the tags of the node events, in order, and how the run ended *)
Definition tag_of_event (e : event) : option (option tag) :=
  match e with
  | EScalar _ _ _ tg => Some tg
  | ESequenceStart _ tg => Some tg
  | EMappingStart _ tg => Some tg
  | _ => None
  end.
Fixpoint node_tags (evs : list (event * span)) : list (option (list N * list N)) :=
  match evs with
  | [] => []
  | (e, _) :: r =>
      match tag_of_event e with
      | Some (Some tg) => Some (tg_handle tg, tg_suffix tg) :: node_tags r
      | Some None => None :: node_tags r
      | None => node_tags r
      end
  end.
Definition tags_of_run (keep : bool) (s : list N) : list (option (list N * list N)) * pend :=
  let r := run_str_keep keep s in (node_tags (fst r), snd r).
