(* Scratch prototype: scanner model, part 5 — token-level skeleton (fetch_*, next_token). *)
From Coq Require Import List NArith ZArith Bool.
Import ListNotations.
Require Import Parser SBase SPrim SDir SScalar.
Open Scope N_scope.
Open Scope mon_scope.

Section Fetch.
Context {I : Type} (ops : InputOps I).
Notation M := (@M I).
Variable F : nat.

Definition spn (a b : marker) : span := {| sp_start := a; sp_end := b |}.

Definition fetch_stream_start : M unit :=
  s <- get ;;
  let s := set_ss true (set_indent (-1)%Z (sc_indents s) s) in
  let s := set_ska true s in
  let s := set_tokens (sc_tokens s ++ [(span_empty (sc_mark s), TStreamStart)]) s in
  put (set_sks ({| sk_possible := false; sk_required := false; sk_token_number := 0; sk_mark := mk0 |} :: sc_sks s) s).

Definition fetch_stream_end : M unit :=
  modify (fun s => if m_col (sc_mark s) =? 0 then s
                   else set_mark {| m_index := m_index (sc_mark s); m_line := m_line (sc_mark s) + 1; m_col := 0 |} s) ;;;
  s <- get ;;
  if existsb (fun k => sk_required k && sk_possible k) (sc_sks s) then fail 90 (sc_mark s) else
  put (set_sks (map (fun k => {| sk_possible := false; sk_required := sk_required k;
                                 sk_token_number := sk_token_number k; sk_mark := sk_mark k |}) (sc_sks s)) s) ;;;
  unroll_indent (-1)%Z ;;;
  remove_simple_key ;;;
  disallow_simple_key ;;;
  m <- mark ;; push_tok (span_empty m, TStreamEnd).

Definition fetch_directive : M unit :=
  unroll_indent (-1)%Z ;;; remove_simple_key ;;; disallow_simple_key ;;;
  t <- scan_directive ops F ;; push_tok t.

Definition fetch_tag : M unit :=
  save_simple_key ;;; disallow_simple_key ;;; t <- scan_tag ops F ;; push_tok t.
Definition fetch_anchor (alias : bool) : M unit :=
  save_simple_key ;;; disallow_simple_key ;;; t <- scan_anchor ops F alias ;; push_tok t.

Definition fetch_flow_collection_start (seq : bool) : M unit :=
  save_simple_key ;;;
  roll_one_col_indent ;;;
  increase_flow_level ;;;
  allow_simple_key ;;;
  start <- mark ;;
  skip_non_blank ops ;;;
  modify (fun s => set_ifms ((if seq then ImPossible else ImMapping) :: sc_ifms s) s) ;;;
  skip_ws_to_eol ops F SkipYes ;;;
  m <- mark ;; push_tok (spn start m, if seq then TFlowSequenceStart else TFlowMappingStart).

(* a flow collection is closed by its own kind of bracket ('}' on an open '[': site 48, ']' on an open '{': site 47) *)
Definition check_flow_closer (seq : bool) : M unit :=
  s <- get ;;
  match sc_ifms s with
  | st :: _ =>
      let in_mapping := (match st with ImMapping => true | _ => false end) in
      if Bool.eqb in_mapping (negb seq) then ret tt
      else fail (if in_mapping then 47 else 48) (sc_mark s)
  | [] => ret tt
  end.

Definition fetch_flow_collection_end (seq : bool) : M unit :=
  check_flow_closer seq ;;;
  remove_simple_key ;;;
  decrease_flow_level ;;;
  disallow_simple_key ;;;
  (if seq then m <- mark ;; end_implicit_mapping m else ret tt) ;;;
  modify (fun s => set_ifms (tl (sc_ifms s)) s) ;;;
  start <- mark ;;
  skip_non_blank ops ;;;
  skip_ws_to_eol ops F SkipYes ;;;
  modify (fun s => if 0 <? sc_flow_level s then set_adj (m_index (sc_mark s)) s else s) ;;;
  m <- mark ;; push_tok (spn start m, if seq then TFlowSequenceEnd else TFlowMappingEnd).

Definition fetch_flow_entry : M unit :=
  remove_simple_key ;;; allow_simple_key ;;;
  m <- mark ;; end_implicit_mapping m ;;;
  skip_non_blank ops ;;;
  skip_ws_to_eol ops F SkipYes ;;;
  e <- mark ;; push_tok (spn m e, TFlowEntry).

Definition fetch_block_entry : M unit :=
  s <- get ;;
  if 0 <? sc_flow_level s then fail 91 (sc_mark s) else
  if negb (sc_ska s) then fail 92 (sc_mark s) else
  (match last (sc_tokens s) (span_empty mk0, TStreamEnd) with
   | (sp, TAnchor _) | (sp, TTag _ _) =>
       if (match sc_tokens s with [] => false | _ => true end)
          && (m_col (sc_mark s) =? 0) && (m_col (sp_start sp) =? 0) && (-1 <? sc_indent s)%Z
       then fail 93 (sp_start sp) else ret tt
   | _ => ret tt
   end) ;;;
  let mk := sc_mark s in
  skip_non_blank ops ;;;
  roll_indent (m_col mk) None TBlockSequenceStart mk ;;;
  tw <- skip_ws_to_eol ops F SkipYes ;;
  look ops 2 ;;;
  c <- peek ops ;; nc <- peekn ops 1 ;;
  if fst tw && (c =? 45) && is_blank_or_breakz nc then m <- mark ;; fail 94 m else
  skip_ws_to_eol ops F SkipNo ;;;
  look ops 1 ;;;
  c <- peek ops ;;
  (if is_break c || is_flow c then roll_one_col_indent else ret tt) ;;;
  remove_simple_key ;;; allow_simple_key ;;;
  m <- mark ;; push_tok (span_empty m, TBlockEntry).

Definition fetch_document_indicator (t : tok) : M unit :=
  unroll_indent (-1)%Z ;;; remove_simple_key ;;; disallow_simple_key ;;;
  m <- mark ;; skip_n_non_blank ops 3 ;;; e <- mark ;; push_tok (spn m e, t).

Definition fetch_block_scalar (literal : bool) : M unit :=
  save_simple_key ;;; allow_simple_key ;;; t <- scan_block_scalar ops F literal ;; push_tok t.

Definition fetch_flow_scalar (single : bool) : M unit :=
  save_simple_key ;;; disallow_simple_key ;;;
  t <- scan_flow_scalar ops F single ;;
  skip_to_next_token ops F ;;;
  modify (fun s => set_adj (m_index (sc_mark s)) s) ;;;
  push_tok t.

Definition fetch_plain_scalar : M unit :=
  save_simple_key ;;; disallow_simple_key ;;; t <- scan_plain_scalar ops F ;; push_tok t.

Definition fetch_key : M unit :=
  s <- get ;;
  let start := sc_mark s in
  (if sc_flow_level s =? 0 then
     if negb (sc_ska s) then fail 95 (sc_mark s)
     else roll_indent (m_col start) None TBlockMappingStart start
   else modify (fun s => match sc_ifms s with
                         | ImPossible :: r => set_ifms (ImInsideExplicitKey :: r) s
                         | _ => s end)) ;;;
  remove_simple_key ;;;
  (if sc_flow_level s =? 0 then allow_simple_key else disallow_simple_key) ;;;
  skip_non_blank ops ;;;
  skip_yaml_whitespace ops F ;;;
  c <- peek ops ;;
  if c =? 9 then m <- mark ;; fail 96 m else
  m <- mark ;; push_tok (spn start m, TKey).

Definition fetch_value : M unit :=
  s <- get ;;
  sk <- (match sc_sks s with [] => panic 117 | k :: _ => ret k end) ;;
  let start := sc_mark s in
  let starts_ifm := (match sc_ifms s with ImPossible :: _ => true | _ => false end) in
  let is_ifm := starts_ifm || (match sc_ifms s with ImInside :: _ => true | _ => false end) in
  (if starts_ifm then modify (fun s => set_ifms (ImInside :: tl (sc_ifms s)) s) else ret tt) ;;;
  skip_non_blank ops ;;;
  c <- (if sc_flow_level s =? 0 then look_ch ops else ret 0) ;;
  (if c =? 9 then
     tw <- skip_ws_to_eol ops F SkipYes ;;
     if negb (snd tw) then
       c <- peek ops ;;
       if (c =? 45) || is_alpha c then m <- mark ;; fail 97 m else ret tt
     else ret tt
   else ret tt) ;;;
  if sk_possible sk then
    s <- get ;;
    (if sk_token_number sk <? sc_tokens_parsed s then panic 118 else ret tt) ;;;
    insert_token (sk_token_number sk - sc_tokens_parsed s) (span_empty (sk_mark sk), TKey) ;;;
    (if is_ifm then
       if (m_line (sk_mark sk) <? m_line start) || (m_index (sk_mark sk) + SIMPLE_KEY_MAX <? m_index start) then fail 98 start
       else if starts_ifm then insert_token (sk_token_number sk - sc_tokens_parsed s) (span_empty (sk_mark sk), TFlowMappingStart)
       else ret tt
     else ret tt) ;;;
    roll_indent (m_col (sk_mark sk)) (Some (sk_token_number sk)) TBlockMappingStart (sk_mark sk) ;;;
    roll_one_col_indent ;;;
    modify (fun s => match sc_sks s with
                     | k :: r => set_sks ({| sk_possible := false; sk_required := sk_required k;
                                             sk_token_number := sk_token_number k; sk_mark := sk_mark k |} :: r) s
                     | [] => s end) ;;;
    disallow_simple_key ;;;
    push_tok (span_empty start, TValue)
  else
    (if starts_ifm then push_tok (span_empty start, TFlowMappingStart) else ret tt) ;;;
    s <- get ;;
    (if sc_flow_level s =? 0 then
       if negb (sc_ska s) then fail 99 start
       else roll_indent (m_col start) None TBlockMappingStart start
     else ret tt) ;;;
    roll_one_col_indent ;;;
    (if sc_flow_level s =? 0 then allow_simple_key else disallow_simple_key) ;;;
    push_tok (span_empty start, TValue).

Definition fetch_flow_value : M unit :=
  nc <- peekn ops 1 ;;
  s <- get ;;
  if negb (m_index (sc_mark s) =? sc_adjacent s) && ((nc =? 91) || (nc =? 123)) then fail 100 (sc_mark s)
  else fetch_value.

(* fetch_next_token (653-740) *)
Definition fetch_next_token : M unit :=
  look ops 1 ;;;
  s <- get ;;
  if negb (sc_stream_start s) then fetch_stream_start else
  skip_to_next_token ops F ;;;
  stale_simple_keys ;;;
  m <- mark ;;
  unroll_indent (Z.of_N (m_col m)) ;;;
  look ops 4 ;;;
  z <- next_is ops is_z ;;
  if z then fetch_stream_end else
  s <- get ;;
  c0 <- peek ops ;;
  dstart <- (if m_col (sc_mark s) =? 0 then if c0 =? 37 then ret false else next_is_document_start ops else ret false) ;;
  dend <- (if (m_col (sc_mark s) =? 0) && negb (c0 =? 37) && negb dstart then next_is_document_end ops else ret false) ;;
  if (m_col (sc_mark s) =? 0) && (c0 =? 37) then fetch_directive
  else if dstart then fetch_document_indicator TDocumentStart
  else if dend then
    fetch_document_indicator TDocumentEnd ;;;
    skip_ws_to_eol ops F SkipYes ;;;
    b <- next_is ops is_breakz ;;
    if b then ret tt else m <- mark ;; fail 101 m
  else
  if (Z.of_N (m_col (sc_mark s)) <? sc_indent s)%Z then fail 102 (sc_mark s) else
  c <- peek ops ;; nc <- peekn ops 1 ;;
  let fl := 0 <? sc_flow_level s in
  let bz := is_blank_or_breakz nc in
  if c =? 91 then fetch_flow_collection_start true
  else if c =? 123 then fetch_flow_collection_start false
  else if c =? 93 then fetch_flow_collection_end true
  else if c =? 125 then fetch_flow_collection_end false
  else if c =? 44 then fetch_flow_entry
  else if (c =? 45) && bz then fetch_block_entry
  else if (c =? 63) && bz then fetch_key
  else if (c =? 58) && bz then fetch_value
  else if (c =? 58) && fl && (is_flow nc || (m_index (sc_mark s) =? sc_adjacent s)) then fetch_flow_value
  else if c =? 42 then fetch_anchor true
  else if c =? 38 then fetch_anchor false
  else if c =? 33 then fetch_tag
  else if (c =? 124) && negb fl then fetch_block_scalar true
  else if (c =? 62) && negb fl then fetch_block_scalar false
  else if c =? 39 then fetch_flow_scalar true
  else if c =? 34 then fetch_flow_scalar false
  else if (c =? 45) && negb bz then fetch_plain_scalar
  else if ((c =? 58) || (c =? 63)) && negb bz && negb fl then fetch_plain_scalar
  else if (c =? 37) || (c =? 64) || (c =? 96) then fail 103 (sc_mark s)
  else fetch_plain_scalar.

(* fetch_more_tokens (771-797) *)
Fixpoint fetch_more_tokens (fuel : nat) : M unit :=
  match fuel with
  | O => oof
  | S fuel =>
    s <- get ;;
    need <- (match sc_tokens s with
             | [] => ret true
             | _ => stale_simple_keys ;;;
                    s <- get ;;
                    ret (existsb (fun k => sk_possible k && (sk_token_number k =? sc_tokens_parsed s)) (sc_sks s))
             end) ;;
    if need then fetch_next_token ;;; fetch_more_tokens fuel
    else modify (set_ta true)
  end.

(* next_token (745-766) *)
Definition next_token : M (option token) :=
  s <- get ;;
  if sc_stream_end s then ret None else
  (if sc_token_available s then ret tt else fetch_more_tokens F) ;;;
  s <- get ;;
  match sc_tokens s with
  | [] => fail 104 (sc_mark s)
  | t :: r =>
      put (set_tp (sc_tokens_parsed s + 1) (set_ta false (set_tokens r s))) ;;;
      (match snd t with TStreamEnd => modify (set_se true) | _ => ret tt end) ;;;
      ret (Some t)
  end.

(* the Scanner iterator: all tokens, then how it ended *)
Inductive scan_end := SEnded | SError (site : N) (at_ : marker) | SPanic (site : N) | SFuel.
Fixpoint scan_all (fuel : nat) (s : sc I) (acc : list token) : list token * scan_end :=
  match fuel with
  | O => (rev acc, SFuel)
  | S fuel =>
    match next_token s with
    | Ok (Some t, s') => scan_all fuel s' (t :: acc)
    | Ok (None, _) => (rev acc, SEnded)
    | Err e m => (rev acc, SError e m)
    | Panic n => (rev acc, SPanic n)
    | OutOfFuel => (rev acc, SFuel)
    end
  end.

End Fetch.
