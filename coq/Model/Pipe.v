From Coq Require Import List NArith ZArith Bool.
Import ListNotations.
Require Import Parser SBase SPrim SDir SScalar SFetch.

Inductive pend := PDone | PScanErr (site : N) (m : marker) | PParseErr (site : N) (m : marker) | PPanic (site : N) | PFuel.

Fixpoint parse_all (fuel : nat) (p : parser) (se : scan_end) (acc : list (event * span)) : list (event * span) * pend :=
  match fuel with
  | O => (rev acc, PFuel)
  | S fuel =>
    match p_state p with
    | SEnd => (rev acc, PDone)
    | _ =>
      match state_machine p with
      | Parser.Ok (ev, p') => parse_all fuel p' se (ev :: acc)
      | Parser.Err PErrScan =>
          (rev acc, match se with
                    | SError s m => PScanErr s m
                    | SPanic n => PPanic n
                    | SFuel => PFuel
                    | SEnded => PScanErr 0 {| m_index := 0; m_line := 0; m_col := 0 |}   (* "unexpected eof" *)
                    end)
      | Parser.Err (PErr s m) => (rev acc, PParseErr s m)
      | Parser.Panic n => (rev acc, PPanic n)
      end
    end
  end.

Definition run_str (s : list N) : list (event * span) * pend :=
  let F := (2 * length s + 10)%nat in
  let '(toks, se) := scan_all str_ops F (4 * F + 20) (init_sc {| si_chars := s; si_look := 0 |}) [] in
  let p := {| p_toks := toks; p_token := None; p_states := []; p_state := SStreamStart;
              p_anchors := []; p_anchor_id := 1%N; p_tags := []; p_keep_tags := false |} in
  (* the scanner delivers at most 4 * F + 20 tokens and the parser makes at most 4 * (number of tokens) + 1 steps
     (Proofs/ScanFuelTop.v, ScanFuelParse.v) *)
  parse_all (4 * (4 * F + 20) + 40) p se [].

