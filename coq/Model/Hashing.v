(* C20 — equality, hashing and lookups of YAML nodes.
   Models: #[derive(PartialEq, Eq, Hash)] on Yaml / YamlOwned / YamlData / YamlDataOwned (yaml.rs, yaml_owned.rs,
   annotated/yaml_data*.rs) and Scalar / ScalarOwned (scalar.rs), the hand-written Eq/Hash of MarkedYaml(Owned)
   (span ignored), std's Hash for str / String / Cow<str> / Vec / bool / i64 / usize / Option, hashlink's
   LinkedHashMap (Hash = the pairs in iteration order, no length prefix; Eq = same length and pairwise equal in
   order), ordered_float::OrderedFloat<f64> (Eq: NaN = NaN, otherwise IEEE ==; Hash: canonical bits), the four
   `as_mapping_get_impl`s (raw_entry().from_hash), LinkedHashMap::get, and the Index impls of macros.rs.

   Two layers:
   - `hyaml`: the *content* of a node (what the dump of the harness shows); floats are their 64 IEEE bits.
   - `cnode`: a concrete Rust value: every node carries a span (MarkedYaml) and every string an owned/borrowed
     flag (Cow<str> vs String); the four Rust node types are the obvious subsets.  Eq and Hash of the concrete
     layer are defined following the Rust impls and proved (HashingProofs.v) to factor through `erase`. *)
From Coq Require Import List NArith ZArith Bool.
Import ListNotations.
Require Import Resolver Loader.
Open Scope N_scope.

(* ------------------------------------------------------------------------------------------------ *)
(* f64 as its bit pattern; OrderedFloat                                                              *)
(* ------------------------------------------------------------------------------------------------ *)
Definition f64_exp (bits : N) : N := N.land (N.shiftr bits 52) 2047.
Definition f64_man (bits : N) : N := N.land bits 4503599627370495.          (* 2^52 - 1 *)
Definition f64_is_nan (bits : N) : bool := (f64_exp bits =? 2047) && negb (f64_man bits =? 0).
Definition f64_is_zero (bits : N) : bool := N.land bits 9223372036854775807 =? 0.   (* +0.0 or -0.0 *)
Definition canonical_nan_bits : N := 9221120237041090560.                   (* 0x7ff8000000000000 *)

(* IEEE `==` on two non-NaN doubles: the same value, where -0.0 == +0.0 *)
Definition f64_ieee_eqb (a b : N) : bool :=
  negb (f64_is_nan a) && negb (f64_is_nan b) && ((f64_is_zero a && f64_is_zero b) || (a =? b)).
(* OrderedFloat::eq *)
Definition ofloat_eqb (a b : N) : bool := if f64_is_nan a then f64_is_nan b else f64_ieee_eqb a b.
(* OrderedFloat::hash: NaN -> CANONICAL_NAN_BITS, otherwise (x + 0.0).to_bits(), i.e. -0.0 -> +0.0 *)
Definition ofloat_hash_bits (a : N) : N :=
  if f64_is_nan a then canonical_nan_bits else if f64_is_zero a then 0 else a.

(* ------------------------------------------------------------------------------------------------ *)
(* node contents                                                                                     *)
(* ------------------------------------------------------------------------------------------------ *)
Inductive hscalar := HNull | HBool (b : bool) | HInt (z : Z) | HFloat (bits : N) | HStr (s : str).

Inductive hyaml :=
| HRep (s : str) (style : N) (tg : option (str * str))     (* Representation(Cow<str>, ScalarStyle, Option<Tag>) *)
| HVal (v : hscalar)
| HSeq (l : list hyaml)
| HMap (l : list (hyaml * hyaml))                         (* iteration order *)
| HAlias (n : N)
| HBad.

(* ------------------------------------------------------------------------------------------------ *)
(* the calls a std::hash::Hasher receives                                                            *)
(* ------------------------------------------------------------------------------------------------ *)
Inductive hash_op :=
| OIsize (z : Z)          (* write_isize: enum discriminants *)
| OUsize (n : N)          (* write_usize: Vec length prefix, Alias(usize) *)
| OU8 (n : N)             (* write_u8: bool, the 0xff terminator of str *)
| OU64 (n : N)            (* write_u64: canonical float bits *)
| OI64 (z : Z)            (* write_i64 *)
| OWrite (bytes : list N) (* write(&[u8]) *).

Definition utf8_char (c : N) : list N :=
  if c <? 128 then [c]
  else if c <? 2048 then [192 + c / 64; 128 + c mod 64]
  else if c <? 65536 then [224 + c / 4096; 128 + (c / 64) mod 64; 128 + c mod 64]
  else [240 + c / 262144; 128 + (c / 4096) mod 64; 128 + (c / 64) mod 64; 128 + c mod 64].
Definition utf8 (s : str) : list N := flat_map utf8_char s.

(* impl Hash for str: state.write_str(s) = write(bytes); write_u8(0xff) *)
Definition hash_str (s : str) : list hash_op := [OWrite (utf8 s); OU8 255].
Definition hash_bool (b : bool) : list hash_op := [OU8 (if b then 1 else 0)].
(* #[derive(Hash)] struct Tag { handle: String, suffix: String };  Option<T>: discriminant, then the payload *)
Definition hash_tag (tg : option (str * str)) : list hash_op :=
  match tg with
  | None => [OIsize 0]
  | Some (h, sfx) => OIsize 1 :: hash_str h ++ hash_str sfx
  end.
(* #[derive(Hash)] enum Scalar { Null, Boolean(bool), Integer(i64), FloatingPoint(OrderedFloat<f64>), String(..) } *)
Definition hash_scalar (v : hscalar) : list hash_op :=
  match v with
  | HNull => [OIsize 0]
  | HBool b => OIsize 1 :: hash_bool b
  | HInt z => [OIsize 2; OI64 z]
  | HFloat bits => [OIsize 3; OU64 (ofloat_hash_bits bits)]
  | HStr s => OIsize 4 :: hash_str s
  end.

(* #[derive(Hash)] enum Yaml { Representation, Value, Sequence, Mapping, Alias, BadValue } *)
Fixpoint hash_stream (y : hyaml) : list hash_op :=
  match y with
  | HRep s st tg => OIsize 0 :: hash_str s ++ OIsize (Z.of_N st) :: hash_tag tg
  | HVal v => OIsize 1 :: hash_scalar v
  | HSeq l =>
      OIsize 2 :: OUsize (N.of_nat (length l)) ::
      (fix go (l : list hyaml) : list hash_op :=
         match l with [] => [] | x :: r => hash_stream x ++ go r end) l
  | HMap l =>
      OIsize 3 ::
      (fix go (l : list (hyaml * hyaml)) : list hash_op :=
         match l with [] => [] | (k, v) :: r => hash_stream k ++ hash_stream v ++ go r end) l
  | HAlias n => [OIsize 4; OUsize n]
  | HBad => [OIsize 5]
  end.
Definition hash_items : list hyaml -> list hash_op :=
  fix go (l : list hyaml) : list hash_op := match l with [] => [] | x :: r => hash_stream x ++ go r end.
Definition hash_pairs : list (hyaml * hyaml) -> list hash_op :=
  fix go (l : list (hyaml * hyaml)) : list hash_op :=
    match l with [] => [] | (k, v) :: r => hash_stream k ++ hash_stream v ++ go r end.

(* ------------------------------------------------------------------------------------------------ *)
(* derived PartialEq                                                                                 *)
(* ------------------------------------------------------------------------------------------------ *)
Definition hscalar_eqb (a b : hscalar) : bool :=
  match a, b with
  | HNull, HNull => true
  | HBool x, HBool y => Bool.eqb x y
  | HInt x, HInt y => (x =? y)%Z
  | HFloat x, HFloat y => ofloat_eqb x y
  | HStr x, HStr y => str_eqb x y
  | _, _ => false
  end.
Definition tag_eqb (a b : option (str * str)) : bool :=
  match a, b with
  | None, None => true
  | Some (h, s), Some (h', s') => str_eqb h h' && str_eqb s s'
  | _, _ => false
  end.

Fixpoint hyaml_eqb (a b : hyaml) {struct a} : bool :=
  match a, b with
  | HRep s st tg, HRep s' st' tg' => str_eqb s s' && (st =? st') && tag_eqb tg tg'
  | HVal x, HVal y => hscalar_eqb x y
  | HSeq l, HSeq l' =>
      (fix go (l l' : list hyaml) : bool :=
         match l, l' with
         | [], [] => true
         | x :: r, y :: r' => hyaml_eqb x y && go r r'
         | _, _ => false
         end) l l'
  | HMap l, HMap l' =>
      (fix go (l l' : list (hyaml * hyaml)) : bool :=
         match l, l' with
         | [], [] => true
         | (k, v) :: r, (k', v') :: r' => hyaml_eqb k k' && hyaml_eqb v v' && go r r'
         | _, _ => false
         end) l l'
  | HAlias n, HAlias n' => n =? n'
  | HBad, HBad => true
  | _, _ => false
  end.
Definition eqb_items : list hyaml -> list hyaml -> bool :=
  fix go (l l' : list hyaml) : bool :=
    match l, l' with
    | [], [] => true
    | x :: r, y :: r' => hyaml_eqb x y && go r r'
    | _, _ => false
    end.
Definition eqb_pairs : list (hyaml * hyaml) -> list (hyaml * hyaml) -> bool :=
  fix go (l l' : list (hyaml * hyaml)) : bool :=
    match l, l' with
    | [], [] => true
    | (k, v) :: r, (k', v') :: r' => hyaml_eqb k k' && hyaml_eqb v v' && go r r'
    | _, _ => false
    end.

(* ------------------------------------------------------------------------------------------------ *)
(* lookups                                                                                           *)
(* ------------------------------------------------------------------------------------------------ *)
Inductive idx_res :=
| IOk (v : hyaml)
| IPanic (why : N).
(* panic sites of macros.rs: *)
Definition p_key_not_found : N := 0.       (* "Key '{idx}' not found in {} mapping" *)
Definition p_not_a_mapping : N := 1.       (* "Attempt to index {} with '{idx}' but it's not a mapping" *)
Definition p_out_of_bounds : N := 2.       (* "Index {idx} out of bounds in {} sequence" *)
Definition p_overflowing : N := 3.         (* "Attempt to index {} mapping with overflowing index" *)
Definition p_not_map_nor_seq : N := 4.     (* "... but it's not a mapping nor a sequence" *)

Definition is_some {A} (o : option A) : bool := match o with Some _ => true | None => false end.
Definition as_str (y : hyaml) : option str := match y with HVal (HStr s) => Some s | _ => None end.
Definition str_node (k : str) : hyaml := HVal (HStr k).          (* Yaml::Value(Scalar::String(k.into())) *)
Definition int_node (i : Z) : hyaml := HVal (HInt i).            (* Yaml::Value(Scalar::Integer(i)) *)
Definition is_map (y : hyaml) : bool := match y with HMap _ => true | _ => false end.

Fixpoint nth_N {A} (l : list A) (i : N) : option A :=
  match l with
  | [] => None
  | x :: r => if i =? 0 then Some x else nth_N r (i - 1)
  end.

Section Lookup.
  (* Hasher::finish of the map's BuildHasher (foldhash with a per-process seed): some function of the sequence
     of write calls.  Everything below holds for every such function. *)
  Variable fin : list hash_op -> N.
  Definition hash_of (y : hyaml) : N := fin (hash_stream y).

  (* RawEntryBuilder::from_hash(hash, is_match): an entry is guaranteed to be found when its own hash equals
     `hash` and `is_match` accepts its key (hashbrown probes from the hash; entries whose hash differs are not
     on the guaranteed path).  Keys of a LinkedHashMap are pairwise unequal, so "the first" is "the". *)
  Fixpoint from_hash (h : N) (is_match : hyaml -> bool) (m : list (hyaml * hyaml)) : option (hyaml * hyaml) :=
    match m with
    | [] => None
    | (k, v) :: r => if (hash_of k =? h) && is_match k then Some (k, v) else from_hash h is_match r
    end.

  (* Yaml::as_mapping_get_impl / YamlOwned::as_mapping_get_impl: hash_str_as_yaml_string + as_str() == key *)
  Definition get_impl_str (k : str) (y : hyaml) : option hyaml :=
    match y with
    | HMap m => option_map snd (from_hash (hash_of (str_node k))
                                  (fun c => match as_str c with Some s => str_eqb s k | None => false end) m)
    | _ => None
    end.
  (* YamlData::as_mapping_get_impl / YamlDataOwned::…: needle node, `*candidate == needle` *)
  Definition get_impl_node (k : str) (y : hyaml) : option hyaml :=
    match y with
    | HMap m => option_map snd (from_hash (hash_of (str_node k)) (fun c => hyaml_eqb c (str_node k)) m)
    | _ => None
    end.
  (* LinkedHashMap::get(&q) = raw_entry().from_key(q): hash q, `q == candidate` *)
  Definition map_get (q : hyaml) (m : list (hyaml * hyaml)) : option hyaml :=
    option_map snd (from_hash (hash_of q) (fun c => hyaml_eqb q c) m).
  (* node.as_mapping().and_then(|m| m.get(&Value(String(k)))) *)
  Definition get_explicit (k : str) (y : hyaml) : option hyaml :=
    match y with HMap m => map_get (str_node k) m | _ => None end.

  (* `marked` selects the YamlData flavour of as_mapping_get_impl *)
  Definition as_mapping_get (marked : bool) (k : str) (y : hyaml) : option hyaml :=
    if marked then get_impl_node k y else get_impl_str k y.
  Definition contains_mapping_key (marked : bool) (k : str) (y : hyaml) : bool := is_some (as_mapping_get marked k y).
  (* Index<&str> *)
  Definition index_str (marked : bool) (k : str) (y : hyaml) : idx_res :=
    match as_mapping_get marked k y with
    | Some v => IOk v
    | None => if is_map y then IPanic p_key_not_found else IPanic p_not_a_mapping
    end.
  (* IndexMut<&str>: assert!(is mapping) first; as_mapping_get_mut_impl is the same search *)
  Definition index_mut_str (marked : bool) (k : str) (y : hyaml) : idx_res :=
    if is_map y then
      match as_mapping_get marked k y with Some v => IOk v | None => IPanic p_key_not_found end
    else IPanic p_not_a_mapping.

  Definition as_sequence_get (i : N) (y : hyaml) : option hyaml :=
    match y with HSeq l => nth_N l i | _ => None end.
  (* Index<usize> / IndexMut<usize> (usize = u64) *)
  Definition index_usize (i : N) (y : hyaml) : idx_res :=
    match y with
    | HSeq l => match nth_N l i with Some v => IOk v | None => IPanic p_out_of_bounds end
    | HMap m =>
        if i <? 9223372036854775808 then                       (* i64::try_from(idx) *)
          match map_get (int_node (Z.of_N i)) m with Some v => IOk v | None => IPanic p_key_not_found end
        else IPanic p_overflowing
    | _ => IPanic p_not_map_nor_seq
    end.
End Lookup.

(* ------------------------------------------------------------------------------------------------ *)
(* specification of the lookups (no hashing): the first entry whose key is literally the wanted node   *)
(* ------------------------------------------------------------------------------------------------ *)
Fixpoint find_key (p : hyaml -> bool) (m : list (hyaml * hyaml)) : option hyaml :=
  match m with
  | [] => None
  | (k, v) :: r => if p k then Some v else find_key p r
  end.
Definition is_str_key (k : str) (c : hyaml) : bool :=
  match c with HVal (HStr s) => str_eqb s k | _ => false end.
Definition is_int_key (i : Z) (c : hyaml) : bool :=
  match c with HVal (HInt z) => (z =? i)%Z | _ => false end.
Definition spec_get (k : str) (m : list (hyaml * hyaml)) : option hyaml := find_key (is_str_key k) m.
Definition spec_get_int (i : Z) (m : list (hyaml * hyaml)) : option hyaml := find_key (is_int_key i) m.

(* ------------------------------------------------------------------------------------------------ *)
(* concrete Rust values: spans and borrowed/owned strings                                            *)
(* ------------------------------------------------------------------------------------------------ *)
(* `cow` = true: Cow::Owned / String, false: Cow::Borrowed.  `span`: any encoding of the Span of a marked node
   (0 for the unmarked types). *)
Inductive cscalar := CNull | CBool (b : bool) | CInt (z : Z) | CFloat (bits : N) | CStr (owned : bool) (s : str).
Inductive cnode :=
| CRep (span : N) (owned : bool) (s : str) (style : N) (tg : option (str * str))
| CVal (span : N) (v : cscalar)
| CSeq (span : N) (l : list cnode)
| CMap (span : N) (l : list (cnode * cnode))
| CAlias (span : N) (n : N)
| CBad (span : N).

Definition erase_scalar (v : cscalar) : hscalar :=
  match v with
  | CNull => HNull | CBool b => HBool b | CInt z => HInt z | CFloat f => HFloat f | CStr _ s => HStr s
  end.
Fixpoint erase (c : cnode) : hyaml :=
  match c with
  | CRep _ _ s st tg => HRep s st tg
  | CVal _ v => HVal (erase_scalar v)
  | CSeq _ l => HSeq ((fix go (l : list cnode) : list hyaml := match l with [] => [] | x :: r => erase x :: go r end) l)
  | CMap _ l => HMap ((fix go (l : list (cnode * cnode)) : list (hyaml * hyaml) :=
                         match l with [] => [] | (k, v) :: r => (erase k, erase v) :: go r end) l)
  | CAlias _ n => HAlias n
  | CBad _ => HBad
  end.

(* Hash for Cow<str> and String both defer to str; MarkedYaml::hash = self.data.hash(state) *)
Definition chash_scalar (v : cscalar) : list hash_op :=
  match v with
  | CNull => [OIsize 0]
  | CBool b => OIsize 1 :: hash_bool b
  | CInt z => [OIsize 2; OI64 z]
  | CFloat bits => [OIsize 3; OU64 (ofloat_hash_bits bits)]
  | CStr _ s => OIsize 4 :: hash_str s
  end.
Fixpoint chash (c : cnode) : list hash_op :=
  match c with
  | CRep _ _ s st tg => OIsize 0 :: hash_str s ++ OIsize (Z.of_N st) :: hash_tag tg
  | CVal _ v => OIsize 1 :: chash_scalar v
  | CSeq _ l =>
      OIsize 2 :: OUsize (N.of_nat (length l)) ::
      (fix go (l : list cnode) : list hash_op := match l with [] => [] | x :: r => chash x ++ go r end) l
  | CMap _ l =>
      OIsize 3 ::
      (fix go (l : list (cnode * cnode)) : list hash_op :=
         match l with [] => [] | (k, v) :: r => chash k ++ chash v ++ go r end) l
  | CAlias _ n => [OIsize 4; OUsize n]
  | CBad _ => [OIsize 5]
  end.
(* PartialEq for Cow<str> / String compares the str; MarkedYaml::eq = self.data.eq(&other.data) *)
Definition cscalar_eqb (a b : cscalar) : bool :=
  match a, b with
  | CNull, CNull => true
  | CBool x, CBool y => Bool.eqb x y
  | CInt x, CInt y => (x =? y)%Z
  | CFloat x, CFloat y => ofloat_eqb x y
  | CStr _ x, CStr _ y => str_eqb x y
  | _, _ => false
  end.
Fixpoint cnode_eqb (a b : cnode) {struct a} : bool :=
  match a, b with
  | CRep _ _ s st tg, CRep _ _ s' st' tg' => str_eqb s s' && (st =? st') && tag_eqb tg tg'
  | CVal _ x, CVal _ y => cscalar_eqb x y
  | CSeq _ l, CSeq _ l' =>
      (fix go (l l' : list cnode) : bool :=
         match l, l' with
         | [], [] => true
         | x :: r, y :: r' => cnode_eqb x y && go r r'
         | _, _ => false
         end) l l'
  | CMap _ l, CMap _ l' =>
      (fix go (l l' : list (cnode * cnode)) : bool :=
         match l, l' with
         | [], [] => true
         | (k, v) :: r, (k', v') :: r' => cnode_eqb k k' && cnode_eqb v v' && go r r'
         | _, _ => false
         end) l l'
  | CAlias _ n, CAlias _ n' => n =? n'
  | CBad _, CBad _ => true
  | _, _ => false
  end.

(* ------------------------------------------------------------------------------------------------ *)
(* nodes of the loader model (Loader.yaml, floats as exact decimals) seen as contents, given the bits  *)
(* of each float                                                                                     *)
(* ------------------------------------------------------------------------------------------------ *)
Definition of_scalar (fbits : fval -> N) (v : scalar) : hscalar :=
  match v with
  | SNull => HNull | SBool b => HBool b | SInt z => HInt z | SFloat f => HFloat (fbits f) | SStr s => HStr s
  end.
Fixpoint of_yaml (fbits : fval -> N) (y : yaml) : hyaml :=
  match y with
  | YVal v => HVal (of_scalar fbits v)
  | YSeq l => HSeq ((fix go (l : list yaml) : list hyaml := match l with [] => [] | x :: r => of_yaml fbits x :: go r end) l)
  | YMap l => HMap ((fix go (l : list (yaml * yaml)) : list (hyaml * hyaml) :=
                       match l with [] => [] | (k, v) :: r => (of_yaml fbits k, of_yaml fbits v) :: go r end) l)
  | YBad => HBad
  end.
