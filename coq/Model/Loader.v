(* loader.rs model (YamlLoader::on_event / insert_new_node) + scalar dispatch (value_from_cow_and_metadata). *)
From Coq Require Import List NArith ZArith Bool.
Import ListNotations.
Require Import Parser Resolver.

Inductive yaml :=
| YVal (v : scalar)
| YSeq (l : list yaml)
| YMap (l : list (yaml * yaml))
| YBad.

(* float equality on exact decimals, normalised (OrderedFloat: NaN = NaN, -0 = +0) *)
Fixpoint strip10 (fuel : nat) (m e : Z) : Z * Z :=
  match fuel with
  | O => (m, e)
  | S f => if (m =? 0)%Z then (0, 0)%Z else if (m mod 10 =? 0)%Z then strip10 f (m / 10)%Z (e + 1)%Z else (m, e)
  end.
Definition fnorm (f : fval) : fval :=
  match f with
  | FDec neg m e => let '(m', e') := strip10 400 m e in FDec (if (m' =? 0)%Z then false else neg) m' e'
  | _ => f
  end.
Definition feqb (a b : fval) : bool :=
  match fnorm a, fnorm b with
  | FNan, FNan => true
  | FInf x, FInf y => Bool.eqb x y
  | FDec n m e, FDec n' m' e' => Bool.eqb n n' && (m =? m')%Z && (e =? e')%Z
  | _, _ => false
  end.
Definition scalar_eqb (a b : scalar) : bool :=
  match a, b with
  | SNull, SNull => true
  | SBool x, SBool y => Bool.eqb x y
  | SInt x, SInt y => (x =? y)%Z
  | SFloat x, SFloat y => feqb x y
  | SStr x, SStr y => Resolver.str_eqb x y
  | _, _ => false
  end.

Fixpoint yaml_eqb (a b : yaml) {struct a} : bool :=
  match a, b with
  | YVal x, YVal y => scalar_eqb x y
  | YBad, YBad => true
  | YSeq l, YSeq l' =>
      (fix go (l l' : list yaml) : bool :=
         match l, l' with
         | [], [] => true
         | x :: r, y :: r' => yaml_eqb x y && go r r'
         | _, _ => false
         end) l l'
  | YMap l, YMap l' =>
      (fix go (l l' : list (yaml * yaml)) : bool :=
         match l, l' with
         | [], [] => true
         | (k, v) :: r, (k', v') :: r' => yaml_eqb k k' && yaml_eqb v v' && go r r'
         | _, _ => false
         end) l l'
  | _, _ => false
  end.

(* hashlink LinkedHashMap::insert: existing key -> value replaced, entry moved to the back, old key kept *)
Fixpoint remove_key (k : yaml) (l : list (yaml * yaml)) : option yaml * list (yaml * yaml) :=
  match l with
  | [] => (None, [])
  | (k', v') :: r => if yaml_eqb k k' then (Some k', r)
                     else let '(o, r') := remove_key k r in (o, (k', v') :: r')
  end.
Definition map_insert (k v : yaml) (l : list (yaml * yaml)) : list (yaml * yaml) :=
  match remove_key k l with
  | (Some k0, r) => r ++ [(k0, v)]
  | (None, r) => r ++ [(k, v)]
  end.

(* Yaml::value_from_cow_and_metadata: BadValue when the tagged parse fails *)
Definition is_plain (st : style) : bool := match st with Plain => true | _ => false end.
Definition value_of (v : str) (st : style) (tg : option tag) : yaml :=
  match parse_from_cow_and_metadata v (is_plain st) (option_map (fun t => (tg_handle t, tg_suffix t)) tg) with
  | Some sc => YVal sc
  | None => YBad
  end.

Record loader := {
  l_docs : list yaml;            (* reversed *)
  l_stack : list (yaml * N);     (* head = top *)
  l_keys : list (option yaml);   (* head = top; None = "next node is a key" *)
  l_anchors : list (N * yaml);
}.
Definition l0 : loader := {| l_docs := []; l_stack := []; l_keys := []; l_anchors := [] |}.

Fixpoint amap_get (id : N) (l : list (N * yaml)) : option yaml :=
  match l with [] => None | (i, y) :: r => if N.eqb i id then Some y else amap_get id r end.
Definition is_bad (y : yaml) : bool := match y with YBad => true | _ => false end.

Inductive lres := LOk (l : loader) | LPanic (site : N).

Definition insert_new_node (ld : loader) (node : yaml) (aid : N) : lres :=
  let anchors := if (0 <? aid)%N then (aid, node) :: l_anchors ld else l_anchors ld in
  match l_stack ld with
  | [] => LOk {| l_docs := l_docs ld; l_stack := [(node, aid)]; l_keys := l_keys ld; l_anchors := anchors |}
  | (YSeq items, paid) :: rest =>
      LOk {| l_docs := l_docs ld; l_stack := (YSeq (items ++ [node]), paid) :: rest; l_keys := l_keys ld; l_anchors := anchors |}
  | (YMap pairs, paid) :: rest =>
      match l_keys ld with
      | [] => LPanic 300
      | k :: ks =>
          match k with
          | None =>
            LOk {| l_docs := l_docs ld; l_stack := l_stack ld; l_keys := Some node :: ks; l_anchors := anchors |}
          | Some key =>
            LOk {| l_docs := l_docs ld; l_stack := (YMap (map_insert key node pairs), paid) :: rest;
                   l_keys := None :: ks; l_anchors := anchors |}
          end
      end
  | _ => LOk {| l_docs := l_docs ld; l_stack := l_stack ld; l_keys := l_keys ld; l_anchors := anchors |}
  end.

Definition on_event (ld : loader) (ev : event) : lres :=
  match ev with
  | EStreamStart | EStreamEnd | EDocumentStart _ => LOk ld
  | EDocumentEnd =>
      match l_stack ld with
      | [] => LOk {| l_docs := YBad :: l_docs ld; l_stack := []; l_keys := l_keys ld; l_anchors := l_anchors ld |}
      | [(n, _)] => LOk {| l_docs := n :: l_docs ld; l_stack := []; l_keys := l_keys ld; l_anchors := l_anchors ld |}
      | _ => LPanic 301
      end
  | ESequenceStart aid _ =>
      LOk {| l_docs := l_docs ld; l_stack := (YSeq [], aid) :: l_stack ld; l_keys := l_keys ld; l_anchors := l_anchors ld |}
  | EMappingStart aid _ =>
      LOk {| l_docs := l_docs ld; l_stack := (YMap [], aid) :: l_stack ld; l_keys := None :: l_keys ld; l_anchors := l_anchors ld |}
  | ESequenceEnd =>
      match l_stack ld with
      | [] => LPanic 302
      | (n, aid) :: rest => insert_new_node {| l_docs := l_docs ld; l_stack := rest; l_keys := l_keys ld; l_anchors := l_anchors ld |} n aid
      end
  | EMappingEnd =>
      match l_keys ld, l_stack ld with
      | _ :: ks, (n, aid) :: rest => insert_new_node {| l_docs := l_docs ld; l_stack := rest; l_keys := ks; l_anchors := l_anchors ld |} n aid
      | _, _ => LPanic 303
      end
  | EScalar v st aid tg => insert_new_node ld (value_of v st tg) aid
  | EAlias id => insert_new_node ld (match amap_get id (l_anchors ld) with Some y => y | None => YBad end) 0
  end.

Fixpoint load_events (evs : list event) (ld : loader) : lres :=
  match evs with
  | [] => LOk ld
  | e :: r => match on_event ld e with LOk ld' => load_events r ld' | LPanic n => LPanic n end
  end.
