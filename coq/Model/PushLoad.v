(* parser.rs Parser::load (the push interface): load / load_document / load_node / load_sequence / load_mapping,
   as recursive functions over the results of the iteration (next_event_impl), which by C17_histories are those
   of plain iteration.  [rs] is the list of upcoming results: events, then the error that ends the iteration
   (for a complete stream the list still ends with a sentinel that is never reached). *)
From Coq Require Import List NArith Bool.
Import ListNotations.
Require Import Parser.

Definition ev := (event * span)%type.
Definition result := (ev + perr)%type.

Inductive lout :=
| LDone (pushed : list ev) (rest : list result)     (* pushed: reversed *)
| LFail (e : perr) (pushed : list ev)
| LPanicked (site : N) (pushed : list ev)            (* unreachable!() / assert_eq! *)
| LOutOfFuel
| LExhausted.

Definition is_seq_end (e : ev) := match fst e with ESequenceEnd => true | _ => false end.
Definition is_map_end (e : ev) := match fst e with EMappingEnd => true | _ => false end.
Definition is_doc_start (e : ev) := match fst e with EDocumentStart _ => true | _ => false end.
Definition is_doc_end (e : ev) := match fst e with EDocumentEnd => true | _ => false end.
Definition is_stream_start (e : ev) := match fst e with EStreamStart => true | _ => false end.
Definition is_stream_end (e : ev) := match fst e with EStreamEnd => true | _ => false end.

Fixpoint load_node (fuel : nat) (first : ev) (rs : list result) (acc : list ev) {struct fuel} : lout :=
  match fuel with
  | O => LOutOfFuel
  | S f =>
    match fst first with
    | EAlias _ | EScalar _ _ _ _ => LDone (first :: acc) rs
    | ESequenceStart _ _ => load_sequence f rs (first :: acc)
    | EMappingStart _ _ => load_mapping f rs (first :: acc)
    | _ => LPanicked 1 acc                                   (* println!("UNREACHABLE EVENT"); unreachable!() *)
    end
  end
with load_sequence (fuel : nat) (rs : list result) (acc : list ev) {struct fuel} : lout :=
  match fuel with
  | O => LOutOfFuel
  | S f =>
    match rs with
    | [] => LExhausted
    | inr e :: _ => LFail e acc
    | inl x :: rs' =>
        if is_seq_end x then LDone (x :: acc) rs'
        else match load_node f x rs' acc with
             | LDone acc' rs'' => load_sequence f rs'' acc'
             | o => o
             end
    end
  end
with load_mapping (fuel : nat) (rs : list result) (acc : list ev) {struct fuel} : lout :=
  match fuel with
  | O => LOutOfFuel
  | S f =>
    match rs with
    | [] => LExhausted
    | inr e :: _ => LFail e acc
    | inl k :: rs' =>
        if is_map_end k then LDone (k :: acc) rs'
        else match load_node f k rs' acc with
             | LDone acc' rs'' =>
                 match rs'' with
                 | [] => LExhausted
                 | inr e :: _ => LFail e acc'
                 | inl v :: rs3 =>
                     match load_node f v rs3 acc' with
                     | LDone acc'' rs4 => load_mapping f rs4 acc''
                     | o => o
                     end
                 end
             | o => o
             end
    end
  end.

(* load_document: the first event has already been read by the caller *)
Definition load_document (fuel : nat) (first : ev) (rs : list result) (acc : list ev) : lout :=
  if negb (is_doc_start first) then LFail (PErr 100 (sp_start (snd first))) acc   (* "did not find expected <document-start>" *)
  else
    match rs with
    | [] => LExhausted
    | inr e :: _ => LFail e (first :: acc)
    | inl n :: rs' =>
        match load_node fuel n rs' (first :: acc) with
        | LDone acc' rs'' =>
            match rs'' with
            | [] => LExhausted
            | inr e :: _ => LFail e acc'
            | inl d :: rs3 => if is_doc_end d then LDone (d :: acc') rs3 else LPanicked 2 acc'   (* assert_eq!(ev, DocumentEnd) *)
            end
        | o => o
        end
    end.

(* the document loop of load(recv, multi = true) after StreamStart *)
Fixpoint load_docs (fuel : nat) (rs : list result) (acc : list ev) : lout :=
  match fuel with
  | O => LOutOfFuel
  | S f =>
    match rs with
    | [] => LExhausted
    | inr e :: _ => LFail e acc
    | inl x :: rs' =>
        if is_stream_end x then LDone (x :: acc) rs'
        else match load_document f x rs' acc with
             | LDone acc' rs'' => load_docs f rs'' acc'
             | o => o
             end
    end
  end.

Definition load_multi (fuel : nat) (rs : list result) : lout :=
  match rs with
  | [] => LExhausted
  | inr e :: _ => LFail e []
  | inl x :: rs' =>
      if negb (is_stream_start x) then LFail (PErr 101 (sp_start (snd x))) []      (* "did not find expected <stream-start>" *)
      else load_docs fuel rs' [x]
  end.
