(* Scratch prototype: scanner model, part 4 — flow, plain and block scalars. *)
From Coq Require Import List NArith ZArith Bool.
Import ListNotations.
Require Import Parser SBase SPrim SDir.
Require Export Escapes.
Open Scope N_scope.
Open Scope mon_scope.

Section Scal.
Context {I : Type} (ops : InputOps I).
Notation M := (@M I).
Variable F : nat.

Definition nls (n : N) (acc : list chr) : list chr := N.iter n (cons 10) acc.  (* push n '\n' onto a reversed string *)
Definition col_lt_indent : M bool := gets (fun s => (Z.of_N (m_col (sc_mark s)) <? sc_indent s)%Z).

(* ---- resolve_flow_scalar_escape_sequence (2086-2153) ---- *)
Fixpoint assocc (k : chr) (l : list (chr * chr)) : option chr :=
  match l with [] => None | (a, b) :: r => if a =? k then Some b else assocc k r end.
Fixpoint assocn (k : chr) (l : list (chr * nat)) : nat :=
  match l with [] => O | (a, b) :: r => if a =? k then b else assocn k r end.
Definition code_length (c : chr) : nat := assocn c code_length_table.
Definition is_scalar_value (v : N) : bool := (v <? 55296) || ((57343 <? v) && (v <=? 1114111)).
Fixpoint read_hex (n i : nat) (acc : N) (start : marker) : M N :=
  match n with
  | O => ret acc
  | S n => c <- peekn ops i ;; if is_hex c then read_hex n (S i) (acc * 16 + as_hex c) start else fail 30 start
  end.
Definition resolve_escape (start : marker) : M chr :=
  e <- peekn ops 1 ;;
  match assocc e escape_table with
  | Some r => skip_n_non_blank ops 2 ;;; ret r
  | None =>
      let n := code_length e in
      if Nat.eqb n 0 then fail 31 start
      else skip_n_non_blank ops 2 ;;; look ops n ;;; v <- read_hex n 0 0 start ;;
           if is_scalar_value v then skip_n_non_blank ops n ;;; ret v else fail 32 start
  end.

(* consume_flow_scalar_non_whitespace_chars (2040-2078); acc reversed; returns (acc, leading_blanks) *)
Fixpoint consume_nonws (fuel : nat) (single : bool) (acc : list chr) (start : marker) : M (list chr * bool) :=
  match fuel with
  | O => oof
  | S fuel =>
    look ops 2 ;;; c <- peek ops ;;
    if is_blank_or_breakz c then ret (acc, false)
    else
      nc <- peekn ops 1 ;;
      if (c =? 39) && (nc =? 39) && single then skip_n_non_blank ops 2 ;;; consume_nonws fuel single (39 :: acc) start
      else if (c =? 39) && single then ret (acc, false)
      else if (c =? 34) && negb single then ret (acc, false)
      else if (c =? 92) && negb single && is_break nc then
        look ops 3 ;;; skip_non_blank ops ;;; skip_linebreak ops ;;; ret (acc, true)
      else if (c =? 92) && negb single then
        r <- resolve_escape start ;; consume_nonws fuel single (r :: acc) start
      else skip_non_blank ops ;;; consume_nonws fuel single (c :: acc) start
  end.

(* the blank-consuming inner loop of scan_flow_scalar; state: leading_blanks, leading_break (bool),
   trailing_breaks (count), whitespaces (reversed) *)
Fixpoint flow_blanks (fuel : nat) (lbl : bool) (lb : bool) (tb : N) (ws : list chr)
  : M (bool * bool * N * list chr) :=
  match fuel with
  | O => oof
  | S fuel =>
    c <- peek ops ;;
    if is_blank c then
      (if lbl then
         lt <- col_lt_indent ;;
         if (c =? 9) && lt then m <- mark ;; fail 73 m
         else skip_blank ops ;;; look ops 1 ;;; flow_blanks fuel lbl lb tb ws
       else skip_blank ops ;;; look ops 1 ;;; flow_blanks fuel lbl lb tb (c :: ws))
    else if is_break c then
      look ops 2 ;;;
      (if lbl then skip_break ops ;;; look ops 1 ;;; flow_blanks fuel true lb (tb + 1) ws
       else skip_break ops ;;; look ops 1 ;;; flow_blanks fuel true true tb [])
    else ret (lbl, lb, tb, ws)
  end.

(* scan_flow_scalar (1896-2030) *)
Definition scan_flow_scalar (single : bool) : M token :=
  start <- mark ;;
  skip_non_blank ops ;;;
  str <- (fix go (f : nat) (acc : list chr) (lb : bool) (tb : N) (ws : list chr) : M (list chr) :=
     match f with
     | O => oof
     | S f =>
       look ops 4 ;;;
       s <- get ;;
       di <- (if m_col (sc_mark s) =? 0 then next_is_document_indicator ops else ret false) ;;
       if di then fail 70 start else
       z <- next_is ops is_z ;;
       if z then fail 71 start else
       lt <- col_lt_indent ;;
       if lt then fail 72 start else
       r <- consume_nonws F single acc start ;;
       let '(acc, lbl) := r in
       c <- look_ch ops ;;
       if (single && (c =? 39)) || (negb single && (c =? 34)) then ret acc
       else
         r <- flow_blanks F lbl lb tb ws ;;
         let '(lbl, lb, tb, ws) := r in
         if lbl then
           if negb lb then go f (nls tb acc) false 0 ws
           else if tb =? 0 then go f (32 :: acc) false 0 ws
           else go f (nls tb acc) false 0 ws
         else go f (ws ++ acc) lb tb []
     end) F [] false 0 [] ;;
  skip_non_blank ops ;;;
  skip_ws_to_eol ops F SkipYes ;;;
  c <- peek ops ;; s <- get ;;
  let fl := 0 <? sc_flow_level s in
  if (((c =? 44) || (c =? 125) || (c =? 93)) && fl) || is_breakz c
     || ((c =? 58) && negb fl && (m_line start =? m_line (sc_mark s))) || ((c =? 58) && fl)
  then ret ({| sp_start := start; sp_end := sc_mark s |},
            TScalar (if single then SingleQuoted else DoubleQuoted) (rev str))
  else fail 74 (sc_mark s).

(* ---- scan_plain_scalar (2170-2320) ---- *)
(* inner chunked loop: lookahead(bufmaxlen) then at most bufmaxlen-1 chars per chunk *)
Fixpoint plain_chunk (fuel : nat) (j : nat) (acc : list chr) : M (list chr) :=
  match fuel with
  | O => oof
  | S fuel =>
    if Nat.leb (bufmaxlen ops - 1) j then look ops (bufmaxlen ops) ;;; plain_chunk fuel 0 acc
    else
      b <- next_is ops is_blank_or_breakz ;; s <- get ;;
      cb <- (if b then ret false else next_can_be_plain_scalar ops (0 <? sc_flow_level s)) ;;
      if b || negb cb then ret acc
      else c <- peek ops ;; skip_non_blank ops ;;; plain_chunk fuel (S j) (c :: acc)
  end.

Fixpoint plain_blanks (fuel : nat) (indent : Z) (start : marker) (lb : bool) (tb : N) (ws : list chr)
  : M (bool * N * list chr) :=
  match fuel with
  | O => oof
  | S fuel =>
    c <- peek ops ;;
    if is_blank c then
      s <- get ;;
      (if negb (sc_lws s) then skip_blank ops ;;; look ops 2 ;;; plain_blanks fuel indent start lb tb (c :: ws)
       else if (Z.of_N (m_col (sc_mark s)) <? indent)%Z && (c =? 9) then
         skip_ws_to_eol ops F SkipYes ;;; b <- next_is ops is_breakz ;;
         if b then look ops 2 ;;; plain_blanks fuel indent start lb tb ws else fail 77 start
       else skip_blank ops ;;; look ops 2 ;;; plain_blanks fuel indent start lb tb ws)
    else if is_break c then
      s <- get ;;
      (if sc_lws s then skip_break ops ;;; look ops 2 ;;; plain_blanks fuel indent start lb (tb + 1) ws
       else skip_break ops ;;; modify (set_lws true) ;;; look ops 2 ;;; plain_blanks fuel indent start true tb [])
    else ret (lb, tb, ws)
  end.

Definition scan_plain_scalar : M token :=
  unroll_non_block_indents ;;;
  s0 <- get ;;
  let indent := (sc_indent s0 + 1)%Z in
  let start := sc_mark s0 in
  if (0 <? sc_flow_level s0) && (Z.of_N (m_col start) <? indent)%Z then fail 75 start else
  r <- (fix go (f : nat) (acc : list chr) (lb : bool) (tb : N) (ws : list chr) (endm : marker)
        : M (list chr * marker) :=
     match f with
     | O => oof
     | S f =>
       look ops 4 ;;;
       s <- get ;;
       di <- (if sc_lws s && (m_col (sc_mark s) =? 0) then next_is_document_indicator ops else ret false) ;;
       c <- peek ops ;;
       if di || (c =? 35) then ret (acc, endm) else
       nc <- peekn ops 1 ;;
       let fl := 0 <? sc_flow_level s in
       if (match acc with [] => true | _ => false end) && fl && (c =? 45) && is_flow nc then fail 76 (sc_mark s) else
       cb <- (if is_blank_or_breakz c then ret false else next_can_be_plain_scalar ops fl) ;;
       r <- (if cb then
               let '(acc, lb, tb, ws) :=
                 if sc_lws s then
                   (if negb lb then (nls tb acc, false, 0, ws)
                    else if tb =? 0 then (32 :: acc, false, 0, ws)
                    else (nls tb acc, false, 0, ws))
                 else (ws ++ acc, lb, tb, []) in
               modify (set_lws false) ;;;
               skip_non_blank ops ;;;
               look ops (bufmaxlen ops) ;;;
               acc <- plain_chunk F 0 (c :: acc) ;;
               m <- mark ;; ret (acc, lb, tb, ws, m)
             else ret (acc, lb, tb, ws, endm)) ;;
       let '(acc, lb, tb, ws, endm) := r in
       c <- peek ops ;;
       if negb (is_blank c || is_break c) then ret (acc, endm) else
       look ops 2 ;;;
       r <- plain_blanks F indent start lb tb ws ;;
       let '(lb, tb, ws) := r in
       s <- get ;;
       if (sc_flow_level s =? 0) && (Z.of_N (m_col (sc_mark s)) <? indent)%Z then ret (acc, endm)
       else go f acc lb tb ws endm
     end) F [] false 0 [] start ;;
  s <- get ;;
  (if sc_lws s then allow_simple_key else ret tt) ;;;
  match fst r with
  | [] => fail 78 start
  | _ => ret ({| sp_start := start; sp_end := snd r |}, TScalar Plain (rev (fst r)))
  end.

(* ---- block scalars (1561-1878) ---- *)
Inductive chomping := Strip | Clip | Keep.

Definition scan_block_scalar_content_line (acc : list chr) : M (list chr) :=
  acc <- (fix go (f : nat) (acc : list chr) : M (list chr) :=
            match f with
            | O => oof
            | S f =>
              e <- buf_is_empty ops ;;
              if e then ret acc else
              c <- peek ops ;; if is_breakz c then ret acc else skip_blank ops ;;; go f (c :: acc)
            end) F acc ;;
  e <- buf_is_empty ops ;;
  if e then
    (fix raw (f : nat) (acc : list chr) (n : N) : M (list chr) :=
       match f with
       | O => oof
       | S f => c <- raw_read ops ;;
                match c with
                | Some c => raw f (c :: acc) (n + 1)
                | None => adv_mark n ;;; ret acc
                end
       end) F acc 0
  else ret acc.

Definition col : M N := gets (fun s => m_col (sc_mark s)).

Fixpoint skip_spaces_to (fuel : nat) (indent : N) (check_buf : bool) : M unit :=
  match fuel with
  | O => oof
  | S fuel =>
    e <- (if check_buf then buf_is_empty ops else ret false) ;;
    k <- col ;;
    if e || negb (k <? indent) then ret tt else
    c <- peek ops ;; if c =? 32 then skip_blank ops ;;; skip_spaces_to fuel indent check_buf else ret tt
  end.

Fixpoint skip_block_scalar_indent (fuel : nat) (indent : N) (breaks : N) : M N :=
  match fuel with
  | O => oof
  | S fuel =>
    (if Nat.ltb (bufmaxlen ops) 2 then panic 121 else ret tt) ;;;
    (if indent <? N.of_nat (bufmaxlen ops - 2) then
       look ops (bufmaxlen ops) ;;; skip_spaces_to F indent false
     else
       (fix wide (f : nat) : M unit :=
          match f with
          | O => oof
          | S f =>
            look ops (bufmaxlen ops) ;;; skip_spaces_to F indent true ;;;
            k <- col ;; e <- buf_is_empty ops ;;
            c <- (if e then ret 32 else peek ops) ;;
            if (k =? indent) || (negb e && negb (c =? 32)) then ret tt else wide f
          end) F ;;; look ops 2) ;;;
    b <- next_is ops is_break ;;
    if b then skip_break ops ;;; skip_block_scalar_indent fuel indent (breaks + 1) else ret breaks
  end.

Fixpoint skip_first_line_indent (fuel : nat) (maxi : N) (breaks : N) : M (N * N) :=
  match fuel with
  | O => oof
  | S fuel =>
    (fix sp (f : nat) : M unit :=
       match f with O => oof | S f => c <- look_ch ops ;; if c =? 32 then skip_blank ops ;;; sp f else ret tt end) F ;;;
    k <- col ;;
    let maxi := N.max maxi k in
    b <- next_is ops is_break ;;
    if b then look ops 2 ;;; skip_break ops ;;; skip_first_line_indent fuel maxi (breaks + 1)
    else ret (maxi, breaks)
  end.

Definition scan_block_scalar (literal : bool) : M token :=
  start <- mark ;;
  let style := if literal then Literal else Folded in
  skip_non_blank ops ;;;
  unroll_non_block_indents ;;;
  c <- look_ch ops ;;
  let chomp_of c := if c =? 43 then Keep else Strip in
  hd <- (if (c =? 43) || (c =? 45) then
           skip_non_blank ops ;;; look ops 1 ;;; d <- peek ops ;;
           if is_digit d then
             (if d =? 48 then fail 80 start else skip_non_blank ops ;;; ret (chomp_of c, d - 48))
           else ret (chomp_of c, 0)
         else if is_digit c then
           (if c =? 48 then fail 80 start else
            skip_non_blank ops ;;; look ops 1 ;;; d <- peek ops ;;
            if (d =? 43) || (d =? 45) then skip_non_blank ops ;;; ret (chomp_of d, c - 48)
            else ret (Clip, c - 48))
         else ret (Clip, 0)) ;;
  let '(chomp, increment) := hd in
  skip_ws_to_eol ops F SkipYes ;;;
  look ops 1 ;;;
  c <- peek ops ;;
  if negb (is_breakz c) then fail 81 start else
  cbreak <- (if is_break c then look ops 2 ;;; skip_break ops ;;; ret 1 else ret 0) ;;
  c <- look_ch ops ;;
  if c =? 9 then fail 82 start else
  s <- get ;;
  let indent0 := if 0 <? increment then
                   (if (0 <=? sc_indent s)%Z then Z.to_N (sc_indent s + Z.of_N increment) else increment)
                 else 0 in
  ib <- (if indent0 =? 0 then
           r <- skip_first_line_indent F 0 0 ;;
           let i := N.max (fst r) (Z.to_N (sc_indent s + 1)) in
           ret (if (0 <? sc_indent s)%Z then N.max i 1 else i, snd r)
         else b <- skip_block_scalar_indent F indent0 0 ;; ret (indent0, b)) ;;
  let '(indent, tbreaks) := ib in
  z <- next_is ops is_z ;;
  s <- get ;;
  if z then
    let contents :=
      match chomp with
      | Strip => 0
      | _ => if m_line (sc_mark s) =? m_line start then 0
             else match chomp with
                  | Clip => 0
                  | _ => tbreaks + (if 0 <? m_col (sc_mark s) then 1 else 0)
                  end
      end in
    ret ({| sp_start := start; sp_end := sc_mark s |}, TScalar style (nls contents []))
  else
  wrong <- (if (m_col (sc_mark s) <? indent) && (sc_indent s <? Z.of_N (m_col (sc_mark s)))%Z then
              look ops 4 ;;; di <- next_is_document_indicator ops ;;
              ret (negb ((m_col (sc_mark s) =? 0) && di))
            else ret false) ;;
  if wrong then fail 83 (sc_mark s) else
  s <- get ;;
  let cstart := sc_mark s in
  r <- (fix go (f : nat) (acc : list chr) (lb : N) (tb : N) (leading_blank : bool) : M (list chr * N * N) :=
     match f with
     | O => oof
     | S f =>
       k <- col ;; z <- next_is ops is_z ;;
       if negb (k =? indent) || z then ret (acc, lb, tb) else
       de <- (if indent =? 0 then look ops 4 ;;; next_is_document_indicator ops else ret false) ;;
       if de then ret (acc, lb, tb) else
       trailing_blank <- next_is ops is_blank ;;
       let acc :=
         if negb literal && negb (lb =? 0) && negb leading_blank && negb trailing_blank then
           (if tb =? 0 then 32 :: acc else nls tb acc)
         else nls tb (nls lb acc) in
       acc <- scan_block_scalar_content_line acc ;;
       look ops 2 ;;;
       z <- next_is ops is_z ;;
       if z then ret (acc, 0, 0) else
       skip_break ops ;;;
       tb <- skip_block_scalar_indent F indent 0 ;;
       go f acc 1 tb trailing_blank
     end) F [] 0 tbreaks false ;;
  let '(acc, lb, tb) := r in
  z <- next_is ops is_z ;; k <- col ;;
  let acc := match chomp with
             | Strip => acc
             | _ => let acc := nls lb acc in if (lb =? 0) && z && (N.max indent 1 <=? k) then 10 :: acc else acc
             end in
  let acc := match chomp with
             | Keep => let acc := nls tb acc in if negb (lb =? 0) && z && (0 <? k) then 10 :: acc else acc
             | _ => acc end in
  m <- mark ;;
  ret ({| sp_start := cstart; sp_end := m |}, TScalar style (rev acc)).

End Scal.
