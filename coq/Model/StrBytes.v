(* C10 — byte-level model of parser/src/input/str.rs (`StrInput`).

   State = the remaining BYTES of the `&str` buffer (each < 256; valid UTF-8 by the type invariant of `str`) and the
   `lookahead` counter.  One Gallina function per method of `impl Input for StrInput`, transliterated at byte level:
   the same byte comparisons (`bytes[i] as char` is the code point equal to the byte), the same index arithmetic,
   `Chars::next` / `split_first_char` as "decode one character from the front" ([next_char]), `str::len` as the number of
   bytes.  Rust panics are explicit outcomes:
     Panic 300  index out of bounds                     (`as_bytes()[i]`)
     Panic 301  byte index is not a char boundary / slice end out of range   (`&s[i..]`, `&s[..i]`)
     Panic 302  the buffer is not valid UTF-8           (excluded by the invariant of `&str`; `Chars::next` does not check)
     Panic 303  attempt to subtract with overflow       (usize subtraction)
   The counts returned by skip_ws_to_eol / skip_while_non_breakz / skip_while_blank / fetch_while_is_alpha are computed
   exactly as the Rust code computes them (byte-length differences, byte indices, or per-character increments).
   Executable definitions only; the refinement theorems are in Proofs/StrBytesProofs.v. *)
From Coq Require Import List NArith ZArith Bool.
Import ListNotations.
Require Import Parser SBase SPrim TagSpec.
Open Scope N_scope.

Notation byte := N (only parsing).
Record bstr := { sb_bytes : list byte; sb_look : nat }.
Definition set_bytes (b : bstr) (bs : list byte) : bstr := {| sb_bytes := bs; sb_look := sb_look b |}.

Definition bindo {A B} (o : outcome A) (k : A -> outcome B) : outcome B :=
  match o with Ok a => k a | Err e m => Err e m | Panic n => Panic n | OutOfFuel => OutOfFuel end.

(* ---- str / slice primitives ---- *)
(* bytes[i] *)
Definition byte_at (bs : list byte) (i : nat) : outcome byte :=
  match nth_error bs i with Some b => Ok b | None => Panic 300 end.
(* str::is_char_boundary: 0, len, or a byte that is not a continuation byte ((b as i8) >= -0x40) *)
Definition is_char_boundary (bs : list byte) (i : nat) : bool :=
  match i with
  | O => true
  | _ => match nth_error bs i with
         | Some b => (b <? 128) || (192 <=? b)
         | None => Nat.eqb i (length bs)
         end
  end.
(* &s[i..] and &s[..i] *)
Definition slice_from (bs : list byte) (i : nat) : outcome (list byte) :=
  if is_char_boundary bs i then Ok (skipn i bs) else Panic 301.
Definition slice_to (bs : list byte) (i : nat) : outcome (list byte) :=
  if is_char_boundary bs i then Ok (firstn i bs) else Panic 301.
Definition is_empty (bs : list byte) : bool := match bs with [] => true | _ => false end.

(* Chars::next on the remaining bytes (and `split_first_char`): the character and `chars.as_str()` afterwards.
   The length comes from the leading byte; the sequence is decoded by the strict RFC 3629 decoder of Spec/TagSpec.v. *)
Definition next_char (bs : list byte) : outcome (option (chr * list byte)) :=
  match bs with
  | [] => Ok None
  | b :: _ => match sequence_length b with
              | Some n => match utf8_decode (firstn n bs) with
                          | Some c => Ok (Some (c, skipn n bs))
                          | None => Panic 302
                          end
              | None => Panic 302
              end
  end.
(* char::len_utf8 *)
Definition char_len_utf8 (c : chr) : nat := if c <? 128 then 1 else if c <? 2048 then 2 else if c <? 65536 then 3 else 4.

(* ---- required methods ---- *)
Definition sb_lookahead (x : nat) (b : bstr) : bstr := {| sb_bytes := sb_bytes b; sb_look := Nat.max (sb_look b) x |}.
Definition sb_buflen (b : bstr) : nat := sb_look b.
Definition sb_bufmaxlen : nat := 128.
Definition sb_buf_is_empty (b : bstr) : bool := Nat.eqb (sb_buflen b) 0.

Definition sb_raw_read_ch (b : bstr) : outcome (chr * bstr) :=
  bindo (next_char (sb_bytes b)) (fun o =>
    match o with Some (c, r) => Ok (c, set_bytes b r) | None => Ok (0, b) end).

Definition sb_raw_read_non_breakz_ch (b : bstr) : outcome (option chr * bstr) :=
  bindo (next_char (sb_bytes b)) (fun o =>
    match o with
    | Some (c, r) => if is_breakz c then Ok (None, b) else Ok (Some c, set_bytes b r)
    | None => Ok (None, b)
    end).

Definition sb_skip (b : bstr) : outcome bstr :=
  bindo (next_char (sb_bytes b)) (fun o =>
    match o with Some (_, r) => Ok (set_bytes b r) | None => Ok b end).

(* for _ in 0..count { if chars.next().is_none() { break; } } ; chars.as_str() *)
Fixpoint chars_advance (count : nat) (bs : list byte) : outcome (list byte) :=
  match count with
  | O => Ok bs
  | S k => bindo (next_char bs) (fun o => match o with Some (_, r) => chars_advance k r | None => Ok bs end)
  end.
Definition sb_skip_n (count : nat) (b : bstr) : outcome bstr :=
  bindo (chars_advance count (sb_bytes b)) (fun r => Ok (set_bytes b r)).

Definition chars_peek (bs : list byte) : outcome chr :=
  bindo (next_char bs) (fun o => match o with Some (c, _) => Ok c | None => Ok 0 end).
Definition sb_peek (b : bstr) : outcome chr := chars_peek (sb_bytes b).
Fixpoint chars_peek_nth (n : nat) (bs : list byte) : outcome chr :=
  match n with
  | O => chars_peek bs
  | S k => bindo (next_char bs) (fun o => match o with Some (_, r) => chars_peek_nth k r | None => Ok 0 end)
  end.
Definition sb_peek_nth (n : nat) (b : bstr) : outcome chr := chars_peek_nth n (sb_bytes b).

(* ---- overridden provided methods ---- *)
Definition sb_look_ch (b : bstr) : outcome (chr * bstr) :=
  let b' := sb_lookahead 1 b in bindo (sb_peek b') (fun c => Ok (c, b')).
Definition sb_next_char_is (c : chr) (b : bstr) : outcome bool := bindo (sb_peek b) (fun x => Ok (x =? c)).
Definition sb_nth_char_is (n : nat) (c : chr) (b : bstr) : outcome bool := bindo (sb_peek_nth n b) (fun x => Ok (x =? c)).

(* chars.next().is_some_and(|c| c == c1) && chars.next().is_some_and(|c| c == c2)   (&& short-circuits) *)
Definition sb_next_2_are (c1 c2 : chr) (b : bstr) : outcome bool :=
  bindo (next_char (sb_bytes b)) (fun o1 =>
    match o1 with
    | Some (x, r1) =>
        if x =? c1 then
          bindo (next_char r1) (fun o2 => match o2 with Some (y, _) => Ok (y =? c2) | None => Ok false end)
        else Ok false
    | None => Ok false
    end).
Definition sb_next_3_are (c1 c2 c3 : chr) (b : bstr) : outcome bool :=
  bindo (next_char (sb_bytes b)) (fun o1 =>
    match o1 with
    | Some (x, r1) =>
        if x =? c1 then
          bindo (next_char r1) (fun o2 =>
            match o2 with
            | Some (y, r2) =>
                if y =? c2 then
                  bindo (next_char r2) (fun o3 => match o3 with Some (z, _) => Ok (z =? c3) | None => Ok false end)
                else Ok false
            | None => Ok false
            end)
        else Ok false
    | None => Ok false
    end).

(* (bytes.len() == 3 || is_blank_or_breakz(bytes[3] as char)) — the common first conjunct of the three indicator tests *)
Definition fourth_ends (bytes : list byte) : outcome bool :=
  if Nat.eqb (length bytes) 3 then Ok true else bindo (byte_at bytes 3) (fun b3 => Ok (is_blank_or_breakz b3)).

Definition sb_next_is_document_indicator (b : bstr) : outcome bool :=
  let bytes := sb_bytes b in
  if Nat.ltb (length bytes) 3 then Ok false else
  bindo (fourth_ends bytes) (fun t =>
    if t then
      bindo (byte_at bytes 0) (fun b0 =>
        if (b0 =? 46) || (b0 =? 45) then
          bindo (byte_at bytes 1) (fun b1 =>
            if b0 =? b1 then bindo (byte_at bytes 2) (fun b2 => Ok (b1 =? b2)) else Ok false)
        else Ok false)
    else Ok false).

Definition three_bytes_are (x : byte) (bytes : list byte) : outcome bool :=
  bindo (byte_at bytes 0) (fun b0 =>
    if b0 =? x then
      bindo (byte_at bytes 1) (fun b1 =>
        if b1 =? x then bindo (byte_at bytes 2) (fun b2 => Ok (b2 =? x)) else Ok false)
    else Ok false).
Definition sb_next_is_document_start (b : bstr) : outcome bool :=
  let bytes := sb_bytes b in
  if Nat.ltb (length bytes) 3 then Ok false else
  bindo (fourth_ends bytes) (fun t => if t then three_bytes_are 45 bytes else Ok false).
Definition sb_next_is_document_end (b : bstr) : outcome bool :=
  let bytes := sb_bytes b in
  if Nat.ltb (length bytes) 3 then Ok false else
  bindo (fourth_ends bytes) (fun t => if t then three_bytes_are 46 bytes else Ok false).

(* skip_ws_to_eol.  `assert!(!matches!(skip_tabs, SkipTabs::Result(..)))` holds by typing: [skiptabs] has the two
   constructors the scanner passes.  `strip_prefix(' ')` on a &str compares the first byte with 0x20 and slices one
   byte off.  [strip_ws tabs] is the first pair of loops (tabs = (skip_tabs == SkipTabs::Yes)). *)
Fixpoint strip_ws (tabs : bool) (bs : list byte) (tab ws : bool) : list byte * bool * bool :=
  match bs with
  | b :: r => if b =? 32 then strip_ws tabs r tab true
              else if tabs && (b =? 9) then strip_ws tabs r true ws
              else (bs, tab, ws)
  | [] => ([], tab, ws)
  end.
(* while let Some((c, sub_str)) = split_first_char(new_str) { if is_breakz(c) { break; } new_str = sub_str; count += 1; } *)
Fixpoint non_breakz_run (fuel : nat) (bs : list byte) (count : N) : outcome (list byte * N) :=
  match fuel with
  | O => OutOfFuel
  | S f => bindo (next_char bs) (fun o =>
             match o with
             | Some (c, r) => if is_breakz c then Ok (bs, count) else non_breakz_run f r (count + 1)
             | None => Ok (bs, count)
             end)
  end.
(* result: ((chars_consumed, Some (encountered_tab, has_yaml_ws) | None = Err("comments must be separated…")), input) *)
(* the part of skip_ws_to_eol after the two trimming loops: [sw] = (new_str, encountered_tab, has_yaml_ws) *)
Definition skip_ws_finish (b : bstr) (buffer : list byte) (sw : list byte * bool * bool) : outcome ((N * option (bool * bool)) * bstr) :=
  let new_str := fst (fst sw) in let tab := snd (fst sw) in let ws := snd sw in
  (* let mut chars_consumed = self.buffer.len() - new_str.len(); *)
  if Nat.ltb (length buffer) (length new_str) then Panic 303 else
  let consumed := N.of_nat (length buffer - length new_str) in
  if negb (is_empty new_str) then
    bindo (byte_at new_str 0) (fun h =>
      if h =? 35 then
        if negb tab && negb ws then Ok ((consumed, None), b)          (* early return: self.buffer is not updated *)
        else bindo (non_breakz_run (S (length new_str)) new_str consumed) (fun rk =>
               Ok ((snd rk, Some (tab, ws)), set_bytes b (fst rk)))
      else Ok ((consumed, Some (tab, ws)), set_bytes b new_str))
  else Ok ((consumed, Some (tab, ws)), set_bytes b new_str).
Definition sb_skip_ws_to_eol (st : skiptabs) (b : bstr) : outcome ((N * option (bool * bool)) * bstr) :=
  skip_ws_finish b (sb_bytes b)
    (strip_ws (match st with SkipYes => true | SkipNo => false end) (sb_bytes b) false false).

Definition sb_next_can_be_plain_scalar (in_flow : bool) (b : bstr) : outcome bool :=
  let bytes := sb_bytes b in
  bindo (byte_at bytes 0) (fun c =>
    if Nat.ltb 1 (length bytes) then
      bindo (byte_at bytes 1) (fun nc =>
        if (c =? 58) && (is_blank_or_breakz nc || (in_flow && is_flow nc)) then Ok false
        else if in_flow && is_flow c then Ok false else Ok true)
    else if c =? 58 then Ok false
    else if in_flow && is_flow c then Ok false else Ok true).

(* `!is_empty() && p(bytes[0] as char)` (on_empty = false) and `is_empty() || p(bytes[0] as char)` (on_empty = true) *)
Definition first_byte_is (on_empty : bool) (p : N -> bool) (b : bstr) : outcome bool :=
  if is_empty (sb_bytes b) then Ok on_empty else bindo (byte_at (sb_bytes b) 0) (fun x => Ok (p x)).
Definition sb_next_is_blank_or_break := first_byte_is false (fun x => is_blank x || is_break x).
Definition sb_next_is_blank_or_breakz := first_byte_is true (fun x => is_blank x || is_breakz x).
Definition sb_next_is_blank := first_byte_is false is_blank.
Definition sb_next_is_break := first_byte_is false is_break.
Definition sb_next_is_breakz := first_byte_is true is_breakz.
Definition sb_next_is_z := first_byte_is true is_z.
Definition sb_next_is_flow := first_byte_is false is_flow.
Definition sb_next_is_digit := first_byte_is false is_digit.
Definition sb_next_is_alpha := first_byte_is false is_alpha.

Definition sb_skip_while_non_breakz (b : bstr) : outcome (N * bstr) :=
  bindo (non_breakz_run (S (length (sb_bytes b))) (sb_bytes b) 0) (fun rk => Ok (snd rk, set_bytes b (fst rk))).

(* while i < len { if !is_blank(bytes[i] as char) { break; } i += 1; }   ([bs] is the suffix starting at index i) *)
Fixpoint blank_run (bs : list byte) (i : nat) : nat :=
  match bs with
  | b :: r => if is_blank b then blank_run r (S i) else i
  | [] => i
  end.
Definition sb_skip_while_blank (b : bstr) : outcome (N * bstr) :=
  let i := blank_run (sb_bytes b) 0 in
  bindo (slice_from (sb_bytes b) i) (fun r => Ok (N.of_nat i, set_bytes b r)).

(* for c in chars.by_ref() { if !is_alpha(c) { not_alpha = Some(c); break; } } : (not_alpha, chars.as_str()) *)
Fixpoint alpha_scan (fuel : nat) (chars : list byte) : outcome (option chr * list byte) :=
  match fuel with
  | O => OutOfFuel
  | S f => bindo (next_char chars) (fun o =>
             match o with
             | Some (c, r) => if is_alpha c then alpha_scan f r else Ok (Some c, r)
             | None => Ok (None, chars)
             end)
  end.
(* `out` is the String the letters are appended to (its bytes); pointer differences into self.buffer are differences
   of remaining lengths *)
Definition sb_fetch_while_is_alpha (out : list byte) (b : bstr) : outcome ((list byte * N) * bstr) :=
  let buffer := sb_bytes b in
  bindo (alpha_scan (S (length buffer)) buffer) (fun nr =>
    let n_bytes_read := (length buffer - length (snd nr))%nat in
    bindo (match fst nr with
           | Some c => let l := char_len_utf8 c in
                       if Nat.ltb n_bytes_read l then Panic 303 else slice_from buffer (n_bytes_read - l)
           | None => Ok (snd nr)
           end) (fun remaining =>
      let n_bytes_to_append := (length buffer - length remaining)%nat in
      bindo (slice_to buffer n_bytes_to_append) (fun pre =>
        Ok ((out ++ pre, N.of_nat n_bytes_to_append), set_bytes b remaining)))).

(* ---- the byte-level instance of the primitive operations of the scanner model ---- *)
Definition bytes_ops : InputOps bstr := {|
  lookahead := fun n b => Ok (sb_lookahead n b);
  buflen := sb_buflen;
  bufmaxlen := sb_bufmaxlen;
  peek_nth := sb_peek_nth;
  skip1 := fun b => match sb_skip b with Ok b' => b' | _ => b end;
  skip_n := sb_skip_n;
  raw_read_non_breakz := sb_raw_read_non_breakz_ch;
|}.

(* the encoder: the bytes of a `&str` holding the characters cs *)
Definition bytes_of (cs : list chr) : list byte := flat_map utf8_encode cs.
Definition bstr_of (s : strin) : bstr := {| sb_bytes := bytes_of (si_chars s); sb_look := si_look s |}.
