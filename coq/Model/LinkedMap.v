(* hashlink::LinkedHashMap as an association list in iteration order, over any key/value type with a
   boolean equality:  insert = existing equal key: value replaced, entry moved to the back, OLD key object
   kept; otherwise appended.  (Validated against the real crate by the C07/C19 correspondence runs.) *)
From Coq Require Import List Bool.
Import ListNotations.

Section LinkedMap.
  Variable T : Type.
  Variable eqb : T -> T -> bool.

  Fixpoint lm_remove (k : T) (l : list (T * T)) : option T * list (T * T) :=
    match l with
    | [] => (None, [])
    | (k', v') :: r => if eqb k k' then (Some k', r)
                       else let '(o, r') := lm_remove k r in (o, (k', v') :: r')
    end.
  Definition lm_insert (k v : T) (l : list (T * T)) : list (T * T) :=
    match lm_remove k l with
    | (Some k0, r) => r ++ [(k0, v)]
    | (None, r) => r ++ [(k, v)]
    end.
  Definition lm_ins (p : T * T) (l : list (T * T)) : list (T * T) := lm_insert (fst p) (snd p) l.
  (* FromIterator / Extend: insert the entries one by one *)
  Definition lm_collect (l : list (T * T)) : list (T * T) := fold_left (fun acc p => lm_ins p acc) l [].

  Definition lm_mem (k : T) (l : list (T * T)) : bool := existsb (fun p => eqb k (fst p)) l.
  (* drop every entry whose key occurs again later *)
  Fixpoint lm_dedup (l : list (T * T)) : list (T * T) :=
    match l with [] => [] | p :: r => if lm_mem (fst p) r then lm_dedup r else p :: lm_dedup r end.
  Fixpoint lm_nodupb (l : list (T * T)) : bool :=
    match l with [] => true | p :: r => negb (lm_mem (fst p) r) && lm_nodupb r end.
  Fixpoint lm_get (k : T) (l : list (T * T)) : option T :=
    match l with [] => None | p :: r => if eqb k (fst p) then Some (snd p) else lm_get k r end.
End LinkedMap.
Arguments lm_remove {T} eqb k l.
Arguments lm_insert {T} eqb k v l.
Arguments lm_ins {T} eqb p l.
Arguments lm_collect {T} eqb l.
Arguments lm_mem {T} eqb k l.
Arguments lm_dedup {T} eqb l.
Arguments lm_nodupb {T} eqb l.
Arguments lm_get {T} eqb k l.
