(* Models of the two encoding_rs (0.8.41) decoders that saphyr/src/encoding.rs drives, as INCREMENTAL decoders
   with the interface decode_loop uses:

     Decoder::decode_to_string_without_replacement (src, dst, last)
        -> (InputEmpty | OutputFull | Malformed (bad_len, extra), bytes read)   + what was appended to dst

   * [u8_raw]        = utf_8.rs   Utf8Decoder::decode_to_utf8_raw    (macros.rs decoder_function!)
   * [fast8]         = handles.rs Utf8Destination::copy_utf8_up_to_invalid_from (utf8_valid_up_to + memcpy)
   * [u16_raw]       = utf_16.rs  Utf16Decoder::decode_to_utf8_raw
   * [fast16]        = handles.rs Utf8Destination::copy_utf16_from + convert_unaligned_utf16_to_utf8
   * [decoder_step]  = macros.rs  public_decode_function! (BOM sniffing of a decoder made by new_decoder())
                       followed by lib.rs decode_to_string_without_replacement, with last = true
   * [decode_model]  = YamlDecoder::decode up to the call of Yaml::load_from_str

   Conventions.  The output String is its text (list of scalar values); a decoder returns the characters it
   appended, their UTF-8 length ([text_len]) is the number of bytes written.  [spare] is the spare capacity
   dst.capacity() - dst.len() the call starts with.  Bit operations on bytes are written arithmetically
   (b & 0x3F = b mod 64, x << 6 | y = x * 64 + y for y < 64).  Every loop of the Rust code that consumes at
   least one byte per iteration is a Fixpoint on a fuel of (length src + 1) iterations.

   What is NOT literal:
   * memcpy of validated bytes / writes of encoded characters are "append the character";
   * Utf16Decoder's end-of-input exit `return (OutputFull, 0, 0)` (utf_16.rs eof block, no room for a later
     U+FFFD) reports the bytes read and the characters written so far in the call instead of (0, 0): the two
     coincide, because that exit needs spare < 3 while every byte read in the call needed spare >= 4 and
     nothing is written after a read that leaves a unit pending, so the call has read and written nothing
     (proved: Proofs/DecoderContract.v u16_eof_exit_literal);
   * BOM sniffing is modelled for the way the loop calls the decoder: the whole remaining input in one slice
     with last = true, so the sniffing states SeenUtf8First .. ConvertingWithPendingBB, which only survive a
     call when last = false, do not occur: a decoder that is AtStart looks at the first 2/3 bytes of its
     first non-empty slice exactly like Encoding::for_bom. *)
From Coq Require Import List NArith Bool.
Import ListNotations.
Require Import Consts Decode TagSpec.
Open Scope N_scope.

(* ================================================================================================ *)
(* UTF-8                                                                                             *)
(* ================================================================================================ *)
Record u8st := U8 { u_cp : N; u_seen : N; u_needed : N; u_lo : N; u_hi : N }.

(* Utf8Decoder::new_inner *)
Definition u8_new : u8st := U8 0 0 0 128 191.

(* the complete well-formed sequence at the head of [bs], if any: (scalar value, number of bytes) *)
Definition valid_head (bs : list N) : option (N * nat) :=
  match bs with
  | [] => None
  | b :: _ =>
      match sequence_length b with
      | Some k => match utf8_decode (firstn k bs) with Some c => Some (c, k) | None => None end
      | None => None
      end
  end.

(* copy_utf8_up_to_invalid_from: the bytes of utf8_valid_up_to (src[..min (src.len, dst.len)]) are copied,
   i.e. complete well-formed sequences as long as they fit: (characters, bytes, rest of the input) *)
Fixpoint fast8 (fuel : nat) (rem : list N) (spare : N) : list N * N * list N :=
  match fuel with
  | O => ([], 0, rem)
  | S f =>
      match valid_head rem with
      | Some (c, k) =>
          if N.of_nat k <=? spare then
            let '(cs, n, rest) := fast8 f (skipn k rem) (spare - N.of_nat k) in
            (c :: cs, N.of_nat k + n, rest)
          else ([], 0, rem)
      | None => ([], 0, rem)
      end
  end.

Fixpoint u8_loop (fuel : nat) (last : bool) (st : u8st) (rem : list N) (spare rd : N)
  : u8st * xresult * list N :=
  match fuel with
  | O => (st, XOutputFull rd, [])
  | S f =>
      (* loop_preamble: the fast path *)
      let '(cs, k, rem1) := if u_needed st =? 0 then fast8 (length rem) rem spare else ([], 0, rem) in
      let spare1 := spare - k in
      let rd1 := rd + k in
      let '(st', r, cs') :=
        match rem1 with
        | [] =>
            (* source.check_available() = Full: eof block *)
            if last && negb (u_needed st =? 0)
            then (U8 0 0 0 (u_lo st) (u_hi st), XMalformed ((u_seen st + 1) mod 256) 0 rd1, [])
            else (st, XInputEmpty, [])
        | b :: tl =>
            (* dest.check_space_astral() *)
            if spare1 <? 4 then (st, XOutputFull rd1, [])
            else if u_needed st =? 0 then
              if b <? 128 then
                let '(s, r, c) := u8_loop f last st tl (spare1 - 1) (rd1 + 1) in (s, r, b :: c)
              else if b <? 194 then (st, XMalformed 1 0 (rd1 + 1), [])
              else if b <? 224 then
                u8_loop f last (U8 (b mod 32) (u_seen st) 1 (u_lo st) (u_hi st)) tl spare1 (rd1 + 1)
              else if b <? 240 then
                u8_loop f last (U8 (b mod 16) (u_seen st) 2
                                   (if b =? 224 then 160 else u_lo st) (if b =? 237 then 159 else u_hi st))
                        tl spare1 (rd1 + 1)
              else if b <? 245 then
                u8_loop f last (U8 (b mod 8) (u_seen st) 3
                                   (if b =? 240 then 144 else u_lo st) (if b =? 244 then 143 else u_hi st))
                        tl spare1 (rd1 + 1)
              else (st, XMalformed 1 0 (rd1 + 1), [])
            else if negb ((u_lo st <=? b) && (b <=? u_hi st)) then
              (* unread_handle.unread(): the offending byte is not consumed *)
              (U8 0 0 0 128 191, XMalformed ((u_seen st + 1) mod 256) 0 rd1, [])
            else
              let cp := u_cp st * 64 + b mod 64 in
              let seen := u_seen st + 1 in
              if negb (seen =? u_needed st) then
                u8_loop f last (U8 cp seen (u_needed st) 128 191) tl spare1 (rd1 + 1)
              else
                let '(s, r, c) := u8_loop f last (U8 0 0 0 128 191) tl (spare1 - utf8_len cp) (rd1 + 1) in
                (s, r, cp :: c)
        end in
      (st', r, cs ++ cs')
  end.

Definition u8_raw (last : bool) (st : u8st) (src : list N) (spare : N) : u8st * xresult * list N :=
  u8_loop (S (length src)) last st src spare 0.

(* bytes consumed and not yet settled: the leading byte and the continuation bytes seen.  On the states the
   decoder reaches (bytes_seen = 0 whenever bytes_needed = 0) this is Utf8Decoder::extra_from_state. *)
Definition u8_pending (st : u8st) : N := u_seen st + (if u_needed st =? 0 then 0 else 1).

(* ================================================================================================ *)
(* UTF-16                                                                                            *)
(* ================================================================================================ *)
Record u16st := U16 { w_surrogate : N; w_lead_byte : option N; w_pending_bmp : bool }.

(* Utf16Decoder::new *)
Definition u16_new : u16st := U16 0 None false.

Definition code_unit (be : bool) (first second : N) : N :=
  if be then first * 256 + second else second * 256 + first.
(* (unit & 0xFC00) == 0xD800 / == 0xDC00 *)
Definition high_surrogate (u : N) : bool := (55296 <=? u) && (u <? 56320).
Definition low_surrogate (u : N) : bool := (56320 <=? u) && (u <? 57344).
(* (lead << 10) + trail - (((0xD800 << 10) - 0x10000) + 0xDC00) *)
Definition surrogate_pair (lead trail : N) : N := lead * 1024 + trail - 56613888.

(* copy_utf16_from after its `dst.len() < 4` test: (characters, bytes read, had_error, rest of the input).
   The last code unit of the slice is left alone when it is a high surrogate (trim_last).
   [after_non_ascii]: the conversion loop has just written a non-ASCII character and goes on only if an
   astral character still fits; in a run of ASCII units one free byte suffices. *)
Fixpoint fast16 (be : bool) (after_non_ascii : bool) (rem : list N) (spare : N) : list N * N * bool * list N :=
  match rem with
  | b0 :: b1 :: tl =>
      let u := code_unit be b0 b1 in
      let is_last := match tl with _ :: _ :: _ => false | _ => true end in
      if is_last && high_surrogate u then ([], 0, false, rem)
      else if u <? 128 then
        if (if after_non_ascii then spare <? 4 else spare <? 1) then ([], 0, false, rem)
        else
          let '(cs, n, e, rest) := fast16 be false tl (spare - 1) in (u :: cs, 2 + n, e, rest)
      else if spare <? 4 then ([], 0, false, rem)
      else if high_surrogate u then
        match tl with
        | c0 :: c1 :: tl2 =>
            let v := code_unit be c0 c1 in
            if low_surrogate v then
              let '(cs, n, e, rest) := fast16 be true tl2 (spare - 4) in
              (surrogate_pair u v :: cs, 4 + n, e, rest)
            else ([], 2, true, tl)
        | _ => ([], 0, false, rem)
        end
      else if low_surrogate u then ([], 2, true, tl)
      else
        let '(cs, n, e, rest) := fast16 be true tl (spare - utf8_len u) in (u :: cs, 2 + n, e, rest)
  | _ => ([], 0, false, rem)
  end.

Definition u16_neutral (st : u16st) : bool :=
  (w_surrogate st =? 0) && match w_lead_byte st with None => true | Some _ => false end.

Fixpoint u16_loop (fuel : nat) (be last : bool) (st : u16st) (rem : list N) (spare rd : N)
  : u16st * xresult * list N :=
  match fuel with
  | O => (st, XOutputFull rd, [])
  | S f =>
      let ls := w_surrogate st in
      let pb := w_pending_bmp st in
      (* loop_preamble: the fast path *)
      let '(cs, k, err, rem1) :=
        if u16_neutral st && (4 <=? spare) then fast16 be false rem spare else ([], 0, false, rem) in
      if err then (st, XMalformed 2 0 (rd + k), cs)
      else
        let spare1 := spare - text_len cs in
        let rd1 := rd + k in
        let '(st', r, cs') :=
          match rem1 with
          | [] =>
              (* eof block *)
              if last && negb (u16_neutral st) then
                if spare1 <? 3 then (st, XOutputFull rd1, [])
                else if negb (ls =? 0) then
                  match w_lead_byte st with
                  | None => (U16 0 None pb, XMalformed 2 0 rd1, [])
                  | Some _ => (U16 0 None pb, XMalformed 3 0 rd1, [])
                  end
                else (U16 ls None pb, XMalformed 1 0 rd1, [])
              else (st, XInputEmpty, [])
          | b :: tl =>
              if spare1 <? 4 then (st, XOutputFull rd1, [])
              else
                match w_lead_byte st with
                | None => u16_loop f be last (U16 ls (Some b) pb) tl spare1 (rd1 + 1)
                | Some lead =>
                    let u := code_unit be lead b in
                    if high_surrogate u then
                      if negb (ls =? 0) then (U16 u None pb, XMalformed 2 2 (rd1 + 1), [])
                      else u16_loop f be last (U16 u None pb) tl spare1 (rd1 + 1)
                    else if low_surrogate u then
                      if ls =? 0 then (U16 ls None pb, XMalformed 2 0 (rd1 + 1), [])
                      else
                        let c := surrogate_pair ls u in
                        let '(s, r, cs2) := u16_loop f be last (U16 0 None pb) tl (spare1 - utf8_len c) (rd1 + 1) in
                        (s, r, c :: cs2)
                    else if negb (ls =? 0) then (U16 u None true, XMalformed 2 2 (rd1 + 1), [])
                    else
                      let '(s, r, cs2) := u16_loop f be last (U16 ls None pb) tl (spare1 - utf8_len u) (rd1 + 1) in
                      (s, r, u :: cs2)
                end
          end in
        (st', r, cs ++ cs')
  end.

(* preamble: a BMP unit left pending by Malformed(2, 2) is written first (check_space_bmp: 3 bytes);
   the field is a u16 *)
Definition u16_raw (be last : bool) (st : u16st) (src : list N) (spare : N) : u16st * xresult * list N :=
  if w_pending_bmp st then
    if spare <? 3 then (st, XOutputFull 0, [])
    else
      let c := w_surrogate st mod 65536 in
      let '(s, r, cs) := u16_loop (S (length src)) be last (U16 0 (w_lead_byte st) false) src (spare - utf8_len c) 0 in
      (s, r, c :: cs)
  else u16_loop (S (length src)) be last st src spare 0.

(* bytes consumed and not yet settled: a pending surrogate or BMP unit (2), a pending first byte (1) *)
Definition u16_pending (st : u16st) : N :=
  (if (w_surrogate st =? 0) && negb (w_pending_bmp st) then 0 else 2)
  + match w_lead_byte st with Some _ => 1 | None => 0 end.

(* ================================================================================================ *)
(* Decoder: variant + BOM sniffing                                                                   *)
(* ================================================================================================ *)
Inductive variant :=
| VUtf8 (s : u8st)
| VUtf16 (be : bool) (s : u16st).

Definition new_variant (e : encoding) : variant :=
  match e with
  | Utf8 => VUtf8 u8_new
  | Utf16LE => VUtf16 false u16_new
  | Utf16BE => VUtf16 true u16_new
  end.

Definition variant_encoding (v : variant) : encoding :=
  match v with
  | VUtf8 _ => Utf8
  | VUtf16 false _ => Utf16LE
  | VUtf16 true _ => Utf16BE
  end.

(* the variant's decode_to_utf8_raw (src, dst, last = true) *)
Definition variant_step (v : variant) (src : list N) (spare : N) : variant * xresult * list N :=
  match v with
  | VUtf8 s => let '(s', r, cs) := u8_raw true s src spare in (VUtf8 s', r, cs)
  | VUtf16 be s => let '(s', r, cs) := u16_raw be true s src spare in (VUtf16 be s', r, cs)
  end.

Definition variant_pending (v : variant) : N :=
  match v with
  | VUtf8 s => u8_pending s
  | VUtf16 _ s => u16_pending s
  end.

(* life cycle AtStart (new_decoder: BOM sniffing) or Converting *)
Record decoder := Decoder { dc_at_start : bool; dc_variant : variant }.

(* Encoding::new_decoder *)
Definition new_decoder (e : encoding) : decoder := Decoder true (new_variant e).

(* decode_to_utf8_checking_end_with_offset: the BOM bytes count as read *)
Definition add_read (k : N) (r : xresult) : xresult :=
  match r with
  | XInputEmpty => XInputEmpty
  | XOutputFull rd => XOutputFull (rd + k)
  | XMalformed ml af rd => XMalformed ml af (rd + k)
  end.

Definition decoder_step (d : decoder) (src : list N) (spare : N) : decoder * xresult * list N :=
  if dc_at_start d then
    match src with
    | [] => (d, XInputEmpty, [])
    | _ :: _ =>
        match for_bom src with
        | Some (e, k) =>
            (* the mark is skipped; a mark of another encoding replaces the variant *)
            let v := if encoding_eqb (variant_encoding (dc_variant d)) e then dc_variant d else new_variant e in
            let '(v', r, cs) := variant_step v (skipn (N.to_nat k) src) spare in
            (Decoder false v', add_read k r, cs)
        | None =>
            let '(v', r, cs) := variant_step (dc_variant d) src spare in (Decoder false v', r, cs)
        end
    end
  else
    let '(v', r, cs) := variant_step (dc_variant d) src spare in (Decoder false v', r, cs).

Definition decoder_pending (d : decoder) : N := variant_pending (dc_variant d).

(* ================================================================================================ *)
(* YamlDecoder::decode, up to load_from_str                                                          *)
(* ================================================================================================ *)
Definition decode_model (t : xtrap) (input : list N) : xoutcome :=
  let '(e, _) := choose_encoding input in
  xdecode_loop_impl decoder_step (decode_fuel input) (new_decoder e) t input.
