From Coq Require Import List NArith ZArith Bool.
Import ListNotations.
Require Import Parser SBase SPrim SDir SScalar SFetch Pipe.

Record bufin := { b_buf : list chr; b_rest : list chr }.
Fixpoint take_pad (n : nat) (s : list chr) : list chr * list chr :=
  match n with
  | O => ([], s)
  | S n => match s with
           | [] => let '(a, r) := take_pad n [] in (0%N :: a, r)
           | c :: s => let '(a, r) := take_pad n s in (c :: a, r)
           end
  end.
Definition buf_ops (cap : nat) : InputOps bufin := {|
  lookahead := fun n b =>
    if Nat.leb n (length (b_buf b)) then Ok b
    else if Nat.ltb cap n then Panic 200
    else let '(a, r) := take_pad (n - length (b_buf b)) (b_rest b) in
         Ok {| b_buf := b_buf b ++ a; b_rest := r |};
  buflen := fun b => length (b_buf b);
  bufmaxlen := cap;
  peek_nth := fun n b => match nth_error (b_buf b) n with Some c => Ok c | None => Panic 201 end;
  skip1 := fun b => {| b_buf := tl (b_buf b); b_rest := b_rest b |};
  skip_n := fun n b => if Nat.ltb (length (b_buf b)) n then Panic 202
                       else Ok {| b_buf := skipn n (b_buf b); b_rest := b_rest b |};
  raw_read_non_breakz := fun b =>
    match b_rest b with
    | [] => Ok (None, b)
    | c :: r => if is_breakz c then
                  (if Nat.leb cap (length (b_buf b)) then Panic 203
                   else Ok (None, {| b_buf := b_buf b ++ [c]; b_rest := r |}))
                else Ok (Some c, {| b_buf := b_buf b; b_rest := r |})
    end;
|}.

Definition run_buf (cap : nat) (s : list N) : list (event * span) * pend :=
  let F := (2 * length s + 10)%nat in
  let '(toks, se) := scan_all (buf_ops cap) F (4 * F + 20) (init_sc {| b_buf := []; b_rest := s |}) [] in
  let p := {| p_toks := toks; p_token := None; p_states := []; p_state := SStreamStart;
              p_anchors := []; p_anchor_id := 1%N; p_tags := []; p_keep_tags := false |} in
  parse_all (4 * (4 * F + 20) + 40) p se [].
Definition run_buf16 := run_buf 16.
Definition run_buf8 := run_buf 8.
